#!/usr/bin/env python3
"""Development-time only: freezes reference data independent of /repo into lean/H5V/Spec/ and tools/spec_data/.
 - WHATWG named character references from Python's html.entities.html5 (2231 names)
 - C1 replacement table (windows-1252 mapping of 0x80..0x9F per the HTML standard's numeric-reference table)
"""
import html.entities, json, os, sys
sys.path.insert(0, os.path.dirname(os.path.abspath(__file__)))
import extract
ROOT = extract.ROOT
rows = []
for name, val in html.entities.html5.items():
    cps = [ord(c) for c in val]
    rows.append((name, cps[0], cps[1] if len(cps) > 1 else 0))
assert len(rows) == 2231, len(rows)
os.makedirs(os.path.join(ROOT, "tools", "spec_data"), exist_ok=True)
json.dump(sorted(rows), open(os.path.join(ROOT, "tools", "spec_data", "whatwg_entities.json"), "w"))
extract.write_if_changed(os.path.join(ROOT, "lean", "H5V", "Spec", "Entities.lean"),
    extract.gen_entities(rows, "Spec.Entities", "python html.entities.html5 (frozen reference, independent of /repo)"))
# HTML standard, "numeric character reference end state" table
c1 = {0x80:0x20AC,0x82:0x201A,0x83:0x0192,0x84:0x201E,0x85:0x2026,0x86:0x2020,0x87:0x2021,0x88:0x02C6,0x89:0x2030,
      0x8A:0x0160,0x8B:0x2039,0x8C:0x0152,0x8E:0x017D,0x91:0x2018,0x92:0x2019,0x93:0x201C,0x94:0x201D,0x95:0x2022,
      0x96:0x2013,0x97:0x2014,0x98:0x02DC,0x99:0x2122,0x9A:0x0161,0x9B:0x203A,0x9C:0x0153,0x9E:0x017E,0x9F:0x0178}
tab = [c1.get(0x80 + i) for i in range(32)]
# cross-check with the windows-1252 codec where it is defined
for i in range(32):
    try:
        u = bytes([0x80 + i]).decode("cp1252")
        assert tab[i] == ord(u), (i, tab[i], u)
    except UnicodeDecodeError:
        assert tab[i] is None
json.dump(tab, open(os.path.join(ROOT, "tools", "spec_data", "c1_table.json"), "w"))
body = ", ".join("none" if x is None else "some %d" % x for x in tab)
extract.write_if_changed(os.path.join(ROOT, "lean", "H5V", "Spec", "C1.lean"),
    "/- frozen reference: HTML standard numeric character reference table (cross-checked with cp1252) -/\nnamespace H5V.Spec.C1\n\ndef table : List (Option Nat) := [%s]\n\nend H5V.Spec.C1\n" % body)
print("frozen")
