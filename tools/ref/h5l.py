"""Reference trees for C02 from html5lib 1.1 (vendored under tools/third_party, independent of /repo).

html5lib 1.1 implements the WHATWG tree-construction algorithm as it stood before a handful of later
additions.  `excluded(text)` says when an input touches vocabulary whose rules changed after html5lib 1.1 was
written (so the reference is not authoritative there); everything else is compared tree-for-tree.

Both sides are rendered in the html5lib tree-construction test format (`| <html>` lines), attributes sorted,
so that a report is readable:

    ref_lines(text, ctx, scripting)     html5lib's tree
    dump_lines(dump)                    the tree the `tb` engine printed for the real code (D=… field)
"""
import os
import re
import sys

_TP = os.path.join(os.path.dirname(os.path.dirname(os.path.abspath(__file__))), "third_party")
if _TP not in sys.path:
    sys.path.insert(0, _TP)
import html5lib  # noqa: E402
from html5lib import treebuilders  # noqa: E402
from html5lib.constants import namespaces  # noqa: E402

NS_ABBR = {"$h": "http://www.w3.org/1999/xhtml", "$m": "http://www.w3.org/1998/Math/MathML",
           "$s": "http://www.w3.org/2000/svg", "$l": "http://www.w3.org/1999/xlink",
           "$x": "http://www.w3.org/XML/1998/namespace", "$n": "http://www.w3.org/2000/xmlns/"}
NS_PREFIX = {"http://www.w3.org/1999/xhtml": "", "http://www.w3.org/1998/Math/MathML": "math ",
             "http://www.w3.org/2000/svg": "svg "}
ATTR_PREFIX = {"http://www.w3.org/1999/xlink": "xlink ", "http://www.w3.org/XML/1998/namespace": "xml ",
               "http://www.w3.org/2000/xmlns/": "xmlns "}

# ---------------------------------------------------------------------------------------------------------
# vocabulary on which html5lib 1.1 is *not* the current standard (each with the reason); an input that
# mentions one of these tag names (in any case) is not compared.
OUTDATED = {
    "template": "html5lib 1.1 has no template insertion mode",
    "select": "select parsing was rewritten for customizable select (2025); option/optgroup/hr/selectedcontent rules differ",
    "option": "see select", "optgroup": "see select", "selectedcontent": "see select", "keygen": "see select",
    "menuitem": "html5lib treats menuitem specially (dropped from the standard in 2017)",
    "isindex": "isindex handling was removed from the standard in 2016",
    "rb": "ruby: rb/rtc rules changed (2014-2017)", "rtc": "see rb", "rp": "see rb", "rt": "see rb",
    "command": "html5lib treats command as void/head content (removed from the standard)",
}

_TAGS_ONLY = re.compile(r"<[/!?a-zA-Z][^>]*>")
_MIXED_TEXT = re.compile(r"[^\s\x01][^\x01]*[ \t\n\f\r]|[ \t\n\f\r][^\x01]*[^\s\x01]")
_PRE_THEN_TAG_THEN_LF = re.compile(r"<(pre|listing)\b[^>]*>(<[^>]*>|\0)+\r?\n")
_TAGNAME = re.compile(r"</?([a-zA-Z][^\s/>\0]*)")


def excluded(text, ctx=None):
    names = set(m.lower() for m in _TAGNAME.findall(text))
    if ctx:
        names.add(ctx[1].lower())
    hit = sorted(n for n in names if n in OUTDATED)
    low = text.lower()
    if ("svg" in names or "math" in names or (ctx and ctx[0] != namespaces["html"])) and ("</p" in low or "</br" in low):
        hit.append("</p> or </br> in foreign content (break-out rule added to the standard in 2017)")
    if ("frameset" in names or "colgroup" in names) and (_MIXED_TEXT.search(_TAGS_ONLY.sub("\x01", text)) or "&" in text):
        hit.append("frameset/colgroup + a text run mixing whitespace and other characters (html5lib decides per run, the standard per character)")
    if "<![cdata[" in low and "\0" in text:
        hit.append("U+0000 inside a CDATA section: html5lib's tokenizer replaces it; the standard emits it and lets tree "
                   "construction decide (dropped at an integration point, U+FFFD in foreign content)")
    if ctx and ctx[1].lower() == "noscript":
        hit.append("html5lib tokenizes a noscript fragment context as RAWTEXT whatever the scripting flag")
    return hit


# ---------------------------------------------------------------------------------------------------------
def _fmt_el(ns, local):
    return "<%s%s>" % (NS_PREFIX.get(ns, "{%s}" % ns), local)


def _walk_dom(node, depth, out):
    ind = "| " + "  " * depth
    prev_text = False
    for c in node.childNodes:
        t = c.nodeType
        if t == c.TEXT_NODE and prev_text:
            # html5lib's minidom builder appends one text node per insertion; the standard appends to the
            # preceding text node
            out[-1] = out[-1][:-1] + c.nodeValue + '"'
            continue
        prev_text = t == c.TEXT_NODE
        if t == c.DOCUMENT_TYPE_NODE:
            if c.publicId or c.systemId:
                out.append('%s<!DOCTYPE %s "%s" "%s">' % (ind, c.name or "", c.publicId or "", c.systemId or ""))
            else:
                out.append("%s<!DOCTYPE %s>" % (ind, c.name or ""))
        elif t == c.TEXT_NODE:
            out.append('%s"%s"' % (ind, c.nodeValue))
        elif t == c.COMMENT_NODE:
            out.append("%s<!-- %s -->" % (ind, c.nodeValue))
        elif t == c.ELEMENT_NODE:
            out.append(ind + _fmt_el(c.namespaceURI, c.localName if c.localName is not None else c.tagName))
            attrs = []
            for i in range(c.attributes.length):
                a = c.attributes.item(i)
                if a.namespaceURI:
                    attrs.append(("%s%s" % (ATTR_PREFIX.get(a.namespaceURI, "{%s}" % a.namespaceURI), a.localName), a.value))
                else:
                    attrs.append((a.name, a.value))
            for n, v in sorted(attrs):
                out.append('%s  %s="%s"' % (ind, n, v))
            _walk_dom(c, depth + 1, out)


def ref_lines(text, ctx=None, scripting=False):
    """ctx = None (document) or (namespace-url, local).  -> (lines, quirks) ; quirks in {'no','limited','quirks'}"""
    p = html5lib.HTMLParser(tree=treebuilders.getTreeBuilder("dom"), namespaceHTMLElements=True)
    if ctx is None:
        d = p.parse(text, scripting=scripting)
    else:
        ns, local = ctx
        container = local if ns == namespaces["html"] else "%s %s" % ({namespaces["svg"]: "svg", namespaces["mathml"]: "math"}[ns], local)
        d = p.parseFragment(text, container=container, scripting=scripting)
    out = []
    _walk_dom(d, 0, out)
    q = {"no quirks": "no", "limited quirks": "limited", "quirks": "quirks"}[p.compatMode]
    return out, q


# ---------------------------------------------------------------------------------------------------------
def _unhx(s):
    if s == "-" or s == "":
        return ""
    return "".join(chr(int(x, 16)) for x in s.split(" "))


def _ns(s):
    return NS_ABBR.get(s, None) if s.startswith("$") else _unhx(s)


def parse_dump(d):
    """`(data^{tpl}children)` -> nested [data, flag, tpl, children]"""
    pos = [0]

    def node():
        assert d[pos[0]] == "(", (pos[0], d[pos[0]:pos[0] + 30])
        pos[0] += 1
        j = pos[0]
        while d[j] not in "(){}^":
            j += 1
        data = d[pos[0]:j]
        pos[0] = j
        flag = False
        if d[pos[0]] == "^":
            flag = True
            pos[0] += 1
        tpl = None
        if d[pos[0]] == "{":
            pos[0] += 1
            tpl = node()
            assert d[pos[0]] == "}"
            pos[0] += 1
        kids = []
        while d[pos[0]] == "(":
            kids.append(node())
        assert d[pos[0]] == ")"
        pos[0] += 1
        return [data, flag, tpl, kids]

    n = node()
    return n


def _dump_walk(n, depth, out):
    ind = "| " + "  " * depth
    for data, flag, tpl, kids in n[3]:
        f = data.split(",")
        k = f[0]
        if k == "dt":
            name, pub, sys_ = _unhx(f[1]), _unhx(f[2]), _unhx(f[3])
            if pub or sys_:
                out.append('%s<!DOCTYPE %s "%s" "%s">' % (ind, name, pub, sys_))
            else:
                out.append("%s<!DOCTYPE %s>" % (ind, name))
        elif k == "tx":
            out.append('%s"%s"' % (ind, _unhx(f[1])))
        elif k == "cm":
            out.append("%s<!-- %s -->" % (ind, _unhx(f[1])))
        elif k == "pi":
            out.append("%s<?%s %s>" % (ind, _unhx(f[1]), _unhx(f[2])))
        elif k == "el":
            pre, ns, local = f[1].split("/")
            out.append(ind + _fmt_el(_ns(ns), _unhx(local)) + ("  [parent pointer wrong]" if flag else ""))
            attrs = []
            if f[2] != "-":
                for av in f[2].split("&"):
                    q, _, v = av.partition("=")
                    apre, ans, alocal = q.split("/")
                    ans = "" if ans == "-" else _ns(ans)
                    if ans:
                        attrs.append(("%s%s" % (ATTR_PREFIX.get(ans, "{%s}" % ans), _unhx(alocal)), _unhx(v)))
                    else:
                        attrs.append((_unhx(alocal), _unhx(v)))
            for a, v in sorted(attrs):
                out.append('%s  %s="%s"' % (ind, a, v))
            if tpl is not None:
                out.append(ind + "  content")
                _dump_walk(tpl, depth + 2, out)
            _dump_walk([None, None, None, kids], depth + 1, out)
        else:
            out.append(ind + "?? " + data)


def dump_lines(dump, fragment=False):
    """D= field of the tb engine -> (lines, quirks)"""
    tree, _, q = dump.partition(";Q=")
    n = parse_dump(tree)
    if fragment:
        # parse_fragment hangs the result under a synthetic root <html> element
        roots = [k for k in n[3] if k[0].startswith("el,")]
        n = roots[0] if roots else n
    out = []
    _dump_walk(n, 0, out)
    return out, q


if __name__ == "__main__":
    t = sys.argv[1]
    for l in ref_lines(t)[0]:
        print(l)
