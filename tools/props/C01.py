"""C01 — HTML tokenization equals the WHATWG tokenization algorithm.

The "model" side of this check is NOT the model of html5ever: `model_line` rewrites engine `tok` to
`tokspec`, so the Lean driver runs the independent transcription of the standard
(lean/H5V/Spec/HtmlTokenizer.lean) on the same case the harness feeds to the real tokenizer."""
import itertools
import re
import subprocess
from props import tokcommon as tc
from props import C14 as c14

PROP = "C01"
ENGINE = "tok"
HAS_MODEL = True
USES_TRANSLATOR = False
LEAN_TARGETS = ["H5V.Props.C01", "H5V.Props.C01Sim"]
AUDIT_IMPORTS = ["H5V.Props.C01", "H5V.Props.C01Sim"]
THEOREMS = ["H5V.Props.C01." + t for t in [
    "C01_spec_total", "C01_spec_single_eof", "C01_spec_step_measure", "C01_spec_run_steps",
    "C01_normalizeNewlines_no_cr", "C01_normalizeNewlines_idempotent", "C01_normalizeNewlines_id_of_no_cr",
    "C01_normalizeNewlines_length_le", "C01_dedupAttrs_nodup", "C01_dedupAttrs_sublist",
    "C01_dedupAttrs_first_wins", "C01_currentTag_names_nodup",
    # MODEL = SPEC for every input (Props/C01Sim.lean; simulation relation Rel through all state groups, look-aheads,
    # character references, EOF): tokens of the model of html5ever's tokenizer = tokens of the transcription of 13.2.5
    "C01_model_eq_spec", "C01_model_eq_spec_merged", "C01_model_eq_spec_exact", "C01_model_eq_spec_chunked",
    "C01_sim_initial", "C01_sim_step", "C01_sim_run", "C01_sim_finish", "modelTokens_eq_spec", "polE_of_polTree",
    "exPolTree", "histPolTree"]]
TRUSTED = [
    "Lean 4 kernel; axioms ⊆ {propext, Classical.choice, Quot.sound} (audited per run)",
    "lean/H5V/Spec/HtmlTokenizer.lean is a hand transcription of HTML Standard §13.2.5 written from memory of the "
    "standard's text (no network), independently of html5ever's source and of the model's transition functions",
    "frozen reference tables lean/H5V/Spec/Entities.lean (Python html.entities.html5) and Spec/C1.lean",
    "harness/src/engines/tok.rs (recording TokenSink, policy replay) and the printing code shared with the model driver",
]
ASSUMPTIONS = [
    "C01_model_eq_spec is about the MODEL (lean/H5V/Model/HtmlTok.lean); the real tokenizer is tied to the model by the tok "
    "correspondence and is ALSO compared directly with the executable specification on every case of this run",
    "hypotheses of C01_model_eq_spec: PolTree pol tree (the sink's answers = the specification's tree-construction feedback, "
    "as functions of the token history; no Script / EncodingIndicator pauses) and StartOk st: 65 of the 73 start states - "
    "excluded are RawEndTagOpen/RawEndTagName(ScriptDataEscaped(DoubleEscaped)), which have no counterpart among the 80 "
    "states of the standard (unreachable except through TokenizerOpts.initial_state), and the six attribute-name/value "
    "states, where a run started mid-attribute has an attribute without a name (not part of the emitted tag)",
    "the specification lean/H5V/Spec/HtmlTokenizer.lean is a transcription from memory of the standard's text",
]
RULE = ("every html5ever start state × 41 character classes (+EOF) × 6 suffixes, the three last-start-tag relations for "
        "raw end-tag states, both CDATA answers, look-ahead keyword families (state × ordered pairs over a reduced "
        "alphabet in thorough); boundary inputs × {cdata=0, cdata=1, RAW_POL} × bom; character-reference cases "
        "(named × followers × contexts, numerics, malformed); bounded-exhaustive token sequences (GRAMMARS: comments, "
        "markup declarations, script-data escapes, RCDATA/RAWTEXT end tags, DOCTYPEs, attributes, character references, "
        "CDATA sections); seeded tag soup under cdata/RAW_POL/SCRIPT_POL policies. "
        "Comparison: implementation tokens with parse errors, pause markers and line numbers removed and character "
        "tokens re-merged == tokens of the WHATWG specification. non-trivial = at least one token besides EOF; "
        "distinct = distinct (case, output)")
EXPLANATION = ("C01_model_eq_spec: for every input, start state (65/73), last start tag, BOM option, exact_errors value, chunking "
               "and history-dependent sink policy the model's tokens equal the specification's; theorems about the "
               "specification itself (total, one EOF last, newline normalisation, attribute de-duplication); the real "
               "tokenizer is compared case by case with both the model and the executable specification")

BOUNDARY_INPUTS = [
    "<!DOCTYPE html\r\nPUBLIC 'x'\r\n'y'>", "<p>a﻿b", "﻿x", "﻿﻿x", "<a b=\r\n\r\"x\r\ny\">", "<!--a\r\n-\r->b-->",
    "a&amp;b&ampc&notit;&#x41;&#65x&#;&#x;", "<a b='&amp=' c=&lt; d=\"&not;\">", "<![CDATA[x]]>y", "<!doctype a sYsTeM \"s\">",
    "<script><!--<script>x</script>--></script>y", "<title>a</title>b</ti", "<a\r\nb\r=\rc\r>", "x\r", "x\r\n", "\r\n\r\n",
    "<svg><![CDATA[a]]b]]>", "<!-", "<!d", "<!DOCTYPE a PUB", "&#13;\n", "<a b=&#10;\n>", "<p>\r\n&\r\nx",
    "<![CDATA[a\0b]]]]>]>c", "<a b=c d=e b=f D=g>", "</a b=c b=d/>", "<a/b/c=d/>", "<a =b ==c>", "<a b = c d ='e' f= \"g\"h>",
    "<A\0B c\0=d\0 e='\0' f=\"\0\">", "<!DOCTYPE\0 \0a\0 PUBLIC '\0' \"\0\">", "<!--\0--><!\0><?\0>", "<!DOCTYPE a PUBLIC'p'\"s\">",
    "<!DOCTYPE a PUBLIC \"p\" 's' x>", "<!DOCTYPE a SYSTEM's'x>", "<!DOCTYPE a PUBLIC 'p' x>", "<!DOCTYPE a public>",
    "<!DOCTYPE a system >", "<!doctypea>", "<!DOCTYPE>", "<!DOCTYPE >", "<!DOCTYPE a PUBLIC 'p>q", "<!DOCTYPE a b>",
    "<!----><!---><!--->x--><!--x--!>y<!--x--!-->z<!--a--!b-->", "<!--<!--x--><!--<!---><!--<!-x--><!--<<!x-->",
    "<!-- a --- b ----><!-- -- -->", "<script><!-- </script> --></script>", "<script><!--<script></script></script>x",
    "<script><!--<SCRIPT >a</scripT>b</script>c", "<script><!--<scriptx></script>", "<script><!-- -<\0 --\0 -\0></script>",
    "<script><\0</\0<!-\0<!--<script \0-\0--\0</script\0>", "<title>a&amp;<b</titl></title >c", "<title></TITLE/>", "<title></title x=y>z",
    "<textarea></textarea\0>", "<style>&amp;</style>", "<xmp></xm></xmp>", "<plaintext></plaintext>&amp;\0", "<a b=`c` d=e=f g=\"h\"i>",
    "&#x80;&#x81;&#x9f;&#xd800;&#xdfff;&#x10ffff;&#x110000;&#xfffe;&#1;&#13;&#128;", "&#X41;&#x;&#X;&#xg;&#99999999999999999999;",
    "&amp&amp;&ampx&amp=&ampé&am;&;&a;", "<a b=&amp c=&ampx d=&amp= e='&amp' f='&ampx' g='&amp=' h='&amp;='>",
    "&notit;&notin;&not;&noti", "<a b='&notit;&notin;&not;&noti'>", "<a b=&>", "<a b='&'>", "<a b=&#>", "<a b=&#x>", "<a b=&#x41>",
    "<", "</", "<a", "<a ", "<a b", "<a b=", "<a b='", "<a b='c'", "<a/", "<!", "<!--", "<!---", "<!----", "<!----!", "<!--a",
    "<!--a-", "<!--a--", "<!--a--!", "<?", "</x", "<!DOCTYPE", "<!DOCTYPE a", "<!DOCTYPE a ", "<!DOCTYPE a PUBLIC",
    "<!DOCTYPE a PUBLIC ", "<!DOCTYPE a PUBLIC '", "<!DOCTYPE a PUBLIC 'p'", "<!DOCTYPE a PUBLIC 'p' ", "<!DOCTYPE a PUBLIC 'p' '",
    "<!DOCTYPE a PUBLIC 'p' 's'", "<!DOCTYPE a SYSTEM", "<!DOCTYPE a SYSTEM ", "<!DOCTYPE a SYSTEM \"", "<!DOCTYPE a x", "&", "&#", "&#x",
    "&#1", "&#x1", "&a", "&amp", "<svg><![CDATA[", "<svg><![CDATA[]", "<svg><![CDATA[]]", "<script><", "<script></", "<script></s",
    "<script><!", "<script><!-", "<script><!--", "<script><!---", "<script><!--<", "<script><!--<s", "<script><!--<script ",
    "<script><!--<script -", "<script><!--<script --", "<script><!--<script <", "<script><!--<script </", "<script><!--<script </s",
    "<script><!--</", "<script><!--</s", "<title><", "<title></", "<title></t", "<style><", "<style></", "<style></s",
]


# (prefix, alphabet of tokens, max sequence length in quick, case keywords)
GRAMMARS = [
    ("<!--", ["<", "!", "-", ">", "x", "\0"], 6, {}),
    ("<!", ["-", "[CDATA[", "]", ">", "x", "DOCTYPE", "doctype "], 4, {"pol": "cdata=1"}),
    ("", ["<", "!", "-", ">", "/", "script", "SCRIPT", " ", "x"], 5, {"state": "RawData(ScriptData)", "last": tc.hx("script")}),
    ("<!--", ["<", "-", ">", "/", "script", " ", "x"], 5, {"state": "RawData(ScriptData)", "last": tc.hx("script")}),
    ("", ["<", "/", "title", "TITLE", "t", " ", ">", "x", "&amp;"], 5, {"state": "RawData(Rcdata)", "last": tc.hx("title")}),
    ("", ["<", "/", "style", "styl", "\t", ">", "/>", "x"], 5, {"state": "RawData(Rawtext)", "last": tc.hx("style")}),
    ("<!DOCTYPE", [" ", "PUBLIC", "system", "'", '"', ">", "x", "\0"], 5, {}),
    ("<!DOCTYPE a PUBLIC", [" ", "'", '"', ">", "x"], 6, {}),
    ("<a", [" ", "b", "=", "'", '"', ">", "/", "&amp", "B"], 5, {}),
    ("</a", [" ", "b", "=", "'", ">", "/"], 5, {}),
    ("<", ["a", "/", "!", "?", ">", " ", "1", "<"], 4, {}),
    ("", ["&", "#", "x", "1", "g", ";", "amp", "not", "in", "="], 4, {}),
    ("<a b='", ["&", "#", "X", "9", "f", ";", "amp", "not", "in", "=", "'>"], 4, {}),
    ("<a b=", ["&", "#", "x", "1", ";", "lt", "=", " ", ">"], 4, {}),
    ("<svg><![CDATA[", ["]", ">", "x", "\0", "<"], 5, {"pol": "cdata=1"}),
]


def gen_cases(tier, rng):
    global _IN_RUN
    _IN_RUN = True
    _MISMATCH.clear()
    cases = []
    for line in tc.state_cover():
        cases.append((line, "cover"))
    if tier == "thorough":
        for line in tc.pair_cover():
            cases.append((line, "pairs"))
    # the attribute value states entered with a *named* current attribute (started in the attribute name state)
    for pre in ("a=", "a=x", "a='", 'a="', "a='x", 'a="x', "a='x'", "a =", "a= "):
        for c in tc.CHARS:
            for suf in tc.SUFFIXES:
                cases.append((tc.case([pre + c + suf], state="AttributeName"), "attr-cover"))
        cases.append((tc.case([pre], state="AttributeName"), "attr-cover"))
    for s in BOUNDARY_INPUTS:
        for pol in ("cdata=0", "cdata=1", tc.RAW_POL):
            cases.append((tc.case([s], pol=pol), "boundary"))
            cases.append((tc.case([s], pol=pol, bom=0), "boundary"))
    # every text state's reaction to the soup vocabulary, started directly in that state
    for st in ["RawData(%s)" % k for k in tc.RAW] + ["Plaintext", "CdataSection"]:
        for s in tc.TEXT + ["</s>", "</S >", "</s/>", "</sx>", "<!--", "<!-- --> -->", "<s", "</", "<!--<s>", "<!--<script>-->",
                            "<!--<script></script>-->"]:
            for last in ("~", tc.hx("s"), tc.hx("script"), tc.hx("S"), tc.hx("sCript"), tc.hx("é")):
                cases.append((tc.case([s], state=st, last=last, pol=tc.RAW_POL), "text"))
    # one case per code point in every kind of position
    from props import C08 as _c08
    for cp in tc.codepoints(tier):
        cases.append((tc.case([_c08.CP_DOC.replace("{c}", chr(cp))], pol=tc.RAW_POL), "cp"))
    # size only (counters, caps, SIMD accumulators wrong past 2^8 / 2^10 / 2^16 units)
    for text, st in tc.bulk_inputs(tier):
        for exact in (0, 1):
            cases.append((tc.case([text], exact=exact, state=st, last=tc.hx("s") if st != "-" else "~",
                                  pol=tc.RAW_POL if st == "-" else "cdata=0"), "bulk"))
    # character references (C14's families, sub-sampled: C14 itself runs the full product)
    sub = c14.gen_cases("quick", rng)
    stride = 1 if tier == "thorough" else 4
    for i, (line, tag) in enumerate(sub):
        if tag in ("edge", "wrap", "bulk") or i % stride == 0:
            cases.append((line, "charref"))
    # bounded-exhaustive token sequences around the constructs with long reconsume chains / look-aheads
    for prefix, alphabet, n, kw in GRAMMARS:
        k = 1 if tier == "thorough" and len(alphabet) ** (n + 1) <= 300000 else 0
        for seq in itertools.product(alphabet, repeat=n + k):
            cases.append((tc.case([prefix + "".join(seq)], **kw), "grammar"))
        for m in range(n + k):
            for seq in itertools.product(alphabet, repeat=m):
                cases.append((tc.case([prefix + "".join(seq)], **kw), "grammar"))
    for line in tc.random_soup(rng, 3000 if tier == "quick" else 150000):
        cases.append((line, "soup"))
    # soup continued from a random start state
    for line in tc.random_soup(rng, 1000 if tier == "quick" else 50000):
        f = line.split("\t")
        f[2] = rng.choice(tc.STATES)
        f[3] = rng.choice(["~", tc.hx("script"), tc.hx("title"), tc.hx("a")])
        cases.append(("\t".join(f), "soup-state"))
    # the same algorithm must come out however the text arrives (the specification engine sees the flattened text):
    # CR / LF / run / LF around a chunk boundary in every bulk-read state, boundary inputs one character at a time,
    # soup under random partitions
    for line in tc.crlf_run_cover():
        s = tc.fields(line)["chunks"][0]
        for part in tc.partitions2(s)[1:-1]:
            cases.append((tc.with_chunks(line, part), "chunked"))
    for s in BOUNDARY_INPUTS:
        if s:
            cases.append((tc.case(tc.singletons(s), pol=tc.RAW_POL), "chunked"))
    for line in tc.random_soup(rng, 500 if tier == "quick" else 20000):
        s = tc.fields(line)["chunks"][0]
        if len(s) > 1:
            cases.append((tc.with_chunks(line, tc.random_partition(rng, s)), "chunked"))
    return cases


# ----------------------------------------------------------------------------- comparison with the specification

NON_STANDARD = ("RawEndTagOpen(ScriptDataEscaped(DoubleEscaped))", "RawEndTagName(ScriptDataEscaped(DoubleEscaped))")
_IN_RUN = False
_MISMATCH = {}      # line -> (impl view, spec output)
_SKIPPED = set()
_ORPHAN = set()


def model_line(line):
    f = line.split("\t")
    assert f[0] == "tok", line
    f[0] = "tokspec"
    return "\t".join(f)


ORPHAN_VALUE_STATES = ("BeforeAttributeValue", "AttributeValue(Unquoted)", "AttributeValue(SingleQuoted)",
                       "AttributeValue(DoubleQuoted)")
_ATTRS = re.compile(r"\[([^\]]*)\]")


def _blank_values(view):
    """T:…:[n=v,…] -> T:…:[n=,…] (used only for runs started inside an attribute value state, see differs)"""
    return _ATTRS.sub(lambda m: "[" + ",".join(a.split("=")[0] + "=" for a in m.group(1).split(",") if a) + "]", view)


def _has_orphan(line):
    """the run starts inside an attribute value state, or reaches one from the start state before any attribute
    exists (attribute name / after attribute name state started on '=')"""
    f = tc.fields(line)
    st, s = f["state"], "".join(f["chunks"])
    if f["opts"].find("bom=0") < 0 and s.startswith("\ufeff"):
        s = s[1:]
    if st in ORPHAN_VALUE_STATES:
        return True
    if st == "AttributeName":
        return s.startswith("=")
    if st == "AfterAttributeName":
        return s.lstrip("\t\n\r\x0c ").startswith("=")
    return False


def impl_view(out):
    """the implementation's tokens as the specification prints them: no parse errors, no pause markers, no line
    numbers, no empty character tokens (html5ever hands the sink an empty CharacterTokens at `]]>` when the CDATA
    section's text was already flushed: no characters), character tokens that became adjacent re-merged;
    None if the run crashed"""
    p = tc.parse_out(out)
    if p is None:
        return None
    toks, _ = p
    kept = tc.drop_errors([t for t in toks if t[0] != "P" and not (t[0] == "C" and t[1] in ("-", ""))])
    return ";".join("%s%s@0" % (k, (":" + b) if b else "") for k, b, l in kept)


def differs(line, impl, spec):
    """None if the implementation agrees with the specification on this case, else a description"""
    if spec is None:
        return None
    if spec == "NO-SUCH-STATE-IN-THE-STANDARD":
        _SKIPPED.add(line)
        return None
    if spec.startswith(("bad-", "OUT-OF-FUEL", "ABORT", "PANIC")):
        return "specification engine failed: %s" % spec[:200]
    v = impl_view(impl)
    if v is None:
        return "implementation crashed or malformed output: %s" % (impl or "")[:200]
    if v != spec:
        if _has_orphan(line) and _blank_values(v) == _blank_values(spec):
            # a run *started* inside an attribute value state has no current attribute; the standard defines nothing
            # for the characters appended to it. The specification discards them, html5ever keeps them in its value
            # register and prepends them to the next named attribute. Everything else is compared; the transitions of
            # these states are covered with a named attribute by the `attr-cover` family.
            _ORPHAN.add(line)
            return None
        return "html5ever delivers %s ; the WHATWG tokenization algorithm defines %s" % (v, spec)
    return None


def compare(line, impl, spec):
    why = differs(line, impl, spec)
    if why:
        _MISMATCH[line] = why
    return why is None


def _spec_of(line):
    import vlib
    r = subprocess.run([vlib.DRIVER_BIN], input=(model_line(line) + "\n").encode(), stdout=subprocess.PIPE)
    out = r.stdout.decode("utf-8", "replace").split("\n")
    return out[0] if out else None


def oracle(line, out):
    p = tc.parse_out(out)
    if p is None:
        return "implementation crashed or malformed output: %s" % (out or "")[:200]
    toks, _ = p
    if sum(1 for k, b, l in toks if k == "EOF") != 1 or toks[-1][0] != "EOF":
        return "not exactly one EOF token, last"
    if not _IN_RUN:
        # replay / neighbourhood search: evaluate the specification for this single case
        return differs(line, out, _spec_of(line))
    return None


def oracle_all(cases, impl_outs):
    """the comparison with the specification, reported as the property oracle: a mismatch is a concrete input on
    which the real tokenizer differs from the WHATWG algorithm (`compare` recorded them during the diff)"""
    idx = {line: i for i, (line, tag) in enumerate(cases)}
    res = []
    for line, why in _MISMATCH.items():
        if line in idx:
            res.append((line, why, impl_outs[idx[line]]))
    return res


def nontrivial(line, out):
    p = tc.parse_out(out)
    return p is not None and len([t for t in p[0] if t[0] not in ("E", "P")]) > 1


def extra_evidence(check):
    fam = {}
    for line, tag in check.cases:
        fam[tag.split(":")[0]] = fam.get(tag.split(":")[0], 0) + 1
    return {"families": fam, "states_covered": len(tc.STATES) - len(NON_STANDARD),
            "states_without_standard_counterpart": list(NON_STANDARD),
            "cases_skipped_no_standard_state": len(_SKIPPED),
            "cases_compared_modulo_orphan_attribute_value": len(_ORPHAN),
            "disagreements_with_specification": len(_MISMATCH)}
