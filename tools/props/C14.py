"""C14 — every character reference resolves to its WHATWG value."""
import sys
if hasattr(sys, "set_int_max_str_digits"):
    sys.set_int_max_str_digits(0)      # numeric references with tens of thousands of digits (size-only family)
import json
import os
from props import tokcommon as tc

PROP = "C14"
ENGINE = "tok"
USES_TRANSLATOR = True
LEAN_TARGETS = ["H5V.Props.C14", "H5V.Props.C14Run"]
AUDIT_IMPORTS = ["H5V.Props.C14Run"]
THEOREMS = ["H5V.Props.C14." + t for t in [
    "C14_table", "C14_c1", "C14_lookup_exact", "C14_lookup_prefix", "C14_lookup_none", "C14_rows_wellformed",
    "C14_numeric_accumulator", "C14_finish_numeric", "Walk.C14_named_longest", "Walk.C14_walk_is_do_named",
    "Walk.lookup_prefix_closed",
    # run level (Props/C14Run.lean, spec Spec/CharRef.lean written from the standard 13.2.5.72-80): every reference resolves
    # to the standard's characters, consumed length and error flag; EOF variant; any chunking
    "C14_run_none", "C14_run_named", "C14_run_numeric", "C14_run_resolves", "C14_crRun", "C14_run_in_tokenizer",
    "C14_amp_starts_reference", "C14_amp_resolves", "C14_spec_total_at_eof", "C14_eof_resolves", "C14_spec_decision_final",
    "C14_spec_consumed_le", "C14_every_reference", "C14_run_chunked"]]
TRUSTED = [
    "Lean 4 kernel (decide +kernel over the 2231-row table); axioms ⊆ {propext, Classical.choice, Quot.sound}",
    "tools/extract.py regenerates lean/H5V/Gen/Entities.lean + C1.lean from web_atoms/entities.rs, lib.rs on every run",
    "frozen reference lean/H5V/Spec/Entities.lean = Python html.entities.html5 (independent of /repo); Spec/C1 = HTML standard table cross-checked with cp1252",
    "build.rs prefix closure + phf lookup are modelled (entityLookupN), string_cache/phf themselves are not verified",
    "model lean/H5V/Model/HtmlTok.lean (char_ref/mod.rs) tied by the `tok` correspondence on every case of this run",
]
ASSUMPTIONS = ["the Python reference decoder in this file transcribes the standard's character-reference states"]
RULE = ("quick: every name × {exact, +alnum, +'=', +';' , EOF} × {data, RCDATA, 3 attribute quotings} subset + truncated/"
        "extended variants + boundary numerics; thorough: the full product of the property's quantifier and every "
        "numeric value 0..=0x110000 in both bases + overflow lengths. non-trivial = the reference decoder "
        "changes the text (a reference was resolved) or a legacy/longest-match decision is exercised; distinct = "
        "distinct (case, output)")
EXPLANATION = ("table theorems are kernel-checked over all rows; lookup/numeric theorems hold for all inputs; the "
               "enumeration decides the finite quantifier on the real code")
EXHAUSTIVE = False

ENT = {n: (a, b) for n, a, b in tc.load_entities()}
MAXLEN = max(len(n) for n in ENT)
C1 = json.load(open(os.path.join(tc.ROOT, "tools", "spec_data", "c1_table.json")))


def spec_numeric(v):
    if v == 0 or v > 0x10FFFF or 0xD800 <= v <= 0xDFFF:
        return 0xFFFD
    if 0x80 <= v <= 0x9F and C1[v - 0x80] is not None:
        return C1[v - 0x80]
    return v


def ref_decode(s, in_attr):
    """the standard's character-reference handling applied to text `s` (no other markup), after the
    input stream's newline normalisation"""
    s = s.replace("\r\n", "\n").replace("\r", "\n")
    out = []
    i = 0
    n = len(s)
    while i < n:
        c = s[i]
        if c != "&":
            out.append(c)
            i += 1
            continue
        j = i + 1
        if j < n and s[j].isascii() and s[j].isalnum():
            best = None
            for k in range(min(MAXLEN, n - j), 0, -1):
                if s[j:j + k] in ENT:
                    best = k
                    break
            if best is None:
                out.append("&")
                i += 1
                continue
            name = s[j:j + best]
            nxt = s[j + best] if j + best < n else None
            if in_attr and not name.endswith(";") and nxt is not None and (nxt == "=" or (nxt.isascii() and nxt.isalnum())):
                out.append("&")
                i += 1
                continue
            a, b = ENT[name]
            out.append(chr(a))
            if b:
                out.append(chr(b))
            i = j + best
        elif j < n and s[j] == "#":
            k = j + 1
            base = 10
            if k < n and s[k] in "xX":
                base = 16
                k += 1
            d0 = k
            digits = "0123456789abcdefABCDEF" if base == 16 else "0123456789"
            while k < n and s[k] in digits:
                k += 1
            if k == d0:
                out.append("&")
                i += 1
                continue
            v = int(s[d0:k], base)
            if k < n and s[k] == ";":
                k += 1
            out.append(chr(spec_numeric(v)))
            i = k
        else:
            out.append("&")
            i += 1
    return "".join(out)


CONTEXTS = ["data", "rcdata", "dq", "sq", "uq"]


def mk(ctx, body, exact=0):
    """-> (case line, expected decoded text)"""
    if ctx == "data":
        return tc.case(["x" + body], exact=exact)
    if ctx == "rcdata":
        return tc.case(["x" + body], exact=exact, state="RawData(Rcdata)")
    if ctx == "dq":
        return tc.case(['<a b="' + body + '">'], exact=exact)
    if ctx == "sq":
        return tc.case(["<a b='" + body + "'>"], exact=exact)
    if ctx == "uq":
        return tc.case(["<a b=y" + body + ">"], exact=exact)
    raise ValueError(ctx)


def body_ok(ctx, body):
    bad = {"data": "<\0", "rcdata": "<\0", "dq": '"\0', "sq": "'\0", "uq": " \t\n\x0c>\r\0"}[ctx]
    return not any(ch in body for ch in bad)


FOLLOWERS = ["", ";", "=", "a", "Z", "0", " ", "&", "#", "\n", "<", "é", "x;"]


def gen_cases(tier, rng):
    cases = []
    names = sorted(ENT)
    full = tier == "thorough"
    for idx, name in enumerate(names):
        bare = name.rstrip(";")
        variants = [name]
        if full or idx % 7 == 0:
            variants += [name[:-1]] if len(name) > 1 else []       # truncated
            variants += [bare + "x", bare + "1"]                    # extended past the match
        folls = FOLLOWERS if full else ["", "=", "a", ";", " "] if idx % 3 == 0 else ["", "a"]
        ctxs = CONTEXTS if full else (CONTEXTS if idx % 5 == 0 else ["data", "dq"])
        for v in variants:
            for f in folls:
                body = "&" + v + f
                for ctx in ctxs:
                    if body_ok(ctx, body):
                        cases.append((mk(ctx, body), "named"))
    # numerics
    vals = set([0, 1, 8, 9, 0xA, 0xB, 0xC, 0xD, 0xE, 0x1F, 0x20, 0x7E, 0x7F, 0x80, 0x81, 0x8D, 0x9F, 0xA0, 0xFF,
                0xD7FF, 0xD800, 0xDFFF, 0xE000, 0xFDCF, 0xFDD0, 0xFDEF, 0xFDF0, 0xFFFD, 0xFFFE, 0xFFFF, 0x10000,
                0x1FFFE, 0x1FFFF, 0x10FFFD, 0x10FFFE, 0x10FFFF, 0x110000, 0x110001, 0xFFFFFFFF, 0x100000000,
                0x100000041, 0x1000000000, 2 ** 64 + 65])
    vals |= set(range(0x80, 0xA0))
    if full:
        vals |= set(range(0, 0x110001))
    else:
        vals |= set(rng.randrange(0, 0x110001) for _ in range(6000))
    for v in sorted(vals):
        forms = ["&#%d;" % v, "&#x%x;" % v] if not full or v % 5 else ["&#%d;" % v, "&#x%x;" % v, "&#X%X" % v, "&#%d" % v]
        for fm in forms:
            ctx = "data" if (v % 3) else "dq"
            cases.append((mk(ctx, fm + "z"), "numeric"))
    # the u32 accumulator around its wrap points: values k*2^32 + small, the neighbourhood of 2^32, and decimal strings
    # whose first ten digits are 4294967290..4294967299 (the multiply fits, the add wraps) continued by more digits
    wrap = set()
    for k in (1, 2, 3, 10, 16, 2 ** 32):
        for small in (0, 1, 2, 3, 9, 0x41, 0x10FFFF, 0x110000):
            wrap.add("&#%d;" % (k * 2 ** 32 + small))
            wrap.add("&#x%x;" % (k * 2 ** 32 + small))
    for v in range(2 ** 32 - 12, 2 ** 32 + 12):
        wrap.add("&#%d;" % v)
        wrap.add("&#x%X;" % v)
    for v10 in range(4294967290, 4294967300):
        for suf in ("", "0", "5", "65", "665", "0000065"):
            wrap.add("&#%d%s;" % (v10, suf))
            wrap.add("&#%d%s" % (v10, suf))
    for v16 in range(0xFFFFFFF0, 0x100000000, 3):
        for suf in ("", "0", "41", "041"):
            wrap.add("&#x%x%s;" % (v16, suf))
    for body in sorted(wrap):
        for ctx in ("data", "dq"):
            cases.append((mk(ctx, body + "z"), "wrap"))
    # size only: '&' + a long run that is not a reference, long zero-padded numerics (every character must come back)
    alnum = "abcdefghijklmnopqrstuvwxyzABCDEFGHIJKLMNOPQRSTUVWXYZ0123456789"
    for n in ((255, 256, 1023, 1024, 1025, 1100) if not full else (255, 256, 257, 1023, 1024, 1025, 1100, 2050, 4097, 16390)):
        run = (alnum * (n // len(alnum) + 1))[:n]
        for body in ["&" + run + t for t in (";", " y", "=", "", "&amp;", ";&" + run)] + ["&#" + "0" * n + "65;", "&#x" + "0" * n + "41"]:
            for ctx in CONTEXTS:
                for exact in (0, 1):
                    if body_ok(ctx, body + "z"):
                        cases.append((mk(ctx, body + "z", exact=exact), "bulk"))
    # overflow lengths and malformed numerics
    for body in ["&#", "&#;", "&#x", "&#x;", "&#xg", "&#a", "&#0;", "&#00000000000000000000065;", "&#x" + "0" * 30 + "41;",
                 "&#" + "9" * 10, "&#" + "9" * 11, "&#" + "9" * 20 + ";", "&#x" + "f" * 8, "&#x" + "f" * 9 + ";", "&#x110000",
                 "&#4294967361;", "&#x100000041;", "&#4294967296;", "&#x10FFFF;", "&#1114111;", "&#1114112;",
                 "&", "&;", "&a", "&1", "&zz;", "&zz", "&am", "&amp", "&ampa", "&amp=", "&notit;", "&noti", "&notin;", "& amp;"]:
        for ctx in CONTEXTS:
            for exact in (0, 1):
                for tail in ["", "z", " z", "\r\nz", "\rz", "\nz"]:
                    if body_ok(ctx, body + tail):
                        cases.append((mk(ctx, body + tail, exact=exact), "edge"))
    # a reference cut by a chunk boundary at every position, and ended by EOF right after its last character
    for body in ["&#65;", "&#x41;", "&#65", "&#x41", "&#1234567;", "&amp;", "&amp", "&notit;", "&not", "&AElig", "&zz;", "&#;", "&#x;"]:
        for ctx in ("data", "dq", "uq"):
            for tail in ("", "z"):
                if not body_ok(ctx, body + tail):
                    continue
                whole = mk(ctx, body + tail)
                s0 = tc.fields(whole)["chunks"][0]
                for part in tc.partitions2(s0)[1:-1] + [tc.singletons(s0)]:
                    cases.append((tc.with_chunks(whole, part), "chunked"))
    return cases


def expected_of(line):
    f = tc.fields(line)
    s = "".join(f["chunks"])
    st = f["state"]
    if s.startswith("<a b="):
        q = s[5]
        if q in "\"'":
            body = s[6:-2]
        else:
            body = s[5:-1]
        return "attr", ref_decode(body, True).replace("\n", "\n")
    return "text", ref_decode(s, False)


def oracle(line, out):
    p = tc.parse_out(out)
    if p is None:
        return "implementation crashed or malformed output: %s" % (out or "")[:200]
    toks, _ = p
    kind, exp = expected_of(line)
    if kind == "text":
        got = "".join(tc.unhx(b) if k == "C" else ("\0" if k == "N" else "") for k, b, l in toks if k in ("C", "N"))
        got_lt = got
        # a trailing '<' at EOF is re-emitted as text by the tag-open EOF rule: same characters
        if got_lt != exp:
            return "character data %r, WHATWG reference %r" % (got, exp)
    else:
        tags = [b for k, b, l in toks if k == "T"]
        if len(tags) != 1:
            return "expected exactly one tag token, got %d" % len(tags)
        m = tags[0].split(":")
        attrs = m[4].strip("[]")
        val = None
        for a in attrs.split(","):
            if "=" in a:
                n, v = a.split("=")
                if tc.unhx(n) == "b":
                    val = tc.unhx(v)
        if val is None:
            return "attribute b missing"
        if val != exp:
            return "attribute value %r, WHATWG reference %r" % (val, exp)
    return None


def nontrivial(line, out):
    f = tc.fields(line)
    s = "".join(f["chunks"])
    kind, exp = expected_of(line)
    return out is not None and "&" in s
