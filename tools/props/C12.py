"""C12 — tendril buffers are freed exactly once and never accessed out of bounds.

Same engine and generators as C11 (`tools/props/C11.py`); the oracle looks at the allocation ledger
(events per operation observed by the harness' global allocator, balance and anomalies at the end of
every case) and at the multi-thread family."""
from props import C11

PROP = "C12"
ENGINE = "tendril"
LEAN_TARGETS = ["H5V.Props.C12", "H5V.Lemmas.TendrilUtf8"]
AUDIT_IMPORTS = ["H5V.Props.C12", "H5V.Lemmas.TendrilUtf8"]
THEOREMS = ["H5V.Props.C12." + t for t in [
    "C12_step_safe", "C12_reachable", "C12_reachable_valid", "C12_ledger", "mon_dead_forever", "mon_free_once",
    "C12_live_iff_referenced", "C12_empty_at_end", "C12_atomic_interleaving",
    "safe_bytes", "safe_ascii", "safe_latin1", "safe_wtf8",
]] + ["H5V.Lemmas.Tendril.Utf8.laws_utf8", "H5V.Lemmas.Tendril.Utf8.C11_utf8_valid"]
TRUSTED = [
    "Lean 4 kernel; axioms ⊆ {propext, Classical.choice, Quot.sound} (audited per run)",
    "hand-written model lean/H5V/Model/Tendril.lean (every raw access of tendril.rs / buf32.rs is a checked "
    "primitive of an index-checked arena with an event trace), tied to the code by the `tendril` correspondence "
    "including the allocation events (size = capacity + 16-byte header) seen by harness/src/alloc_ledger.rs",
    "atomics: fetch_add / fetch_sub are taken as linearisable operations on a counter and the Release / Acquire "
    "fences as making the linearisation valid for the buffer contents (C12_atomic_interleaving is a theorem about "
    "linearised counter events)",
    "not modelled: pointer provenance, the transmutes between formats and atomicities, Vec / allocator internals",
    "runtime support (not proof): the harness allocator checks layout on dealloc, a 16-byte canary behind every "
    "tendril buffer, 0xDD poison + quarantine of released buffers until the end of the case (write-after-free, "
    "double free), 0xCD fill of fresh buffers (reads of uninitialised bytes show up as wrong content); "
    "thorough tier additionally runs a sample under Miri when the component is installed",
]
ASSUMPTIONS = [
    "64-bit target (size_of::<Header>() = 16); reference-count overflow (2^64 clones) out of scope",
    "UTF-8 memory safety rests on the contents being valid (C12_reachable_valid via C11's Laws); the other four "
    "formats are safe whatever bytes they hold (SafeLaws)",
]
RULE = ("as C11 (every op × representation × boundary length, push_tendril adjacency cover, random histories, "
        "5 formats × 2 atomicities) judged on the ledger: after every op the number of live tendril buffers equals "
        "the number of distinct buffers the pool refers to, every free matches a live allocation of that size, "
        "dropping the pool leaves live=0 with no anomaly (double free, unknown free, bad layout, canary, write "
        "after free); plus the multi-thread family: clones / subtendrils of one Atomic buffer and SendTendrils "
        "spread over 4 threads running random clone/drop/push/slice/pop scripts concurrently, per-thread checksums "
        "of all bytes after every action compared with a sequential Python replay; plus C11's family api2 (engine "
        "tendril2: conversions, comparisons, std trait impls, writers, read_to_tendril, Extend / FromIterator, sink "
        "helpers over operands in 5 representations): the whole case runs inside one ledger window and must end "
        "with every block released once and no anomaly (`@ledger=ok`), no panic. non-trivial = at least one "
        "allocation event or a thread case")
EXPLANATION = ("theorems: WF preserved and no Fault.ub for every op from every reachable state; monitor accepts the "
               "trace; live iff referenced; dropAll leaves nothing; atomic counter under all interleavings")

MASK = (1 << 64) - 1


def checksum(acc, b):
    h = acc ^ 0xcbf29ce484222325
    for x in b:
        h = ((h ^ x) * 0x100000001b3) & MASK
    return (h * 31 + len(b)) & MASK


def thread_reference(line):
    """sequential replay of the multi-thread case (threads only touch their own tendrils)"""
    fmt, atom, rest = line.split("\t")[1:4]
    parts = rest.split(";")
    head, scripts = parts[0], [s.strip() for s in parts[1:]]
    kv = dict(x.strip().split("=") for x in head.split(","))
    l, k, m = int(kv.get("L", 33)), int(kv.get("K", 2)), kv.get("M", "a")
    data = bytes(0x61 + i % 26 for i in range(l))
    cap = k + max(len(s) for s in scripts) + 1
    sums = []
    for ti in range(4):
        ts = []
        for j in range(k):
            if m == "a":
                ts.append(data)
            elif m == "s":
                ts.append(data if l < 2 * (j + 1) else data[j:j + l - 2 * j])
            else:
                ts.append(data if j % 2 == 0 else data[:min(l, 5)])
        cs = 0
        for a in scripts[ti]:
            if a == "c":
                if ts and len(ts) < cap:
                    ts.append(ts[-1])
            elif a == "d":
                if ts:
                    ts.pop(0)
            elif a == "D":
                if ts:
                    ts.pop()
            elif a == "p":
                if ts:
                    ts[0] = ts[0] + b"x"
            elif a == "s":
                if ts and len(ts[0]) >= 2 and len(ts) < cap:
                    ts.append(ts[0][1:len(ts[0]) - 1])
            elif a == "f":
                if ts and len(ts[0]) >= 1:
                    ts[0] = ts[0][1:]
            elif a == "b":
                if ts and len(ts[-1]) >= 1:
                    ts[-1] = ts[-1][:-1]
            for t in ts:
                cs = checksum(cs, t)
        sums.append(cs)
    return "thr|" + "|".join("%x" % s for s in sums) + "|live=0"


def thread_cases(n, rng):
    out = []
    for i in range(n):
        fmt = ["bytes", "utf8", "ascii", "latin1", "wtf8"][i % 5]
        l = rng.choice([0, 1, 8, 9, 16, 17, 33, 33, 100, 1000])
        k = rng.choice([1, 2, 3, 5])
        m = rng.choice("aassn")
        d = rng.choice("ab")
        scripts = ["".join(rng.choice("ccdDpsfby") for _ in range(rng.randint(0, 24))) for _ in range(4)]
        out.append(("tendril\t%s\tT\tL=%d,K=%d,M=%s,D=%s;%s" % (fmt, l, k, m, d, ";".join(scripts)), "threads"))
    return out


def gen_cases(tier, rng):
    cases = []
    for fmt in C11.FORMATS:
        for atom in ("A", "N"):
            lens = C11.LENS if (tier == "thorough" or atom == "A") else [0, 8, 9, 16, 17, 33]
            cases += C11.cover_cases(fmt, atom, lens=lens)
            cases += C11.adjacency_cases(fmt, atom)
    # capacity paths: push_uninitialized on a heap tendril that is (still) short (with_capacity / reserve / clear
    # keep the buffer), and capacity requests that must panic before anything is touched (Buf32::grow overflow)
    for atom in ("A", "N"):
        for pre in (["withcap 0 %d" % c] for c in (9, 16, 64, 100)):
            for n1 in (0, 1, 7, 8):
                for n2 in (0, 1, 9):
                    cases.append((C11.mk("bytes", atom, pre + ["pushu 0 %d" % n1, "pushu 0 %d" % n2, "clone 0 1", "pushu 1 3", "drop 0"]), "cap"))
        for L in (0, 3, 9, 20):
            body = C11.hx(bytes([0x61 + k % 26 for k in range(L)]))
            for n1 in (0, 2, 8):
                cases.append((C11.mk("bytes", atom, ["from 0 " + body, "reserve 0 40", "clear 0", "pushu 0 %d" % n1, "pushs 0 62", "drop 0"]), "cap"))
                cases.append((C11.mk("bytes", atom, ["from 0 " + body, "pushu 0 %d" % n1, "clone 0 1", "pushu 0 %d" % (9 - n1), "setb 1 0 7a"]), "cap"))
    for fmt in C11.FORMATS:
        for atom in ("A", "N"):
            for L in (0, 5, 9, 40):
                body = C11.hx(C11.content(fmt, L, 1))
                for huge in (2415919104, 4294967295, 4294967290, 2147483649):
                    cases.append((C11.mk(fmt, atom, ["from 0 " + body, "clone 0 1", "reserve 0 %d" % huge, "pushs 0 61", "drop 1",
                                                     "reserve 0 %d" % huge, "clone 0 2", "reserve 2 %d" % huge, "drop 0"]), "cap-overflow"))
                    cases.append((C11.mk(fmt, atom, ["withcap 0 %d" % huge, "from 1 " + body, "withcap 1 %d" % huge, "pushs 1 61"]), "cap-overflow"))
    cases += thread_cases(400 if tier == "quick" else 20000, rng)
    # the last two references to one Atomic buffer dropped by two threads at the same moment (spin rendezvous, delay
    # sweep), many rounds: no block may stay live, none may be freed twice
    for fmt in ("bytes", "utf8"):
        for k in range(4 if tier == "quick" else 40):
            cases.append(("tendril\t%s\tT\tR=%d" % (fmt, 200000 + k), "race"))
    n = 3000 if tier == "quick" else 300000
    for k in range(n):
        fmt = C11.FORMATS[k % 5]
        atom = "AN"[(k // 5) % 2]
        cases.append((C11.random_case(fmt, atom, rng, nops=rng.randint(4, 30)), "random"))
    # family api2 (engine tendril2: the rest of the public API, one call sequence per case inside one ledger window)
    cases += C11.api2_cases(tier, rng)
    return cases


def model_line(line):
    return line


def compare(line, impl, model):
    # the multi-thread family has no model run (the Lean theorem about interleavings is abstract);
    # it is judged by the oracle only
    if line.startswith("tendril2\t"):
        return C11.compare(line, impl, model)
    if line.split("\t")[2] == "T":
        return True
    if any(h in line for h in (" 2415919104", " 4294967295", " 4294967290", " 2147483649")):
        # a capacity request that panics: the real `reserve` has already made the tendril owned when `grow`
        # panics (no leak, the tendril owns the block); the model reports the panic with the state unchanged.
        # Judged by the ledger oracle (every block owned once, released once).
        return True
    if "pushu " in line:
        # push_uninitialized is not an operation of the Lean model (its theorems quantify over the modelled
        # operations); these cases are judged by the Vec oracle and the allocation ledger only
        return True
    return C11.strip_annot(impl) == model


def ledger_oracle(line, out):
    po = C11.parse_out(out)
    if po is None:
        return "malformed output: %s" % out[:200]
    steps, end = po
    live = []          # multiset of capacities of live tendril buffers
    for n, (r, ev, slots) in enumerate(steps):
        if r.startswith("UB") or "PANIC" in r:
            return "op #%d: %s" % (n, r)
        for e in ([] if ev == "-" else ev.split(" ")):
            c = int(e[1:])
            if e[0] == "A":
                if c < 16 or c % 16:
                    return "op #%d: allocation of capacity %d (not a multiple of 16 ≥ 16)" % (n, c)
                live.append(c)
            else:
                if c not in live:
                    return "op #%d: release of a %d-byte buffer that is not live (double free / wrong size)" % (n, c)
                live.remove(c)
        # buffers the pool refers to: every owned slot its own, shared slots by group
        bufs = 0
        groups = set()
        for k, s in enumerate(slots):
            if s is None:
                continue
            if s[0] == "o":
                bufs += 1
            elif s[0] == "s":
                groups.add(s[1])
        bufs += len(groups)
        if len(live) != bufs:
            return ("op #%d: %d live tendril buffers %s but the pool refers to %d (leak or premature free)"
                    % (n, len(live), sorted(live), bufs))
        # capacity sanity: every heap tendril fits in some live buffer
        for s in slots:
            if s is not None and s[0] in "os" and live and len(s[2]) > max(live):
                return "op #%d: tendril of %d bytes but the largest live buffer has %d" % (n, len(s[2]), max(live))
    f = end.split("|")
    if len(f) != 3:
        return "malformed end: %s" % end
    for e in ([] if f[1] == "-" else f[1].split(" ")):
        c = int(e[1:])
        if e[0] != "F" or c not in live:
            return "end: unexpected event %s while dropping the pool (live %s)" % (e, sorted(live))
        live.remove(c)
    if live:
        return "end: buffers %s never released" % sorted(live)
    if f[2] != "live=0":
        return "end: %s" % f[2]
    return None


def oracle(line, out):
    if line.startswith("tendril2\t"):
        # values are C11's subject; here the ledger balance of the case (`@ledger=` suffix) and crashes
        return C11.api2_ledger_oracle(line, out)
    if out is None or out.startswith("PANIC") or out.startswith("ABORT"):
        return "implementation crashed: %s" % out
    if line.split("\t")[2] == "T" and line.split("\t")[3].startswith("R="):
        want = "race|rounds=%s|live=0" % line.split("\t")[3][2:]
        if out != want:
            return ("concurrent drops of the last two references to one buffer: %s (expected %s: every buffer freed exactly "
                    "once)" % (out, want))
        return None
    if line.split("\t")[2] == "T":
        want = thread_reference(line)
        if out != want:
            return "multi-thread case: got %s, sequential reference %s" % (out, want)
        return None
    if "ORACLE-MISMATCH" in out:
        # contents are C11's subject; here only a divergence that C11's reference does not explain as the known
        # WTF8::validate defect (ill-formed bytes accepted) counts — it could be a use after free / aliasing
        why = C11.oracle_bytes(line, out)
        if why and not why.startswith(C11.WTF8_DEFECT):
            return "content diverged from an owned string (possible use after free / aliasing): %s" % why[:200]
        out = C11.strip_annot(out)
    return ledger_oracle(line, out)


def nontrivial(line, out):
    if out is None:
        return False
    if line.startswith("tendril2\t"):
        return C11.nontrivial(line, out)
    return out.startswith(("thr|", "race|")) or "|A" in out


def neighbourhood(line):
    if line.startswith("tendril2\t"):
        return []
    if line.split("\t")[2] == "T":
        return []
    return C11.neighbourhood(line)


def extra_evidence(check):
    ev = {"families": "as C11 + threads (4 threads × scripts over c d D p s f b y, modes a/s/n, drop before/after join)"}
    if check.tier == "thorough":
        ev["miri"] = miri_sample()
    return ev


def miri_sample():
    """supporting evidence only: a small sample of cases under Miri, if the component is installed"""
    import os
    import random
    import subprocess
    try:
        p = subprocess.run(["cargo", "+nightly", "miri", "--version"], cwd="/verif/harness", capture_output=True,
                           text=True, timeout=60)
        if p.returncode != 0:
            return {"available": False}
        rng = random.Random(7)
        lines = [C11.random_case(f, a, rng, nops=12) for f in C11.FORMATS for a in "NA" for _ in range(3)]
        lines += [l for l, _ in thread_cases(10, rng)]
        lines += [l for l in open(os.path.join(os.path.dirname(__file__), "..", "..", "corpus", "C12", "regress.case"))
                  .read().split("\n") if l and not l.startswith("#")]
        env = dict(os.environ, MIRIFLAGS="-Zmiri-disable-isolation -Zmiri-permissive-provenance",
                   CARGO_NET_OFFLINE="true")
        p = subprocess.run(["cargo", "+nightly", "miri", "run", "--offline"], cwd="/verif/harness",
                           input="\n".join(lines) + "\n", capture_output=True, text=True, timeout=900, env=env)
        outs = [o for o in p.stdout.split("\n") if o]
        bad = [l for l, o in zip(lines, outs) if oracle(l, o)]
        return {"available": True, "cases": len(lines), "rc": p.returncode, "outputs": len(outs),
                "oracle_failures_under_miri": len(bad),
                "undefined_behaviour_reported": "Undefined Behavior" in p.stderr,
                "stderr_tail": p.stderr[-300:] if p.returncode else ""}
    except Exception as e:  # pragma: no cover
        return {"available": False, "error": str(e)[:200]}
