"""C09 — line numbers reported with tokens match the source (tokenizer level)."""
from props import tokcommon as tc
from props import tbcommon as tb

PROP = "C09"
ENGINE = "tok"
USES_TRANSLATOR = True
LEAN_TARGETS = ["H5V.Props.C09"]
AUDIT_IMPORTS = ["H5V.Props.C09"]
THEOREMS = ["H5V.Props.C09." + t for t in [
    "C09_only_the_reader_counts", "C09_fold_counts_once", "C09_crlf_counts_once", "C09_crlf_split",
    "C09_eat_prologue", "C09_bav_counts", "C09_step_conserves", "C09_invariant_initial", "C09_line_at_any_step",
    "C09_line_after_input", "C09_tokens_of_a_step", "C09_eof_line", "C09_eof_line_empty", "C09_brk_is_lf_count"]] + ["H5V.Props.C03.C03_chunk_independence",
    "H5V.Model.HtmlTok.step_lines", "H5V.Model.HtmlTok.crStep_phi", "H5V.Model.HtmlTok.eat_phi",
    "H5V.Model.HtmlTok.lookup_no_break", "H5V.Model.HtmlTok.finish_line", "H5V.Model.HtmlTok.crEof_lines"]
AUDIT_IMPORTS = ["H5V.Props.C09", "H5V.Props.C03"]
TRUSTED = [
    "Lean 4 kernel; axioms ⊆ {propext, Classical.choice, Quot.sound} (audited per run)",
    "model lean/H5V/Model/HtmlTok.lean tied by the `tok` correspondence, which compares the line number of every token "
    "(and of EOF) on every case, one-character feeding included",
    "the SIMD fast path's bulk newline count is modelled as one bump per LF inside a run (canonicalised tokens carry the "
    "line of their last piece)",
]
ASSUMPTIONS = [
    "the theorems are about the model of tokenizer/mod.rs + char_ref/mod.rs (all of run/feed/end); the byte-level SIMD newline "
    "popcount is modelled as one bump per LF of a run",
    "per token: C09_tokens_of_a_step (tokens a step delivers are stamped with the line the step ends on)",
    "the tree builder forwards the number unchanged (set_current_line) — checked by the tree-builder engine, not here",
]
RULE = ("line-break triples (LF, CR, CRLF and runs of them) are placed in every tokenizer state (73 states via "
        "initial_state, plus realistic documents with breaks inside tags, around '=', in the three quoting styles, comments, "
        "doctype ids/keywords, raw text, after '&', inside '&#…', CDATA). Oracle on the real code: (1) the EOF token of "
        "every run carries 1 + breaks(whole input); (2) prefix oracle: feeding s[:i] without end() for every i, every "
        "token that appears or grows between prefix i and i+1 carries a line in "
        "[1+breaks(s[:i]), 1+breaks(s[:i+1])]; (3) every chunking gives the same lines (with C03). non-trivial = input "
        "contains a line break; distinct = distinct (case, output)")
EXPLANATION = ("end-to-end counting invariant proved for the model (every step conserves line + breaks ahead; line = 1 + breaks "
               "of everything fed at every suspension, any chunking; Tokenizer::end never moves the line, so the EOF token carries 1 + breaks(input)) + prefix/EOF oracles on the real code + correspondence on every line number")

BR = ["\n", "\r", "\r\n", "\n\n", "\r\r", "\r\n\r\n", "\n\r", "\r\n\n"]
DOCS = [
    "<a{b}b{b}={b}'x{b}y'{b}c{b}={b}\"p{b}q\"{b}d={b}u{b}>t{b}</a{b}>",
    "<!--{b}a{b}--{b}-->{b}<!-{b}->", "<!DOCTYPE{b}html{b}PUBLIC{b}\"a{b}b\"{b}'c{b}d'{b}>x",
    "<!DOCTYPE a{b}SYSTEM{b}'s'>", "<!DOCTYPE a{b}bogus{b}>", "<title>a{b}&amp;{b}b</title{b}>{b}",
    "<script>a{b}<!--{b}<script>{b}</script>{b}-->{b}</script>{b}", "&{b}x&amp{b}&#{b}&#x{b}&#65{b}&notit{b};&am{b}p;",
    "R&foo{b}end&zz{b};&Dx{b}=&q1{b}", "<a b='&foo{b}c' d=&zz{b}>", "<title>&foo{b}</title>&#x{b}g&#1{b}2",
    "<![CDATA[{b}]]{b}]]>{b}", "<a b=&amp{b} c='&lt{b}'>", "<a/{b}>", "</{b}a>", "<{b}", "<a b{b}", "<a b='{b}",
    "<?{b}pi{b}>", "<svg{b}><![CDATA[a{b}b]]>{b}</svg>", "<plaintext>{b}a{b}", "{b}", "x{b}", "{b}x",
]


def breaks(s):
    n = 0
    for i, c in enumerate(s):
        if c == "\r":
            n += 1
        elif c == "\n" and not (i > 0 and s[i - 1] == "\r"):
            n += 1
    return n


def gen_cases(tier, rng):
    cases = []
    inputs = []
    # breaks in every state
    for st in tc.STATES:
        last = tc.hx("s") if st.startswith("Raw") else "~"
        for b in BR:
            for pre in ("", "a", "s", "="):
                for suf in ("", "x", ">", "'y'>z"):
                    inputs.append(tc.case([pre + b + suf], state=st, last=last, pol="cdata=0"))
    for d in DOCS:
        for b in BR[:4] if tier == "quick" else BR:
            for pol in ("cdata=1", tc.RAW_POL):
                inputs.append(tc.case([d.replace("{b}", b)], pol=pol))
    soup = tc.random_soup(rng, 150 if tier == "quick" else 8000)
    inputs += soup
    for text, st in tc.bulk_inputs(tier):
        line = tc.case([text], state=st, last=tc.hx("s") if st != "-" else "~", pol=tc.RAW_POL if st == "-" else "cdata=0")
        cases.append((line, "bulk"))
        cases.append((tc.with_opts(line, exact=1), "bulk"))
        cases.append((tc.with_chunks(line, tc.random_partition(rng, text)), "bulk"))
    for line in inputs:
        f = tc.fields(line)
        s = f["chunks"][0]
        cases.append((line, "whole"))
        if s:
            cases.append((tc.with_chunks(line, tc.singletons(s)), "single"))
            cases.append((tc.with_chunks(line, tc.random_partition(rng, s)), "chunked"))
    # CR · run · LF around a chunk boundary in every bulk-read state (the fast path must not keep a stale pending-LF flag)
    for line in tc.crlf_run_cover():
        s = tc.fields(line)["chunks"][0]
        for part in tc.partitions2(s)[1:-1]:
            cases.append((tc.with_chunks(line, part), "chunked"))
    # forwarding through the tree builder: at every sink call the line the sink was last told (set_current_line) must be
    # the line of the token being processed (`tb txt … ln=1`: real tokenizer + tree builder + monitoring sink)
    for d in DOCS + TREE_LINE_DOCS:
        for b in BR[:4] if tier == "quick" else BR:
            text = d.replace("{b}", b)
            for chunks in ([text], tc.singletons(text)):
                cases.append((tb.case_txt(chunks, tb.opts(s=1) + ",ln=1"), "tree-lines"))
                cases.append((tb.case_txt(chunks, tb.opts(s=0, tx=1) + ",ln=1"), "tree-lines"))
    # prefix oracle on a subset (quadratic): short inputs
    pre_inputs = [l for l in inputs if len(tc.fields(l)["chunks"][0]) <= (14 if tier == "quick" else 40)]
    if tier == "quick":
        pre_inputs = pre_inputs[::3]
    for line in pre_inputs:
        s = tc.fields(line)["chunks"][0]
        for i in range(0, len(s) + 1):
            cases.append((tc.with_opts(tc.with_chunks(line, tc.singletons(s[:i]) if i else [""]), end=0), "prefix"))
    return cases


TREE_LINE_DOCS = [
    "<div{b}=a><script>x{b}</script>{b}<p>", "<!-- a{b} b --!>{b}<p>x", "<!DOCTYPE html{b}?>{b}<html>", "<p{b}a=1{b}a=2>{b}x</p{b}>",
    "<table>{b}<tr{b}>x{b}<td>y", "<svg>{b}<![CDATA[a{b}b]]>{b}</svg>{b}z", "<a href='&amp{b}'>&#{b}x</a>", "</{b}>{b}<!{b}>x",
    "<title>{b}a{b}</title>{b}<textarea>{b}{b}b</textarea>", "<b>{b}<p>{b}</b>{b}x",
]


def compare(line, impl, model):
    if line.startswith("tb\t"):
        return True      # the monitoring option is a harness feature; the tree builder model is tied by C02/C06
    return impl == model


def oracle(line, out):
    if line.startswith("tb\t"):
        if out is None or "@L=" not in out:
            return "parser crashed or malformed output: %s" % (out or "")[:200]
        why = out.rsplit("@L=", 1)[1]
        if why != "-":
            return "the sink was not told the line of the token being processed (set_current_line): %s" % why
        return None
    p = tc.parse_out(out)
    if p is None:
        return "implementation crashed or malformed output: %s" % (out or "")[:200]
    f = tc.fields(line)
    if "end=0" in f["opts"]:
        return None
    toks, _ = p
    s = "".join(f["chunks"])
    if f["inj"] != "-":
        return None
    eof = [l for k, b, l in toks if k == "EOF"]
    bom = "bom=1" in f["opts"]
    if len(eof) != 1:
        return "expected exactly one EOF"
    want = 1 + breaks(s)
    if eof[0] != want:
        return "EOF reported on line %d, input has %d line breaks (expected line %d)" % (eof[0], breaks(s), want)
    # lines never decrease along the stream
    ls = [l for k, b, l in toks]
    if any(b < a for a, b in zip(ls, ls[1:])):
        return "line numbers decrease along the token stream: %s" % ls
    return None


def _base_key(line):
    f = tc.fields(line)
    return (f["state"], f["last"], f["pol"])


def oracle_all(cases, outs):
    res = []
    # group prefix runs of the same input: key by (state,last,pol) and the full string they are prefixes of
    groups = {}
    for (line, tag), out in zip(cases, outs):
        if tag == "prefix":
            f = tc.fields(line)
            groups.setdefault(_base_key(line), []).append(("".join(f["chunks"]), line, out))
    for key, items in groups.items():
        by_pref = {}
        for s, line, out in items:
            by_pref[s] = (line, out)
        for s, (line, out) in by_pref.items():
            if not s:
                continue
            prev = by_pref.get(s[:-1])
            if prev is None:
                continue
            pa, pb = tc.parse_out(prev[1]), tc.parse_out(out)
            if pa is None or pb is None:
                continue
            ta, tb = pa[0], pb[0]
            # tokens that are new or changed in tb relative to ta
            k = 0
            while k < len(ta) and k < len(tb) and ta[k] == tb[k]:
                k += 1
            lo, hi = 1 + breaks(s[:-1]), 1 + breaks(s)
            for kind, body, l in tb[k:]:
                if not (lo <= l <= hi):
                    res.append((line, "token %s:%s emitted while reading character %d (%r) carries line %d, expected "
                                "between %d and %d" % (kind, body[:40], len(s) - 1, s[-1], l, lo, hi), out))
                    break
    return res


def nontrivial(line, out):
    if line.startswith("tb\t"):
        return out is not None and ("a " in line or "d " in line)
    s = "".join(tc.fields(line)["chunks"])
    return out is not None and ("\n" in s or "\r" in s)
