"""C02 — HTML tree construction equals the WHATWG tree-construction algorithm.

Pieces (see lean/H5V/Props/C02.lean for the theorems):
  * translator: tools/extract.py regenerates lean/H5V/Gen/TreeTables.lean from tag_sets.rs / data.rs / mod.rs /
    rules.rs; theorems `Gen = Spec` (frozen WHATWG tables, lean/H5V/Spec/TreeTables.lean) and `Model = Gen`;
    this module additionally diffs the two tables in Python to *name* a differing row and to build inputs that
    exercise it (run on the real code and on the reference -> concrete replay);
  * per-mechanism spec-equivalence theorems (lean/H5V/Spec/TreeAlgo.lean);
  * model/code correspondence on the `tb` engine (token level + text level);
  * differential of the real code against the patched html5lib reference (tools/ref/h5l.py) on documents and
    HTML-context fragments, scripting off/on;
  * option relations on the real code (iframe_srcdoc, drop_doctype, exact_errors, initial quirks mode);
  * a direct oracle on every dump: element / attribute prefixes are the ones of the standard's
    "adjust foreign attributes" table.
"""
import json
import os
import re
import sys
from concurrent.futures import ProcessPoolExecutor

from props import tbcommon as tb

ROOT = os.path.dirname(os.path.dirname(os.path.dirname(os.path.abspath(__file__))))
sys.path.insert(0, os.path.join(ROOT, "tools"))
from ref import h5l  # noqa: E402

PROP = "C02"
ENGINE = "tb"
USES_TRANSLATOR = True
LEAN_TARGETS = ["H5V.Props.C02", "H5V.Props.C02Algo", "H5V.Props.C02Modes", "H5V.Props.C02Parse", "H5V.Props.C02ParseTotal"]
LEANCHECKER = True
AUDIT_IMPORTS = ["H5V.Props.C02", "H5V.Props.C02Algo", "H5V.Props.C02Modes", "H5V.Props.C02Parse", "H5V.Props.C02ParseTotal"]
_TABLE_THEOREMS = [
    "C02_table_special", "C02_table_default_scope", "C02_table_list_item_scope", "C02_table_button_scope",
    "C02_table_table_scope", "C02_table_table_context", "C02_table_table_text_nodes", "C02_table_table_body_context",
    "C02_table_table_row_context",
    "C02_table_implied_end", "C02_table_implied_end_thorough", "C02_table_implied_except_p", "C02_table_heading",
    "C02_table_foster_target", "C02_table_mathml_text_ip", "C02_table_svg_html_ip", "C02_table_extra_special",
    "C02_table_formatting", "C02_table_body_end_ok_partial", "C02_table_quirks_public_prefixes",
    "C02_table_quirks_public_ids", "C02_table_quirks_system_ids", "C02_table_limited_quirks_prefixes",
    "C02_table_html401_prefixes", "C02_table_svg_tag_names", "C02_table_svg_attr_names", "C02_table_mathml_attr_names",
    "C02_table_foreign_attrs", "C02_table_foreign_breakout", "C02_table_limits", "C02_table_fragment_states",
    "C02_model_special", "C02_model_default_scope", "C02_model_list_item_scope", "C02_model_button_scope",
    "C02_model_html_sets", "C02_model_thorough_implied_end", "C02_model_integration_points", "C02_model_minus_sets",
    "C02_model_tables"]
SPEC_THEOREM_NAMES = [
    "C02_spec_quirks_mode", "C02_spec_in_scope", "C02_spec_implied_end_tags", "C02_spec_reset_insertion_mode",
    "C02_spec_dispatcher", "C02_spec_adjust_attributes", "C02_spec_svg_tag_name_and_breakout",
    "C02_spec_adoption_outer_loop"]
# the remaining sub-algorithms against literal transcriptions of the standard (Spec/TreeAlgo2.lean, Props/C02Algo.lean):
# total-correctness triples incl. the exact list of TreeSink calls (the DOM edit log)
ALGO_THEOREM_NAMES = [
    "C02_abs_of_names", "C02_spec_appropriate_place", "C02_spec_appropriate_place_defined", "C02_spec_foster_resolution",
    "C02_spec_insert_element", "C02_spec_insert_foreign_element", "C02_spec_insert_character", "C02_spec_insert_comment",
    "C02_spec_insert_comment_in", "C02_spec_reconstruct", "C02_spec_reconstruct_rewind", "C02_spec_reconstruct_suffix",
    "C02_spec_noah_push", "C02_spec_noah_list", "C02_spec_clear_to_last_marker", "C02_spec_adoption_inner_loop",
    "C02_spec_adoption_round", "C02_spec_adoption_agency", "C02_spec_adoption_bookmark", "C02_spec_any_other_end_tag",
    "C02_spec_implied_end_tags_tot", "C02_spec_clear_stack_back", "C02_spec_pop_until", "C02_spec_close_p",
    "C02_spec_close_cell", "C02_spec_in_scope_tot", "C02_spec_stop_parsing_pop_all",
    "Ex.C02_witness_foster_previous_template_spec", "Ex.C02_witness_foster_previous_template"]
# THE INSERTION MODES (Props/C02Modes.lean): the model of html5ever's tree builder = the independent transcription of
# 13.2.6.4 / 13.2.6.5 (Spec/TreeModes*.lean), every mode, foreign content, dispatcher, whole documents and fragments
MODES_THEOREM_NAMES = [
    "C02_all_modes", "C02_all_modes_chars", "C02_mode_initial", "C02_mode_before_html", "C02_mode_before_head",
    "C02_mode_in_head", "C02_mode_in_head_noscript", "C02_mode_after_head", "C02_mode_in_body", "C02_mode_text",
    "C02_mode_in_table", "C02_mode_in_table_text", "C02_mode_in_caption", "C02_mode_in_column_group",
    "C02_mode_in_table_body", "C02_mode_in_row", "C02_mode_in_cell", "C02_mode_in_template", "C02_mode_after_body",
    "C02_mode_in_frameset", "C02_mode_after_frameset", "C02_mode_after_after_body", "C02_mode_after_after_frameset",
    "C02_foreign", "C02_foreign_chars", "C02_doctype_initial", "C02_rules_in_body", "C02_rules_in_head", "C02_dispatcher",
    "DocAgrees.std", "DocAgrees.unique", "C02_model_eq_spec_modes_completed", "C02_model_eq_spec_modes",
    "C02_model_eq_spec_modes_fragment_completed", "C02_model_eq_spec_modes_fragment", "DocAgrees.strict",
    "C02_model_eq_spec_modes_strict", "C02_model_eq_spec_modes_fragment_strict", "C02_cell_assert_never_fails", "respects2_of_B",
    "respects2_frag_of_B"]
# THE CAPSTONE (Props/C02Parse.lean): the joint model of the whole parser (tokenizer model with the tree-builder model as
# its sink) = the WHATWG pipeline of the two independent specifications coupled by the standard's feedback (Spec/Parse.lean)
PARSE_THEOREM_NAMES = [
    "modelStream_total", "C02_parse_eq_spec", "C02_parse_eq_spec_regrouped", "C02_parse_eq_spec_protocol",
    "C02_parse_eq_spec_facts", "C02_parse_eq_spec_chunked", "C02_parse_eq_spec_facts_chunked", "tokStreamOk_of_B",
    "tokStreamOkX_of_B", "ExParse.doc_agrees", "ExParse.doc2_agrees", "ExParse.doc3_agrees", "ExParse.empty_chars_token",
    # Props/C02ParseTotal.lean: the EmptyOk hypothesis proved (joint invariant: tokenizer in a CDATA state => ignore_lf clear)
    "C02_parse_eq_spec_total", "C02_parse_eq_spec_total_chunked", "ExParse.doc3_total"]
THEOREMS = ["H5V.Props.C02." + t for t in _TABLE_THEOREMS + SPEC_THEOREM_NAMES + ALGO_THEOREM_NAMES + MODES_THEOREM_NAMES
            + PARSE_THEOREM_NAMES]

TRUSTED = [
    "Lean 4 kernel; axioms ⊆ {propext, Classical.choice, Quot.sound} (audited per run)",
    "tools/extract.py (regex / bracket matching over literal data, shape-checked: ShapeError when the source no longer "
    "has the expected shape) regenerates lean/H5V/Gen/TreeTables.lean from /repo on every run",
    "lean/H5V/Spec/TreeTables.lean + Spec/TreeAlgo.lean: my transcription of WHATWG HTML §13.2.4–13.2.6 (tables and "
    "sub-algorithms), written independently of /repo",
    "hand-written model lean/H5V/Model/HtmlTB/*.lean, tied to the code by the `tb` correspondence (every TreeSink call "
    "at token level, every tree mutation at text level, final DOM, quirks mode) on the cases of this run and by the "
    "`Model = Gen` table theorems",
    "tools/third_party/html5lib (html5lib 1.1 patched to the current standard, tools/third_party/PATCHES.md) as the "
    "reference implementation of the per-insertion-mode rules; tools/ref/h5l.py renders both trees",
]
ASSUMPTIONS = [
    "no script touches the tree (the property's own hypothesis); document.write / script execution are not modelled",
    "vocabulary on which the reference is not authoritative (template, select/option/optgroup/selectedcontent/keygen, "
    "rb/rtc/rp/rt, menuitem/isindex/command, </p> and </br> in foreign content, frameset/colgroup with mixed text runs, "
    "noscript fragment context, non-HTML fragment context elements) is covered by the model/code correspondence, the "
    "table theorems and the spec-equivalence theorems only — not by the reference differential (counts in the evidence)",
    "the reference differential compares node kinds/order, names, namespaces, attributes (name, namespace, value), "
    "text, comments, doctype, quirks mode; prefixes are checked by the direct prefix oracle; the duplicate-attribute "
    "flag by the correspondence only",
]
RULE = ("cases: (1) corpus (F28–F36 witnesses); (2) reference differential: texts = tbcommon's directed token families "
        "rendered as text (single-step prefixes × probes, pair cover, foreign tables, doctype ids, adoption / Noah / "
        "foster), dispatcher cover (adjusted current node × token kind), themed tag soup (2–7 tag names per theme, attribute shapes, text pieces, doctypes with the quirks "
        "identifiers in mixed case / truncated / extended), C06's skeleton texts; each as a document and under HTML "
        "context elements, scripting 0/1; (3) option relations: srcdoc, dropdt, exact, initial quirks; (4) "
        "correspondence: tbcommon's single-step cover, pair cover, foreign tables, doctype cover, fragment cover, "
        "adoption / Noah / foster, random token runs and documents (all vocabulary). non-trivial = the tree has more "
        "nodes than the skeleton (document: > 4, fragment: > 2); distinct = distinct (case, output)")
EXPLANATION = ("tables and sub-algorithms are proved equal to the standard for all inputs; the per-mode rules are compared "
               "with the reference implementation on the generated inputs; the model the theorems speak about is tied "
               "to the code by the correspondence")

HTML = tb.NS_HTML
compare = tb.compare

# ----------------------------------------------------------------------------- tables: spec (Lean) vs gen (json)

SPEC_LEAN = os.path.join(ROOT, "lean", "H5V", "Spec", "TreeTables.lean")
GEN_JSON = os.path.join(ROOT, ".work", "gen", "treetables.json")


def load_spec_tables():
    """parse lean/H5V/Spec/TreeTables.lean (layout `def name : type := [ … ]` / `def name : Nat := n`)"""
    src = open(SPEC_LEAN, encoding="utf-8").read()
    src = re.sub(r"/-.*?-/", "", src, flags=re.S)
    out = {}
    for m in re.finditer(r"def (\w+) : Nat := (\d+)", src):
        out[m.group(1)] = int(m.group(2))
    for m in re.finditer(r"def (\w+) : List [^\n]*? := \[(.*?)\]\s*(?=\n\s*\n|\n*def |\n*end )", src, flags=re.S):
        body = m.group(2)
        body = re.sub(r'some ("[^"]*")', r"\1", body).replace("none", "None")
        out[m.group(1)] = [tuple(x) if isinstance(x, tuple) else x for x in eval("[" + body + "]", {"__builtins__": {}}, {"None": None})]
    return out


def table_pairs(S, G):
    """[(table name, gen rows, spec rows)] — the same comparisons as the `C02_table_*` theorems"""
    h = lambda l: [("html", x) for x in l]
    low = lambda l: [x.lower() for x in l]
    t2 = lambda l: [tuple(x) for x in l]
    return [
        ("special", t2(G["special_tag"]), S["special"]),
        ("default_scope", t2(G["default_scope"]), S["defaultScope"]),
        ("list_item_scope", t2(G["list_item_scope"]), S["defaultScope"] + S["listItemScopeExtra"]),
        ("button_scope", t2(G["button_scope"]), S["defaultScope"] + S["buttonScopeExtra"]),
        ("table_scope", t2(G["table_scope"]), S["tableScope"]),
        ("table_text_nodes", t2(G["mod_table_outer"]), h(S["tableTextCurrentNodes"])),
        ("table_body_context", t2(G["table_body_context"]), h(S["tableBodyContext"])),
        ("table_row_context", t2(G["table_row_context"]), h(S["tableRowContext"])),
        ("implied_end", t2(G["cursory_implied_end"]), h(S["impliedEnd"])),
        ("implied_end_thorough", t2(G["thorough_implied_end"]), h(S["impliedEnd"] + S["impliedEndThoroughExtra"])),
        ("implied_except_p", t2(G["mod_implied"]), h([x for x in S["impliedEnd"] if x != "p"])),
        ("heading", t2(G["heading_tag"]), h(S["heading"])),
        ("foster_target", t2(G["mod_foster_target"]), h(S["fosterTarget"])),
        ("mathml_text_integration_point", t2(G["mathml_text_integration_point"]), [("mathml", x) for x in S["mathmlTextIntegrationPoint"]]),
        ("svg_html_integration_point", t2(G["svg_html_integration_point"]), [("svg", x) for x in S["svgHtmlIntegrationPoint"]]),
        ("extra_special", t2(G["rules_extra_special"]), [p for p in S["special"] if p not in h(["address", "div", "p"])]),
        ("formatting_start", G["formatting_start"], S["formatting"]),
        ("formatting_end", G["formatting_end"], S["formatting"]),
        ("quirks_public_prefixes", G["QUIRKY_PUBLIC_PREFIXES"], low(S["quirksPublicPrefixes"])),
        ("quirks_public_ids", G["QUIRKY_PUBLIC_MATCHES"], low(S["quirksPublicIds"])),
        ("quirks_system_ids", G["QUIRKY_SYSTEM_MATCHES"], low(S["quirksSystemIds"])),
        ("limited_quirks_prefixes", G["LIMITED_QUIRKY_PUBLIC_PREFIXES"], low(S["limitedQuirksPublicPrefixes"])),
        ("html401_prefixes", G["HTML4_PUBLIC_PREFIXES"], low(S["html401PublicPrefixes"])),
        ("svg_tag_names", t2(G["svg_tag_names"]), S["svgTagNames"]),
        ("svg_attr_names", t2(G["svg_attr_names"]), S["svgAttrNames"]),
        ("mathml_attr_names", t2(G["mathml_attr_names"]), S["mathmlAttrNames"]),
        ("foreign_attrs", t2(G["foreign_attrs"]), S["foreignAttrs"]),
        ("foreign_breakout_start", G["foreign_breakout_start"], S["foreignBreakoutStart"]),
        ("foreign_breakout_end", G["foreign_breakout_end"], S["foreignBreakoutEnd"]),
        ("font_breakout_attrs", G["font_breakout_attrs"], S["fontBreakoutAttrs"]),
        ("limits", sorted(G["limits"].items()),
         sorted({"adoption_outer": S["adoptionOuterLimit"], "adoption_inner": S["adoptionInnerLimit"], "noah": S["noahLimit"]}.items())),
        ("fragment_rcdata", G["fragment_state"]["rcdata"], S["fragmentRcdata"]),
        ("fragment_rawtext", G["fragment_state"]["rawtext"], S["fragmentRawtext"]),
        ("fragment_scriptdata", G["fragment_state"]["scriptdata"], S["fragmentScriptData"]),
        ("fragment_noscript", G["fragment_state"]["noscript"], S["fragmentNoscript"]),
        ("fragment_plaintext", G["fragment_state"]["plaintext"], S["fragmentPlaintext"]),
    ]


def table_diffs():
    """[(table, row, 'only in the source' | 'only in the standard')]; [] when the translator did not run"""
    if not os.path.exists(GEN_JSON):
        return []
    S = load_spec_tables()
    G = json.load(open(GEN_JSON))
    out = []
    for name, g, s in table_pairs(S, G):
        for r in g:
            if r not in s:
                out.append((name, r, "only in the source"))
        for r in s:
            if r not in g:
                out.append((name, r, "only in the standard"))
        if len(set(map(repr, g))) != len(g):
            out.append((name, "duplicate row", "only in the source"))
    return out


def _rowname(row):
    if isinstance(row, (tuple, list)):
        return row[1] if row[0] in ("html", "mathml", "svg") and len(row) == 2 else row[0]
    return row


def texts_for_diff(table, row):
    """inputs that exercise one table row"""
    n = _rowname(row)
    if not isinstance(n, str):
        n = str(n)
    T = []
    if table in ("special", "default_scope", "list_item_scope", "button_scope", "table_scope", "table_body_context",
                 "table_row_context", "implied_end", "implied_end_thorough", "implied_except_p", "heading", "foster_target",
                 "mathml_text_integration_point", "svg_html_integration_point", "extra_special"):
        ns = row[0] if isinstance(row, (tuple, list)) else "html"
        wrap = {"html": "", "mathml": "<math>", "svg": "<svg>"}.get(ns, "")
        for pre in ("<b><span>", "<a><p>", "<table><td><i>", "<ul><li>", "<dl><dd>", "<button>", "<table><tbody><tr>", "<h1>"):
            for p in _PAIR_TEXT:
                T.append(pre + wrap + "<" + n + ">" + p + "y")
        T += ["<p><%s%s>x</p>y" % (wrap[1:-1] + "><" if wrap else "", n), "<table><%s>x<tr><td>y" % n, "<table><tr><%s>x<td>y" % n]
    elif table == "table_text_nodes":
        for pre in ("<table>", "<table><tbody>", "<table><tr>", "<template><tr></tr>", "<template><tbody></tbody>"):
            for t in (" ", "x", " y "):
                T += [pre + "<%s>" % n + "</%s>" % n + t + "<b>z", pre + t + "<%s>" % n + t]
        T += ["<template><tr><b></tr> ", "<template><tr></tr> x"]
    elif table in ("formatting_start", "formatting_end"):
        T += ["<%s>a<p>b</%s>c" % (n, n), "<%s><%s><%s><%s>x<p>y" % (n, n, n, n), "<p><%s>a<div>b</%s>c</div>d" % (n, n),
              "<%s>a<table>b</%s>c</table>d" % (n, n), "<%s>x</p>y" % n]
    elif table.startswith("quirks_") or table in ("limited_quirks_prefixes", "html401_prefixes"):
        for pid in (n, n.upper(), n + "EN", n + "x"):
            if "system" in table:
                T += ['<!DOCTYPE html SYSTEM "%s"><p><table>' % pid, '<!DOCTYPE html PUBLIC "x" "%s"><p><table>' % pid]
            else:
                T += ['<!DOCTYPE html PUBLIC "%s"><p><table>' % pid, '<!DOCTYPE html PUBLIC "%s" "y"><p><table>' % pid,
                      '<!DOCTYPE html PUBLIC "%s" ""><p><table>' % pid]
    elif table == "svg_tag_names":
        for k in row[:2]:
            T += ["<svg><%s>x</%s>y" % (k, k), "<svg><%s/><g>" % k.upper(), "<math><%s>x" % k, "<svg><desc><%s>x" % k]
    elif table in ("svg_attr_names", "mathml_attr_names", "foreign_attrs"):
        for k in {row[0], str(row[-1] if table != "foreign_attrs" else row[0])}:
            T += ["<svg %s=v><g %s=w>" % (k, k), "<math %s=v><mi %s=w>" % (k, k), "<svg><foreignObject><p %s=u>" % k, "<div %s=v>" % k]
    elif table in ("foreign_breakout_start", "foreign_breakout_end", "font_breakout_attrs"):
        if table == "font_breakout_attrs":
            T += ["<svg><font %s=1>x" % n, "<math><mi><font %s>y" % n, "<svg><font>z"]
        else:
            sl = "/" if table.endswith("end") else ""
            T += ["<svg><%s%s>x" % (sl, n), "<math><%s%s>x" % (sl, n), "<svg><g><%s%s>x</svg>y" % (sl, n), "<p><svg><%s%s>x" % (sl, n),
                  "<math><annotation-xml><%s%s>x" % (sl, n)]
    elif table == "limits":
        for k in range(1, 12):
            T.append("<a>" + "".join("<b n=%d>" % i for i in range(k)) + "<div><i><i>x</a>y")
            T.append("<b>" + "".join("<div n=%d>" % i for i in range(k)) + "x</b>y<i>z")
            T.append("<b>" * k + "<p>x</p>" + "<b>" * k + "y<p>z")
            T.append("<p>" + "<font size=1>" * k + "x</p><font size=1>y<p>z")
    return T


# ----------------------------------------------------------------------------- rendering token cases as text

def _esc(s):
    return s.replace("&", "&amp;").replace("<", "&lt;")


def render_tokens(payload):
    """`tok` payload -> the text a page author would have written for these tokens (best effort)"""
    if payload == "-":
        return ""
    out = []
    for t in payload.split(";"):
        t = t.split("@")[0]
        f = t.split(",")
        k = f[0]
        if k in ("S", "E"):
            name = tb.unhx(f[1])
            attrs = "".join(' %s="%s"' % (tb.unhx(f[i]), tb.unhx(f[i + 1]).replace('"', "&quot;")) for i in range(4, len(f) - 1, 2))
            out.append("<%s%s%s%s>" % ("/" if k == "E" else "", name, attrs, "/" if f[2] == "1" else ""))
        elif k == "T":
            out.append(_esc(tb.unhx(f[1])))
        elif k == "N":
            out.append("\0")
        elif k == "C":
            out.append("<!--%s-->" % tb.unhx(f[1]))
        elif k == "D":
            name = "" if f[1] == "~" else tb.unhx(f[1])
            pub = None if f[2] == "~" else tb.unhx(f[2])
            sysid = None if f[3] == "~" else tb.unhx(f[3])
            if pub is not None and sysid is not None:
                out.append('<!DOCTYPE %s PUBLIC "%s" "%s">' % (name, pub, sysid))
            elif pub is not None:
                out.append('<!DOCTYPE %s PUBLIC "%s">' % (name, pub))
            elif sysid is not None:
                out.append('<!DOCTYPE %s SYSTEM "%s">' % (name, sysid))
            else:
                out.append("<!DOCTYPE %s%s>" % (name, " x" if f[4] == "1" else ""))
    return "".join(out)


_PAIR_TEXT = [render_tokens(p) for p in tb.PAIR_PROBES]


def rendered_family(cases):
    """(text, ctx-or-None) for every token-level case with a document or plain HTML context"""
    out = []
    for line, _ in cases:
        f = line.split("\t")
        if f[1] != "tok":
            if f[3] == "-":
                out.append(("".join(tb.txt_chunks(line)), None))
            continue
        c = parse_ctx(f[3])
        if c is False:
            continue
        out.append((render_tokens(f[4]), c))
    return out


def parse_ctx(field):
    """`-` -> None; plain HTML-namespace context without attributes / form -> (ns, local); anything else -> False"""
    if field == "-":
        return None
    q, a, form = field.split(",")
    pre, ns, loc = q.split("/")
    if a != "-" or form != "0" or pre != "~":
        return False
    ns = tb.unhx(ns)
    if ns != HTML:
        return False
    return (ns, tb.unhx(loc))


# ----------------------------------------------------------------------------- themed tag soup

SOUP_TAGS = ["a", "b", "i", "p", "div", "span", "table", "tr", "td", "th", "tbody", "caption", "colgroup", "col", "ul", "li", "dl", "dd",
             "dt", "h1", "h2", "form", "input", "button", "textarea", "title", "style", "script", "noscript", "head", "body", "html",
             "frameset", "frame", "noframes", "svg", "math", "mi", "mo", "mtext", "annotation-xml", "foreignObject", "desc", "g", "path",
             "br", "hr", "img", "pre", "listing", "plaintext", "xmp", "iframe", "nobr", "font", "marquee", "object", "applet", "address",
             "center", "blockquote", "ol", "em", "strong", "tt", "u", "s", "small", "big", "code", "strike", "base", "link", "meta",
             "bgsound", "area", "embed", "wbr", "param", "image", "label", "fieldset", "section", "article", "aside", "header", "footer",
             "nav", "ruby", "tfoot", "thead", "malignmark", "mglyph", "sup", "sub", "var", "dialog", "main", "details", "summary", "menu",
             "figure", "hgroup", "noembed", "source", "track", "picture", "slot", "search", "dir", "basefont", "figcaption", "mn", "ms",
             "foreignobject", "altglyph", "fedropshadow", "textpath", "output", "datalist", "x-y"]
SOUP_ATTRS = ["", "", "", " id=x", " class='a b'", " type=hidden", " type=text", " encoding=text/html", " encoding=application/xhtml+xml",
              " color=red", " face=f size=2", " xlink:href=y", " xml:lang=en", " xmlns=z", " xmlns:xlink=w", " definitionurl=q", " a=1 a=2",
              " selected", " /", " viewbox=0 attributename=n", " xlink:foo=y xml:base=b", " ENCODING=TEXT/HTML", " charset=utf-8"]
SOUP_TEXTS = ["x", " ", "\n", "a b", "&amp;", "\0", "<!--c-->", "<!-- -->", "<![CDATA[q]]>", "<!DOCTYPE html>", "</", "<", "\r\n", "é", "\x0c",
              " y", "z ", "\t", "&#10;", "&lt;p>"]
SOUP_CTXS = ["div", "body", "html", "head", "table", "tbody", "tr", "td", "th", "caption", "colgroup", "title", "textarea", "style", "script",
             "xmp", "iframe", "noembed", "noframes", "plaintext", "frameset", "p", "a", "form", "button", "li", "pre", "h1", "object",
             "marquee", "span", "thead", "tfoot", "nobr", "dd", "ul"]
DT_PUBS = ["", "-//W3C//DTD HTML 4.01//EN", "-//W3C//DTD HTML 4.01 Transitional//EN", "-//W3C//DTD HTML 4.01 Frameset//EN",
           "-//W3C//DTD XHTML 1.0 Transitional//EN", "-//W3C//DTD XHTML 1.0 Frameset//EN", "-//W3C//DTD XHTML 1.0 Strict//EN",
           "-//W3O//DTD W3 HTML Strict 3.0//EN//", "-/W3C/DTD HTML 4.0 Transitional/EN", "HTML", "x"]
DT_SYSS = [None, "", "http://www.w3.org/TR/html4/strict.dtd", "http://www.ibm.com/data/dtd/v11/ibmxhtml1-transitional.dtd", "about:legacy-compat", "y"]
DT_NAMES = ["html", "HTML", "htm", "", "svg"]


def soup(rng, n):
    out = []
    theme = [rng.choice(SOUP_TAGS) for _ in range(rng.randint(2, 7))]
    for _ in range(n):
        r = rng.random()
        if r < 0.45:
            out.append("<%s%s>" % (rng.choice(theme), rng.choice(SOUP_ATTRS)))
        elif r < 0.75:
            out.append("</%s>" % rng.choice(theme))
        else:
            out.append(rng.choice(SOUP_TEXTS))
    return "".join(out)


def soup_doctype(rng, spec_prefixes):
    pub = rng.choice(DT_PUBS + spec_prefixes) if rng.random() < 0.8 else rng.choice(spec_prefixes) + "EN"
    r = rng.random()
    if r < 0.3:
        pub = "".join(c.upper() if rng.random() < 0.5 else c.lower() for c in pub)
    if rng.random() < 0.15:
        pub = pub + "x"
    if rng.random() < 0.15:
        pub = pub[:-1]
    sysid = rng.choice(DT_SYSS)
    if sysid and rng.random() < 0.2:
        sysid = sysid.upper()
    name = rng.choice(DT_NAMES) if rng.random() < 0.3 else "html"
    r = rng.random()
    if r < 0.08:
        return "<!DOCTYPE %s>" % name
    if r < 0.18:
        return "<!DOCTYPE %s SYSTEM \"%s\">" % (name, sysid or "")
    if r < 0.22:
        return "<!DOCTYPE %s PUBLIC \"%s\" x>" % (name, pub)       # force-quirks through a tokenizer error
    if sysid is None:
        return "<!DOCTYPE %s PUBLIC \"%s\">" % (name, pub)
    return "<!DOCTYPE %s PUBLIC \"%s\" \"%s\">" % (name, pub, sysid)


# ----------------------------------------------------------------------------- reference (cached, computed in parallel)

REF = {}          # (text, ctx, scripting) -> (lines, quirks) | ("ERR", message)
EXCLUDED = {}     # (text, ctx) -> [reasons]
STATS = {"ref_compared": 0, "ref_excluded": 0, "ref_failed": 0, "relation_pairs": 0, "prefix_checked": 0}
RELATIONS = []    # (kind, variant line, base line, text)
TABLEDIFF = {}    # case line -> "table row" description
DIFFS = []


def _ref_one(key):
    text, ctx, s = key
    try:
        return h5l.ref_lines(text, ctx, bool(s))
    except Exception as e:  # html5lib raised: the reference has no answer
        return ("ERR", repr(e)[:200])


def _excluded(text, ctx):
    k = (text, ctx)
    if k not in EXCLUDED:
        r = list(h5l.excluded(text, ctx))
        if text.startswith("\ufeff"):
            r.append("byte order mark (input-stream preprocessing, not tree construction)")
        EXCLUDED[k] = r
    return EXCLUDED[k]


def precompute_refs(keys):
    keys = [k for k in dict.fromkeys(keys) if k not in REF]
    if not keys:
        return
    workers = min(os.cpu_count() or 4, 16)
    if len(keys) < 200:
        for k in keys:
            REF[k] = _ref_one(k)
        return
    with ProcessPoolExecutor(max_workers=workers) as ex:
        for k, r in zip(keys, ex.map(_ref_one, keys, chunksize=max(50, len(keys) // (workers * 8)))):
            REF[k] = r


# ----------------------------------------------------------------------------- case lines

def opts_of(field):
    o = {"s": "1", "srcdoc": "0", "q": "n", "exact": "0", "dropdt": "0", "tx": "0"}
    if field != "-":
        for kv in field.split(","):
            k, _, v = kv.partition("=")
            o[k] = v
    o.setdefault("cs", o["s"])
    return o


def ctx_field(c):
    return "-" if c is None else tb.ctx(c[1], c[0])


def ref_case(text, c, s):
    return tb.case_txt([text], "s=%d,cs=%d" % (s, s) if c is not None else "s=%d" % s, ctx_field(c))


def ref_key(line):
    """(text, ctx, scripting) when the case is one the reference can judge, else None"""
    f = line.split("\t")
    if f[1] != "txt":
        return None
    o = opts_of(f[2])
    if o["srcdoc"] != "0" or o["q"] != "n" or o["dropdt"] != "0" or o["cs"] != o["s"]:
        return None
    c = parse_ctx(f[3])
    if c is False:
        return None
    text = "".join(tb.txt_chunks(line))
    return (text, c, int(o["s"]))


# ----------------------------------------------------------------------------- oracles

_ATTR_PREFIX = None


def _expected_prefixes():
    global _ATTR_PREFIX
    if _ATTR_PREFIX is None:
        S = load_spec_tables()
        kw = {"xlink": "$l", "xml": "$x", "xmlns": "$n"}
        _ATTR_PREFIX = {(kw[ns], local): pfx for _, pfx, local, ns in S["foreignAttrs"]}
    return _ATTR_PREFIX


_EL = re.compile(r"\(el,([^,()]*),([^,()]*),")


def prefix_violation(dump, ctx_has_prefix=False):
    """every element created by the parser has no prefix; an attribute is either in no namespace without a prefix
    or one of the rows of "adjust foreign attributes" with exactly that row's prefix"""
    exp = _expected_prefixes()
    for m in _EL.finditer(dump):
        q, attrs = m.group(1), m.group(2)
        pre, ns, loc = q.split("/")
        if pre != "~":
            return "element %s has prefix %r (the parser never gives elements a prefix)" % (tb.unhx(loc), pre)
        if attrs == "-":
            continue
        for av in attrs.split("&"):
            aq = av.partition("=")[0]
            apre, ans, aloc = aq.split("/")
            if ans == "-":
                if apre != "~":
                    return "attribute %s in no namespace has prefix %r" % (tb.unhx(aloc), apre)
                continue
            want = exp.get((ans, tb.unhx(aloc)), "missing")
            if want == "missing":
                return "attribute {%s}%s is not a row of the 'adjust foreign attributes' table" % (ans, tb.unhx(aloc))
            got = None if apre == "~" else tb.unhx(apre)
            if got != want:
                return "attribute %s %s has prefix %r, the standard's table says %r" % (ans, tb.unhx(aloc), got, want)
    return None


def _first_diff(mine, ref):
    for i, (a, b) in enumerate(zip(mine + ["<end of tree>"], ref + ["<end of tree>"])):
        if a != b:
            return i, a, b
    return None


def ref_judgement(line, r):
    """None | message, for a case the reference can judge"""
    key = ref_key(line)
    if key is None:
        return None
    text, c, s = key
    if _excluded(text, c):
        STATS["ref_excluded"] += 1
        return None
    if key not in REF:
        REF[key] = _ref_one(key)
    ref = REF[key]
    if ref[0] == "ERR":
        STATS["ref_failed"] += 1
        return None
    STATS["ref_compared"] += 1
    mine, mq = h5l.dump_lines(r["D"], fragment=c is not None)
    lines, rq = ref
    if mine == lines and (mq == rq or c is not None):
        return None
    where = TABLEDIFF.get(line)
    head = ("table row %s differs from the frozen WHATWG table and " % where) if where else ""
    d = _first_diff(mine, lines)
    if d is None:
        what = "quirks mode %s, reference %s" % (mq, rq)
    else:
        what = "first difference at line %d: html5ever %r, reference %r" % (d[0] + 1, d[1], d[2])
    return ("%stree differs from the WHATWG reference for %r (%s, scripting=%d): %s\n--- html5ever (quirks: %s)\n%s\n--- reference (quirks: %s)\n%s"
            % (head, text, "document" if c is None else "fragment in <%s>" % c[1], s, what, mq, "\n".join(mine), rq, "\n".join(lines)))


def oracle(line, out):
    if out is None or out.startswith("ABORT"):
        return "implementation crashed or hung: %s" % out
    f = line.split("\t")
    if out.startswith("DRIVER-MISMATCH") or out == "bad-case":
        return "harness: %s" % out[:200]
    if out.startswith("PANIC"):
        # token sequences the tokenizer cannot produce may panic (rules.rs `unreachable`); a text never may
        return "the parser panicked on a text input: %s" % out[:200] if f[1] == "txt" else None
    r = tb.parse_out(out)
    if r is None:
        return "malformed output"
    STATS["prefix_checked"] += 1
    why = tb.form_pointer_oracle(line, out)
    if why:
        return why
    why = prefix_violation(r["D"])
    if why and f[3] == "-":
        return "prefix: " + why
    if f[1] == "txt":
        o = opts_of(f[2])
        q = r["D"].rpartition(";Q=")[2]
        if f[3] == "-" and o["srcdoc"] == "1" and o["q"] == "n" and q != "no":
            return "an iframe srcdoc document must stay in no-quirks mode whatever its doctype; reported quirks mode: %s" % q
    return ref_judgement(line, r)


def _strip_doctype(dump):
    return re.sub(r"\(dt,[^()]*\)", "", dump)


def oracle_all(cases, outs):
    """option relations on the real code"""
    res = {}
    for (line, _), o in zip(cases, outs):
        res[line] = o
    bad = []
    for kind, var, base, text in RELATIONS:
        ov, ob = res.get(var), res.get(base)
        rv, rb = tb.parse_out(ov), tb.parse_out(ob)
        if rv is None or rb is None:
            if (ov or "").startswith("PANIC") != (ob or "").startswith("PANIC"):
                bad.append((var, "%s changes whether the parser panics on %r" % (kind, text), ov))
            continue
        STATS["relation_pairs"] += 1
        dv, db = rv["D"], rb["D"]
        tv, _, qv = dv.rpartition(";Q=")
        tbase, _, qb = db.rpartition(";Q=")
        if kind == "dropdt":
            if qv != qb:
                bad.append((var, "drop_doctype changes the reported quirks mode for %r: %s, without the option %s" % (text, qv, qb), ov))
            elif tv != _strip_doctype(tbase):
                bad.append((var, "drop_doctype changes more than the doctype node for %r:\n--- drop_doctype\n%s\n--- default\n%s"
                            % (text, "\n".join(h5l.dump_lines(dv)[0]), "\n".join(h5l.dump_lines(db)[0])), ov))
        elif kind == "exact":
            if dv != db or rv["R"] != rb["R"]:
                bad.append((var, "exact_errors changes the tree or the quirks mode for %r" % text, ov))
        elif kind == "quirks-initial":
            if dv != db:
                bad.append((var, "the initial quirks mode option changes the result of a document parse (%r): the initial "
                                 "insertion mode always sets the mode" % text, ov))
        elif kind == "srcdoc":
            if qv != "no":
                continue    # reported by `oracle`
            if tv != tbase and (qb == "no" or "<table" not in text.lower()):
                bad.append((var, "iframe_srcdoc changes the tree for %r (only the quirks mode may change):\n--- srcdoc\n%s\n--- default\n%s"
                            % (text, "\n".join(h5l.dump_lines(dv)[0]), "\n".join(h5l.dump_lines(db)[0])), ov))
    return bad


def nontrivial(line, out):
    r = tb.parse_out(out)
    if r is None:
        return False
    return r["D"].count("(") > (4 if line.split("\t")[3] == "-" else 2)


# ----------------------------------------------------------------------------- cases

def _c06_texts():
    from props import C06
    return list(C06.SKELETON_TEXTS)


def dispatcher_texts():
    """the tree-construction dispatcher: every kind of adjusted current node × every kind of token"""
    acn = ["<math><mi>", "<math><mo>", "<math><mn>", "<math><ms>", "<math><mtext>", "<math><annotation-xml>",
           "<math><annotation-xml encoding=text/html>", "<math><annotation-xml encoding=application/xhtml+xml>",
           "<math><annotation-xml encoding=TEXT/HTML>", "<math><annotation-xml encoding=text/xml>", "<svg><foreignObject>",
           "<svg><desc>", "<svg><title>", "<svg><g>", "<math><mrow>", "<svg>", "<math>", "<p><math><mi><b>", "<table><tr><td><svg><desc>"]
    toks = ["<mglyph>", "<malignmark>", "<svg>", "<b>", "<p>", "<mi>", "<g>", "x", " ", "\0", "<!--c-->", "</mi>", "</p>", "<math>",
            "<table>", "<font color=red>", "<font>", "<mglyph/>", "</svg>", "<foreignobject>", "<title>", "<br>", "</br>", "<tr>", "&amp;"]
    out = []
    for a in acn:
        for t in toks:
            out.append(a + t + "y")
            out.append(a + t + "<i>z</math>w</svg>v")
    return out


def raw_in_table_texts():
    """elements whose in-body handling ends by switching the tokenizer (raw text / RCDATA / plaintext / script) or by an
    encoding indicator, placed where the table modes foster-parent them, followed by table structure"""
    inner = ["<textarea>t</textarea>", "<title>t</title>", "<xmp>t</xmp>", "<iframe>t</iframe>", "<noembed>t</noembed>",
             "<noframes>t</noframes>", "<style>t</style>", "<script>t</script>", "<meta charset=utf-8>",
             "<meta http-equiv=content-type content='text/html;charset=x'>", "<noscript>t</noscript>", "<plaintext>"]
    pre = ["<table>", "<table><tbody>", "<table><tr>", "<table><thead>", "<table><caption>c</caption>", "<table><colgroup>",
           "<table><tr><td></td>", "<b><table>", "<table><tbody><tr>"]
    post = ["<tr><td>x", "<caption>y", "<!--c-->", "<tbody><tr><td>z", "<col>", "w", " ", "</table>v", "<td>u", "<input type=hidden>"]
    return [a + i + b for a in pre for i in inner for b in post]


RELATION_TEXTS = [
    "<!DOCTYPE foo><p>a<table><tr><td>b</table>", "<!DOCTYPE html PUBLIC \"-//W3C//DTD XHTML 1.0 Transitional//EN\" \"x\"><p>a",
    "<!DOCTYPE html PUBLIC \"-//W3C//DTD HTML 4.01 Transitional//EN\"><p><table>", "<!DOCTYPE html><p><table>", "<p><table>x",
    "<!DOCTYPE html PUBLIC \"-//IETF//DTD HTML//EN\">x<p><table><td>y", "<!--c--><!DOCTYPE HTML PUBLIC \"html\"><p><table>",
    "<!DOCTYPE html SYSTEM \"http://www.ibm.com/data/dtd/v11/ibmxhtml1-transitional.dtd\"><p><table>", "<!DOCTYPE><p><table>",
    "<!DOCTYPE html PUBLIC \"-//W3C//DTD HTML 4.01 Frameset//EN\" \"s\"><p><table>", " <!DOCTYPE html x><p><table>",
    "<!DOCTYPE html><!DOCTYPE foo><p><table>", "<html><!DOCTYPE foo><p><table>", "\n<!-- --> <!DOCTYPE svg>\n<p>x<table>",
]


def gen_cases(tier, rng):
    quick = tier == "quick"
    REF.clear()
    RELATIONS.clear()
    TABLEDIFF.clear()
    for k in STATS:
        STATS[k] = 0
    cases = []
    S = load_spec_tables()
    # ---- (0) rows on which the regenerated tables differ from the frozen ones: directed inputs first
    del DIFFS[:]
    DIFFS.extend(table_diffs())
    for table, row, side in DIFFS[:40]:
        for t in texts_for_diff(table, row)[:400]:
            for s in (0, 1):
                l = ref_case(t, None, s)
                TABLEDIFF.setdefault(l, "%s / %r (%s)" % (table, row, side))
                cases.append((l, "tablediff"))
        if table.startswith("fragment_"):
            n = _rowname(row)
            for s in (0, 1):
                l = ref_case("a<b>&amp;</%s>c<i>" % n, (HTML, n), s)
                TABLEDIFF.setdefault(l, "%s / %r (%s)" % (table, row, side))
                cases.append((l, "tablediff"))
    # ---- (1) correspondence families (token level and text level, all vocabulary)
    step = tb.single_step_cover(tier, rng)
    pair = tb.pair_cover(tier)
    dtc = tb.doctype_cover()
    ftab = tb.foreign_tables_cover()
    frag = tb.fragment_cover(tier)
    adop = tb.adoption_family(tier, rng)
    noah = tb.noahs_ark_family(tier)
    fost = tb.foster_family(tier, rng)
    rdocs = tb.random_docs(rng, 1500 if quick else 60000)
    rtoks = tb.random_token_runs(rng, 1500 if quick else 60000)
    corr = step + pair + dtc + ftab + frag + adop + noah + fost + rdocs + rtoks
    # ---- (2) reference differential
    texts = []       # (text, ctx)
    directed = pair + dtc + ftab + adop + noah + fost + (step if not quick else step[::7])
    for t, c in rendered_family(directed):
        texts.append((t, c))
    rit = raw_in_table_texts()
    for t in _c06_texts() + RELATION_TEXTS + dispatcher_texts() + (rit if not quick else rit[::2]):
        texts.append((t, None))
    # foreign elements with HTML-significant local names above an integration point; CDATA edge cases
    fnt = tb.foreign_named_texts()
    for t, c in (fnt if not quick else fnt[::8]):
        texts.append((t, c))
    for t in tb.cdata_edge_texts():
        texts.append((t, None))
    # around the four defects repaired after the independent-spec proof (F38-F41): DOCTYPE inside table text, characters
    # under a template current node in table modes, end tags in foreign-context fragments, select-context fragments
    for t, c in tb.fix_families():
        texts.append((t, c))
    # size only: stacks / lists / loop counters past 2^8 entries
    for t, c in tb.deep_family(tier):
        texts.append((t, c))
    # fragment parsing of text-only contexts: their own end tag is ordinary text there
    for cx in ("title", "textarea", "style", "xmp", "iframe", "noembed", "noframes", "script", "noscript", "plaintext"):
        for t in ("a</%s><b>c" % cx, "</%s>" % cx, "x<!--</%s>-->y</%s >z" % (cx, cx), "<%s>q</%s>r" % (cx, cx)):
            texts.append((t, (HTML, cx)))
    # every tag-set name below the standard pair-cover prefixes, as text (documents)
    for t, c in rendered_family(frag if not quick else frag[::3]):
        texts.append((t, c))
    n_soup = 9000 if quick else 330000
    prefixes = S["quirksPublicPrefixes"]
    for i in range(n_soup):
        r = rng.random()
        if r < 0.55:
            s = soup(rng, rng.randint(2, 22))
            if rng.random() < 0.3:
                s = "<!DOCTYPE html>" + s
            texts.append((s, None))
        elif r < 0.8:
            texts.append((soup(rng, rng.randint(2, 18)), (HTML, rng.choice(SOUP_CTXS))))
        else:
            texts.append((soup_doctype(rng, prefixes) + soup(rng, rng.randint(0, 6)), None))
    # every quirks identifier of the *standard*, exact / extended / upper-cased / truncated
    for p in prefixes + S["quirksPublicIds"] + S["limitedQuirksPublicPrefixes"] + S["html401PublicPrefixes"]:
        for pid in (p, p.upper(), p.lower() + "x", p[:-1]):
            for tail in ('"', '" "y"', '" ""'):
                texts.append(('<!DOCTYPE html PUBLIC "%s%s><p><table>' % (pid, tail), None))
    for sid in S["quirksSystemIds"]:
        for x in (sid, sid.upper(), sid + "x", sid[:-1]):
            texts.append(('<!DOCTYPE html SYSTEM "%s"><p><table>' % x, None))
            texts.append(('<!DOCTYPE html PUBLIC "-//W3C//DTD HTML 4.01//EN" "%s"><p><table>' % x, None))
    texts = list(dict.fromkeys(texts))
    refcases = []
    keys = []
    for t, c in texts:
        for s in (0, 1):
            refcases.append((ref_case(t, c, s), "ref-doc" if c is None else "ref-frag"))
            if not _excluded(t, c):
                keys.append((t, c, s))
    precompute_refs(keys)
    # ---- (3) option relations
    rel = []
    rel_texts = RELATION_TEXTS + [t for t, c in texts[:: (40 if quick else 25)] if c is None][: (600 if quick else 12000)]
    for t in rel_texts:
        base = tb.case_txt([t], "s=1")
        rel.append((base, "rel-base"))
        for kind, o in (("srcdoc", "s=1,srcdoc=1"), ("dropdt", "s=1,dropdt=1"), ("exact", "s=1,exact=1"),
                        ("quirks-initial", "s=1,q=q"), ("quirks-initial", "s=1,q=l")):
            v = tb.case_txt([t], o)
            RELATIONS.append((kind, v, base, t))
            rel.append((v, "rel-" + kind))
    return cases + refcases + rel + corr


def neighbourhood(line):
    """around a correspondence disagreement: the same input as a text the reference can judge"""
    f = line.split("\t")
    out = []
    if f[1] == "tok":
        c = parse_ctx(f[3])
        if c is not False:
            t = render_tokens(f[4])
            out += [ref_case(t, c, 0), ref_case(t, c, 1)]
    else:
        c = parse_ctx(f[3])
        if c is not False:
            t = "".join(tb.txt_chunks(line))
            out += [ref_case(t, c, 0), ref_case(t, c, 1)]
    return out


def extra_evidence(check):
    fam = {}
    for (l, tag) in check.cases:
        fam[tag.split(":")[0]] = fam.get(tag.split(":")[0], 0) + 1
    return {
        "reference_compared_cases": STATS["ref_compared"],
        "reference_excluded_cases_correspondence_only": STATS["ref_excluded"],
        "reference_raised": STATS["ref_failed"],
        "correspondence_only_cases": sum(v for k, v in fam.items() if not k.startswith("ref-") and k != "tablediff"),
        "option_relation_pairs": STATS["relation_pairs"],
        "dumps_prefix_checked": STATS["prefix_checked"],
        "table_rows_differing_from_frozen_spec": ["%s / %r (%s)" % d for d in DIFFS][:50],
        "excluded_vocabulary": sorted(h5l.OUTDATED),
        "not_proved": "the per-insertion-mode rule arms as a whole (see lean/H5V/Props/C02.lean header)",
    }


# ----------------------------------------------------------------------------- naming the differing rows in proof failures

import vlib  # noqa: E402


class CheckClass(vlib.Check):
    def phase_proofs(self):
        super().phase_proofs()
        try:
            diffs = table_diffs()
        except Exception as e:  # the generated json may be absent after a translator failure
            diffs = []
            self.notes.append("table diff not available: %s" % e)
        if diffs:
            msg = "; ".join("%s: %r %s" % d for d in diffs[:12])
            hit = False
            for f in self.failures:
                if f.kind in ("proof", "table"):
                    f.detail = (f.detail or "") + " || rows differing from the frozen WHATWG tables (lean/H5V/Spec/TreeTables.lean): " + msg
                    hit = True
            if not hit:
                # the theorems still pass although the Python diff sees a difference: the two comparisons disagree
                self.failures.append(vlib.Failure("table", None, "Python table diff reports %s but the Lean table theorems pass" % msg,
                                                  broken="tools/props/C02.py table_pairs"))
