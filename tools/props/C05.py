"""C05 — tree builders honour the documented TreeSink calling contract.

Oracle: the real HTML and XML parsers run over `TracingSink<RcDom>` (harness/src/sinkops.rs; engine
`rcdom`, modes parse-html / parse-xml, fragment contexts, scripting on/off, random chunking); the
sink validates every call *before* forwarding it against the contract and the check fails on any
`CONTRACT-VIOLATION`.  Model side: every harvested trace is replayed (`rcdom<TAB>ops`) on the real
RcDom under the same monitor and on the Lean model `H5V.Model.Dom`, which evaluates
`Dom.contractOk` (= `Contract`) at every call — the per-call verdicts (`!` flags), the results of
the calls and the final dumps must be identical, which ties the Rust monitor to the Lean predicate
the theorems of lean/H5V/Props/C05.lean are about.

That the tree builders issue only contract-abiding calls is *decided by the monitor on the real
code* on the inputs of the run (the tree-builder models are a separate package); the theorems say
what the contract buys: a contract-abiding call never panics RcDom and re-establishes the invariant.

One defect was found on the pinned tree (DESIGN 1.3 item 21: xml5ever appended a doctype for every
DOCTYPE token before the root) and is repaired in /repo (b61995b) as PROPOSED_PATCH_XML_DOCTYPE
below (kept for the record); its input stays in corpus/C05 as regression corpus.
"""
import os
import sys

sys.path.insert(0, os.path.dirname(os.path.abspath(__file__)))
from props import C20 as D   # shared trace format, generators and reference DOM

PROP = "C05"
ENGINE = "rcdom"
LEAN_TARGETS = ["H5V.Props.C05", "H5V.Props.C05TB", "H5V.Props.C05Xml"]
AUDIT_IMPORTS = ["H5V.Props.C05TB", "H5V.Props.C05Xml"]
THEOREMS = ["H5V.Props.C05." + t for t in [
    "C05_contract_decidable", "C05_no_panic_partial", "C05_inv_preserved", "C05_run", "C05_monitor_sound",
    "C05_violation_panics", "C05_violation_corrupts", "C05_attrs_no_duplicates", "C05_create_element_attrs",
]] + ["H5V.Props.C05TB." + t for t in [
    # the HTML tree-builder model issues only contract-abiding calls, for every token list (Props/C05TB.lean)
    "C05_tb_contract", "C05_tb_contract_fragment", "run_contract", "esc_sink", "C04_tb_total_full",
    "C04_tb_total_full_fragment"]] + ["H5V.Props.C05." + t for t in [
    # the handle-level model of xml5ever's tree builder (Model/XmlTBH.lean, tied by `xmltb trace`: every sink call of the
    # real XmlTreeBuilder fed the same tokens) issues only contract-abiding calls and reaches no panic site, for every
    # token list whose tags the tokenizer can produce (TagOk: no two unprefixed non-declaration attributes of one name)
    "C05_xml_contract", "C05_xml_new", "C05_xml_process_token", "C05_xml_end", "C05_xml_reach_inv", "C05_xml_reach",
    "C05_xml_each_call", "C05_xml_monitor_silent", "whichViol_nil_iff", "C05_xml_V_field", "C05_xml_witness_dup_attr"]]
TRUSTED = [
    "Lean 4 kernel; axioms ⊆ {propext, Classical.choice, Quot.sound} (audited per run)",
    "the contract `H5V.Model.Dom.Contract` is my reading of the trait documentation in "
    "markup5ever/interface/tree_builder.rs (clauses listed at `Dom.contractOk`)",
    "the contract monitor `TracingSink` (harness/src/sinkops.rs: shadow structure of kind / parent / ordered children of "
    "the handle-bearing nodes), tied to `Contract` by replaying every harvested trace on the Lean model and comparing "
    "per-call verdicts, call results and final dumps (engine rcdom)",
    "hand-written model lean/H5V/Model/Dom.lean of rcdom/lib.rs (property C20)",
]
ASSUMPTIONS = [
    "`every call of the tree builders satisfies the contract` is established by monitoring the real tree builders on "
    "the generated inputs of the run (differential / run-time checking, coverage in evidence), not proved for all "
    "inputs: the HTML and XML tree-builder models are a separate package (C02/C16)",
    "`C05_no_panic_partial` excludes maybe_clone_an_option_into_selectedcontent (fuel adequacy of three bounded loops "
    "and validity of template-contents links are not part of the proved invariant); no such call panics in any case",
]
RULE = ("documents for the real parsers under the contract monitor: adoption-agency family (formatting element x every "
        "sequence of <= 3 (a: 4; thorough 5) intermediates over {b,i,nobr,span,ruby,div,p} x [div] x end tag, plus "
        "two-formatting-element misnestings in cells); XML attribute-aliasing family (prefixes x,y,default bound to "
        "{u, xml-namespace URI, v} on the element or its parent x ordered pairs of {x:k,y:k,xml:k,k,x:j,xml:j}); fixed list (adoption agency, foster parenting, "
        "templates, selects, frameset, foreign content, doctype placements, duplicate attributes) x {scripting off, "
        "scripting on + one-character chunks}; seeded tag soup over 7 themes (table / format / template / select / "
        "skeleton / foreign / dupattr) with random chunking, 20% scripting on, 25% fragment parsing in 14 context "
        "elements; XML documents (doctypes, PIs, comments, namespaces, malformed tails); each distinct trace is replayed "
        "on RcDom+monitor and on the Lean model. non-trivial = trace with >= 8 calls; distinct = distinct (case, output)")
EXPLANATION = ("monitor on the real code decides contract-abidance per input; Lean: contract decidable, contract-abiding "
               "calls never panic RcDom (all methods but the selectedcontent mirroring) and preserve the invariant, "
               "monitor-clean traces run to the end; violations do panic / corrupt (witnesses)")
SHARD_TIMEOUT = 600

hx, unhx = D.hx, D.unhx

EXTRA_FIXED = [
    "<!DOCTYPE html><p a=1 a=2 A=3>x", "<body a a=2><body a=3 b b=4>", "<html x x><html x=1 y>",
    "<!DOCTYPE html><!DOCTYPE html><p>", "<p><!DOCTYPE html>", "<!--c--><!DOCTYPE html PUBLIC \"-//W3C//DTD HTML 3.2//EN\"><p>",
    "<svg a=1 a=2 xlink:href=x xlink:href=y><path d d>", "<math definitionurl=a definitionurl=b><mi>",
    "<table a=1 a=2><tr b b><td c c>x<p>", "<select a a><option selected selected>x</option>",
    "<template a a><div b b>", "<form><form><input><table><form><input>", "<table><input type=hidden type=x><input>",
    "<a><table><a>", "<b><table><td><aside><b>x</b></aside></table>", "<table><tr><td><b>x</td></tr>y</table></b>z",
    "<button><p><button>", "<p><svg><p>x", "<svg><foreignObject><b><p></svg>x", "<math><mtext><b><mglyph><i>x</math>",
    "<frameset><frameset><frame></frameset><noframes>x", "<body><frameset>", "x<frameset>",
    "<head><template><head><title>x", "<template><frame><frameset>", "<template><tr><td>x</template><td>",
    "<table><caption><table><caption>x</table>y</table>z", "<ruby><rb><rt><rtc><rp>", "<dl><dd><dt><dd>",
    "<h1><h2><h3>", "<pre>\nx<listing>\ny<textarea>\nz", "<plaintext>x</plaintext>", "<xmp><b></xmp><b>",
    "<isindex><image><keygen>", "<nobr>a<nobr>b<nobr>c", "<a><b><a><i><a><u>x</a></a></a>",
    "<b><i><u><s><p>1</b>2</i>3</u>4</s>5", "<div><b><b><b><b><p>x</b></b></b></b>y",
    "<script>x</script><script>document.write('<p>')</script>", "<noscript><p>x</noscript>", "<style>p{}</style>",
    "<select><optgroup><option>a<optgroup><option>b</select>", "<select><select>x", "<select><table>", "<table><select><tr>",
    "<option>a</option><option selected>b</option>", "<select><hr><option selected>x</option><selectedcontent>",
]
D.HTML_TOKENS.setdefault("dupattr", [
    "<p a=1 a=2>", "<div id=x id=y class=c>", "<body a a=2>", "<html l l>", "<table b b>", "<td c=1 c=2>", "<svg x x>",
    "<b i i>", "</b>", "</p>", "<a href=1 href=2>", "</a>", "x", "<input t t>", "<select m m>", "<option selected selected>",
    "</option>", "<template q q>", "</template>", "<math v v>", "<g xlink:href=a xlink:href=b>", "<tr>", "</table>",
])
FRAG = D.FRAG_CTX + ["option", "caption"]

XML_FIXED = [
    "<!DOCTYPE a><!DOCTYPE b><r/>", "<!DOCTYPE a><r/>", "<r/><!DOCTYPE a>", "<?xml version='1.0'?><!DOCTYPE a SYSTEM 's'><a/>",
    "<a x='1' x='2'/>", "<a p:x='1' x='2' xmlns:p='u'/>", "<a><b></a></b>", "<a/><b/>", "x<a/>y", "<a>t<!--c--><?p d?></a><!--e-->",
    "<a xmlns='u'><b xmlns=''><c/></b></a>", "</a>", "<a", "<!DOCTYPE a><!--c--><?p?><a/>",
]

# adoption agency: `<F> m1 … mk [<div>] x </F> y` — every sequence of intermediates (formatting, ordinary and
# special elements) between the formatting element and the text, to a bounded depth
AA_FMT = ["a", "b", "i", "nobr", "font"]
AA_MID = ["b", "i", "nobr", "span", "ruby", "div", "p"]


def adoption_docs(tier):
    import itertools
    depth_all, depth_a = (3, 4) if tier == "quick" else (5, 5)
    out = []
    for f in AA_FMT:
        dmax = depth_a if f == "a" else depth_all
        for k in range(dmax + 1):
            for mids in itertools.product(AA_MID, repeat=k):
                body = "".join("<%s>" % m for m in mids)
                out.append("<%s>%s<div>x</%s>y" % (f, body, f))
                if k and (k <= depth_all or tier != "quick"):
                    out.append("<%s>%sx</%s>y" % (f, body, f))
    # two formatting elements closed in the wrong order, inside a table cell (marker), after text
    for f, g in itertools.permutations(["a", "b", "i"], 2):
        for mid in ("span", "ruby", "div", "p"):
            out.append("<table><td><%s><%s><%s><div>x</%s>y</%s>z" % (f, g, mid, f, g))
            out.append("q<%s>r<%s>s<%s>t<p>x</%s>y</%s>z" % (f, g, mid, f, g))
    return out


def adoption_table_docs():
    """the adoption agency run from the table insertion modes (foster parenting on), where the foster parent is the table's
    parent, template contents, or - in fragments / templates without a table on the stack - the html root or the template:
    (options, text)"""
    shapes = ["<b><p>x</b>y", "<b><i><p>x</b>y", "<a><div>x<a>y", "<b><span><p>x</b>y", "<b><i><u><s><p>x</b>y", "<nobr><div><nobr>x",
              "<b>t<p>x</b>y</p>z", "<i><b><div>x</i>y</b>z", "<b><p>x<table><td></b>y", "<a><p>x</a><a>y</a>"]
    pres = ["<table>", "<table><tr>", "<table><tbody>", "<table><thead><tr>", "<template><tr>", "<template><table><tr>",
            "<template><tbody>", "<template><td>", "<template><caption>", "<template><colgroup>", "<template><table>",
            "<div><table><tr>", "<table><caption>", "<table><tr><td><table><tr>", "<template><template><tr>", "<b><table><tr>"]
    out = [("-", p_ + sh) for p_ in pres for sh in shapes]
    for cx in ("tbody", "tr", "table", "thead", "tfoot", "template", "caption", "td", "colgroup", "select", "html", "body"):
        for sh in shapes:
            for p_ in ("", "<tr>", "<tbody>", "<td>", "<table><tr>"):
                out.append(("frag=" + hx(cx), p_ + sh))
    return out


XMLNS_URI = "http://www.w3.org/XML/1998/namespace"


def xml_alias_docs():
    """two prefixes bound to the same URI (incl. the xml namespace URI, default + prefix), attributes colliding by
    expanded name, both orders, declarations on the element or on its parent"""
    out = []
    uris = ["u", XMLNS_URI, "v"]
    names = ["x:k", "y:k", "xml:k", "k", "x:j", "xml:j"]
    for on_parent in (False, True):
        for u1 in uris:
            for u2 in uris:
                for dflt in (None, "u", XMLNS_URI):
                    decl = ' xmlns:x="%s" xmlns:y="%s"' % (u1, u2) + (' xmlns="%s"' % dflt if dflt else "")
                    for a1 in names:
                        for a2 in names:
                            if a1 == a2:
                                continue
                            at = ' %s="1" %s="2"' % (a1, a2)
                            if on_parent:
                                out.append("<r%s><e%s/></r>" % (decl, at))
                            else:
                                out.append("<e%s%s/>" % (decl, at))
    out += ['<e x="1" a:x="2"/>', '<e a:x="1" x="2"/>', '<e a:x="1" b:x="2"/>',
            '<e xmlns:x="%s" xml:lang="en" x:lang="fr"/>' % XMLNS_URI, '<e xmlns:x="%s" x:lang="fr" xml:lang="en"/>' % XMLNS_URI,
            '<r xmlns:a="u"><e xmlns:b="u" a:k="1" b:k="2"><f a:k="1" xmlns:a="v" b:k="2"/></e></r>']
    return out


_STATS = {}


def harvest(tier, rng):
    import vlib
    n_html, n_xml = (1400, 300) if tier == "quick" else (30000, 6000)
    lines, tags = [], []
    for s in D.FIXED_HTML + EXTRA_FIXED:
        lines.append("rcdom\tparse-html\t-\t" + hx(s))
        tags.append("fixed-html")
        lines.append("rcdom\tparse-html\ts1\t" + "|".join(hx(c) for c in s))
        tags.append("fixed-html")
    for s in XML_FIXED:
        lines.append("rcdom\tparse-xml\t-\t" + hx(s))
        tags.append("fixed-xml")
        lines.append("rcdom\tparse-xml\t-\t" + "|".join(hx(c) for c in s))
        tags.append("fixed-xml")
    for s in adoption_docs(tier):
        lines.append("rcdom\tparse-html\t-\t" + hx(s))
        # quick: the deepest layer is monitored on the real parser only (its traces are not replayed on the model)
        tags.append("adoption-deep" if (tier == "quick" and s.count("<") > 6) else "adoption")
    for o, s in adoption_table_docs():
        lines.append("rcdom\tparse-html\t%s\t%s" % (o, hx(s)))
        tags.append("adoption-table")
    for s in xml_alias_docs():
        lines.append("rcdom\tparse-xml\t-\t" + hx(s))
        tags.append("xml-alias")
    for _ in range(n_html):
        theme, s = D.gen_html(rng)
        opts = []
        if rng.random() < 0.2:
            opts.append("s1")
        if rng.random() < 0.25:
            opts.append("frag=" + hx(rng.choice(FRAG)))
        lines.append("rcdom\tparse-html\t%s\t%s" % (",".join(opts) or "-", D.chunked(rng, s)))
        tags.append("html-" + theme)
    for _ in range(n_xml):
        lines.append("rcdom\tparse-xml\t-\t" + D.chunked(rng, D.gen_xml(rng)))
        tags.append("xml")
    outs = vlib.run_impl(lines, timeout=600)
    cases = []
    stats = {"parses": len(lines), "distinct_traces": 0, "monitor_violations": 0, "calls": 0, "op_histogram": {}}
    seen = set()
    for l, t, o in zip(lines, tags, outs):
        cases.append((l, t))
        if o is None or "@V=" not in o:
            continue
        trace, v = o.split("@V=")
        if v != "-":
            stats["monitor_violations"] += 1
        for op in trace.split(";"):
            k = op.split(",")[0]
            stats["op_histogram"][k] = stats["op_histogram"].get(k, 0) + 1
            stats["calls"] += 1
        if trace not in seen and t != "adoption-deep":
            seen.add(trace)
            cases.append(("rcdom\tops\t" + trace, "replay-" + t))
    stats["distinct_traces"] = len(seen)
    return cases, stats


def xml_trace_cases(tier, rng):
    """token lists fed straight to the real XmlTreeBuilder over the contract monitor and to the handle-level model
    (`xmltb trace`): C16's token families (namespaces, nesting, stray end tags, doctypes, PIs, script / template names)"""
    from props import C16
    out = []
    for l, t in C16.gen_cases(tier, rng):
        f = l.split("\t")
        if f[0] == "xmltb" and f[1] == "tok":
            out.append(("xmltb\ttrace\t" + f[2], "xml-trace"))
    return out


def is_xml_trace(line):
    return line.startswith("xmltb\ttrace\t")


def xml_tag_ok(line):
    """the hypothesis of C05_xml_contract: no tag carries two unprefixed attributes (other than namespace declarations)
    with the same local name - what the tokenizer's finish_attribute guarantees"""
    for tok in line.split("\t")[2].split(";"):
        f = tok.split(",")
        if f[0] not in ("S", "M", "E", "H"):
            continue
        seen = set()
        for i in range(3, len(f) - 2, 3):
            p_, l_ = f[i], f[i + 1]
            if p_ == "~" and l_ != "78.6d.6c.6e.73":
                if l_ in seen:
                    return False
                seen.add(l_)
    return True


def gen_cases(tier, rng):
    cases, stats = harvest(tier, rng)
    _STATS["harvest"] = stats
    return cases + xml_trace_cases(tier, rng)


def is_parse(line):
    return line.split("\t")[1] in ("parse-html", "parse-xml")


def compare(line, impl, model):
    """parse lines have no model counterpart (the model side of a parse is the replay of its trace)"""
    if is_xml_trace(line):
        return impl == model
    if is_parse(line):
        return True
    return impl == model


def oracle(line, out):
    if out is None or out.startswith("ABORT"):
        return "implementation crashed: %s" % out
    if out.startswith("PANIC"):
        return "parser / sink panicked: %s" % out[:300]
    if out in ("bad-op", "bad-case"):
        return "engine rejected the case: %s" % out
    if is_xml_trace(line):
        if "@V=" not in out or "@H=" not in out:
            return "malformed trace output"
        v = out.split("@V=")[1].split("@H=")[0]
        if v != "-" and xml_tag_ok(line):
            return "XmlTreeBuilder violated the TreeSink contract on tokens the tokenizer can produce: " + v[:300]
        return None
    if is_parse(line):
        if "@V=" not in out:
            return "malformed harvest output"
        v = out.split("@V=")[1]
        if v == "-":
            return None
        which = sorted(set(x.split("CONTRACT-VIOLATION ")[1] for x in v.split("|")))
        if line.split("\t")[1] == "parse-xml" and which == ["dt:second-doctype-or-after-element"]:
            return ("xml-doctype: xml5ever calls append_doctype_to_document for a DOCTYPE token although a doctype was "
                    "already appended (DESIGN 1.3 item 21): " + v[:200])
        return "tree builder violated the TreeSink contract: " + v[:300]
    # replay of a harvested trace: the monitor's verdicts, no panic
    toks = out.split("@")[0].split(";")
    bad = [i for i, t in enumerate(toks) if t.startswith("!")]
    ops = D.case_ops(line)
    if any("PANIC" in t for t in toks):
        return "replayed call panicked RcDom: %s" % toks[-1]
    if bad:
        if all(ops[i].startswith("dt,") for i in bad):
            return "xml-doctype: replay: append_doctype_to_document after a doctype was appended (call %d)" % bad[0]
        return "replayed trace contains calls outside the contract: %s" % [(i, ops[i][:40]) for i in bad[:3]]
    # within the contract the property-level reference DOM must agree as well (C20's oracle)
    return D.oracle(line, out)


def nontrivial(line, out):
    if out is None:
        return False
    if is_parse(line) or is_xml_trace(line):
        return out.count(";") >= 7
    return D.nontrivial(line, out)


KNOWN_MATCHERS = {
    "C05-xml-second-doctype": lambda f: f.kind == "oracle" and (f.detail or "").startswith("xml-doctype:"),
}

PROPOSED_PATCH_XML_DOCTYPE = r'''
--- a/xml5ever/src/tree_builder/mod.rs
+++ b/xml5ever/src/tree_builder/mod.rs
@@ pub struct XmlTreeBuilder<Handle, Sink> {
     /// Current tree builder phase.
     phase: Cell<XmlPhase>,
+
+    /// Whether a doctype was already appended to the document.
+    doctype_seen: Cell<bool>,
 }
@@ pub fn new(sink: Sink, opts: XmlTreeBuilderOpts) -> XmlTreeBuilder<Handle, Sink> {
             phase: Cell::new(XmlPhase::Start),
+            doctype_seen: Cell::new(false),
         }
@@ XmlPhase::Start => match token {
                 Token::Doctype(d) => {
-                    self.append_doctype_to_doc(d);
+                    if self.doctype_seen.replace(true) {
+                        self.sink
+                            .parse_error(Borrowed("Unexpected second DOCTYPE in start phase"));
+                    } else {
+                        self.append_doctype_to_doc(d);
+                    }
                     XmlProcessResult::Done
                 },
'''


def extra_evidence(check):
    return {"harvest": _STATS.get("harvest"), "proposed_patch_xml_doctype": PROPOSED_PATCH_XML_DOCTYPE}
