"""Shared case generators / parsers for the HTML tokenizer engine `tok` (C01, C03, C08, C09, C14)."""
import json
import os
import re

ROOT = os.path.dirname(os.path.dirname(os.path.dirname(os.path.abspath(__file__))))

RAW = ["Rcdata", "Rawtext", "ScriptData", "ScriptDataEscaped(Escaped)", "ScriptDataEscaped(DoubleEscaped)"]
ESC = ["Escaped", "DoubleEscaped"]
IDS = ["Public", "System"]
STATES = (["Data", "Plaintext", "TagOpen", "EndTagOpen", "TagName"]
          + ["RawData(%s)" % k for k in RAW] + ["RawLessThanSign(%s)" % k for k in RAW]
          + ["RawEndTagOpen(%s)" % k for k in RAW] + ["RawEndTagName(%s)" % k for k in RAW]
          + ["ScriptDataEscapeStart(%s)" % k for k in ESC] + ["ScriptDataEscapeStartDash"]
          + ["ScriptDataEscapedDash(%s)" % k for k in ESC] + ["ScriptDataEscapedDashDash(%s)" % k for k in ESC]
          + ["ScriptDataDoubleEscapeEnd", "BeforeAttributeName", "AttributeName", "AfterAttributeName",
             "BeforeAttributeValue", "AttributeValue(Unquoted)", "AttributeValue(SingleQuoted)",
             "AttributeValue(DoubleQuoted)", "AfterAttributeValueQuoted", "SelfClosingStartTag", "BogusComment",
             "MarkupDeclarationOpen", "CommentStart", "CommentStartDash", "Comment", "CommentLessThanSign",
             "CommentLessThanSignBang", "CommentLessThanSignBangDash", "CommentLessThanSignBangDashDash",
             "CommentEndDash", "CommentEnd", "CommentEndBang", "Doctype", "BeforeDoctypeName", "DoctypeName",
             "AfterDoctypeName"]
          + ["AfterDoctypeKeyword(%s)" % k for k in IDS] + ["BeforeDoctypeIdentifier(%s)" % k for k in IDS]
          + ["DoctypeIdentifierDoubleQuoted(%s)" % k for k in IDS]
          + ["DoctypeIdentifierSingleQuoted(%s)" % k for k in IDS]
          + ["AfterDoctypeIdentifier(%s)" % k for k in IDS]
          + ["BetweenDoctypePublicAndSystemIdentifiers", "BogusDoctype", "CdataSection", "CdataSectionBracket",
             "CdataSectionEnd"])
assert len(STATES) == 73, len(STATES)

# every literal the transition table mentions + one representative of each range / class
CHARS = ["\t", "\n", "\x0c", " ", "\r", "!", '"', "#", "&", "'", "-", "/", "<", "=", ">", "?", "]", "`", ";", "[",
         "0", "9", "a", "z", "A", "Z", "s", "x", "X", "d", "D", "p", "P", "\0", "﻿", "é", "\U0001F600",
         "\x01", "￾", "\x7f", "\x80"]
SMALL = ["\n", "\r", " ", "!", '"', "&", "'", "-", "/", "<", "=", ">", "a", "A", "\0", ";", "#", "]"]
SUFFIXES = ["", "x", ">", " a='b'>z", "-->z", "script>z"]


def hx(s):
    return " ".join("%x" % ord(c) for c in s) if s else "-"


def unhx(s):
    s = s.strip()
    return "" if s in ("-", "") else "".join(chr(int(x, 16)) for x in s.split(" "))


def case(chunks, exact=0, bom=1, profile=0, state="-", last="~", pol="cdata=0", inj="-"):
    opts = "exact=%d,bom=%d,profile=%d" % (exact, bom, profile)
    return "\t".join(["tok", opts, state, last, pol, "|".join(hx(c) for c in chunks), inj])


def fields(line):
    f = line.split("\t")
    return {"opts": f[1], "state": f[2], "last": f[3], "pol": f[4],
            "chunks": [unhx(c) for c in f[5].split("|")], "inj": f[6]}


def with_chunks(line, chunks):
    f = line.split("\t")
    f[5] = "|".join(hx(c) for c in chunks)
    return "\t".join(f)


def with_opts(line, **kw):
    f = line.split("\t")
    o = dict(p.split("=") for p in f[1].split(","))
    for k, v in kw.items():
        o[k] = str(v)
    f[1] = ",".join("%s=%s" % (k, o[k]) for k in ("exact", "bom", "profile", "end") if k in o)
    return "\t".join(f)


SCRIPT_POL = "cdata=0;%s=R2;/%s=S" % (hx("script"), hx("script"))
RAW_POL = ("cdata=0;%s=R2;/%s=S;%s=R0;%s=R0;%s=R1;%s=R1;%s=P;%s=I"
           % (hx("script"), hx("script"), hx("title"), hx("textarea"), hx("style"), hx("xmp"), hx("plaintext"),
              hx("meta")))


def state_cover():
    """exhaustive single-transition cover: every state × every character class (+EOF) × suffix;
    for raw end-tag states the three last-start-tag relations; both CDATA answers where it matters"""
    out = []
    for st in STATES:
        lasts = ["~"]
        if st.startswith("RawEndTag") or st.startswith("RawLessThan"):
            lasts = ["~", hx("s"), hx("sx"), hx("q")]
        pols = ["cdata=0"]
        if st == "MarkupDeclarationOpen":
            pols = ["cdata=0", "cdata=1"]
        for last in lasts:
            for pol in pols:
                out.append(case([""], state=st, last=last, pol=pol))
                for c in CHARS:
                    for suf in SUFFIXES:
                        out.append(case([c + suf], state=st, last=last, pol=pol))
    # look-ahead keywords
    for st, kws in (("MarkupDeclarationOpen", ["--", "-", "doctype", "DOCTYPE", "DocType", "doctyp", "[CDATA[", "[CDATA", "[cdata["]),
                    ("AfterDoctypeName", ["public", "PUBLIC", "publi", "system", "SyStEm", "syste", "\rpublic", "\r\nsystem", "\npublic"])):
        for kw in kws:
            for suf in ["", "x", ">", " 'a'>", "]]>z"]:
                for pol in ("cdata=0", "cdata=1"):
                    out.append(case([kw + suf], state=st, pol=pol))
    return out


POP_STATES = ["Data", "RawData(Rcdata)", "RawData(Rawtext)", "RawData(ScriptData)", "RawData(ScriptDataEscaped(Escaped))",
              "RawData(ScriptDataEscaped(DoubleEscaped))", "Plaintext", "AttributeValue(DoubleQuoted)",
              "AttributeValue(SingleQuoted)", "AttributeValue(Unquoted)"]


def crlf_run_cover():
    """a CR, then a bulk-read run (possibly reaching the end of a chunk), then LF / other characters, in every state
    that reads with pop_except_from (fast path vs. slow path vs. pending-LF flag)"""
    out = []
    runs = ["", "b", "bc", "b" * 15, "b" * 16, "b" * 17, "é", "=\"`", "b-b"]
    tails = ["\n", "\nc", "\n\nc", "\r\nc", "c", "&amp;\n", "<", "\0\n"]
    for st in POP_STATES:
        for lead in ("\r", "a\r", "\r\n\r"):
            for r in runs:
                for t in tails:
                    out.append(case([lead + r + t], state=st, last=hx("s")))
    return out


def pair_cover():
    """every state × every ordered pair over a reduced alphabet (two consecutive transitions)"""
    out = []
    for st in STATES:
        last = hx("s") if st.startswith("Raw") else "~"
        for a in SMALL:
            for b in SMALL:
                out.append(case([a + b + ">"], state=st, last=last))
    return out


TAGS = ["a", "p", "script", "style", "title", "textarea", "plaintext", "svg", "B", "Div", "xmp", "meta"]
ATTRN = ["a", "b", "class", "A", "x-y", "\"q", "a'b", "=z"]
ATTRV = ["", "x", "a b", "1&amp;2", "&lt", "a'b", 'a"b', "x\ny", "x\r\ny", "&notit;", "&not=", "&#65;"]
TEXT = ["", "x", "hello", "a&amp;b", "&lt;", "&", "&#x41;", "&#0;", "&notin;", "&noti", "a\nb", "a\r\nb", "a\rb", "\0",
        "<", ">", "&#x110000;", "&#", "&#x", "&bogus;", "﻿", "]]>", "--", "é😀"]


def random_soup(rng, n):
    """grammar-directed tag soup: mostly-valid markup with mutations + a separate malformed stream"""
    out = []
    for _ in range(n):
        parts = []
        for _ in range(rng.randint(1, 6)):
            r = rng.random()
            if r < 0.35:
                t = rng.choice(TAGS)
                attrs = ""
                for _ in range(rng.randint(0, 3)):
                    q = rng.choice(['"', "'", ""])
                    v = rng.choice(ATTRV)
                    if q == "":
                        v = v.replace(" ", "_")
                    sep = rng.choice(["=", " = ", "=\n", "=\r\n", "= "])
                    attrs += rng.choice([" ", "\n", "\t", "/"]) + rng.choice(ATTRN) + (sep + q + v + q if rng.random() < 0.85 else "")
                parts.append("<" + t + attrs + rng.choice([">", "/>", " >", "\n>"]))
            elif r < 0.5:
                parts.append("</" + rng.choice(TAGS) + rng.choice([">", " >", " x=y>", "/>"]))
            elif r < 0.75:
                parts.append(rng.choice(TEXT))
            elif r < 0.85:
                parts.append("<!--" + rng.choice(["", "-", "x", "<!--", "--!", "a-b", "\0", "<!-", "x\ny"]) + rng.choice(["-->", "--!>", "->", ">", ""]))
            elif r < 0.93:
                parts.append("<!DOCTYPE" + rng.choice([" html", "html", " HTML PUBLIC \"x\" 'y'", " a SYSTEM 'z'", "\r\nhtml\r\nPUBLIC\r\n'x'", " x y", ""]) + rng.choice([">", " >", ""]))
            else:
                parts.append("".join(rng.choice(SMALL + ["<", "<", "&"]) for _ in range(rng.randint(1, 8))))
        s = "".join(parts)
        if rng.random() < 0.2 and s:   # mutation: drop / duplicate a character
            i = rng.randrange(len(s))
            s = s[:i] + (s[i] * 2 if rng.random() < 0.5 else "") + s[i + 1:]
        pol = rng.choice(["cdata=0", "cdata=1", RAW_POL, RAW_POL, SCRIPT_POL])
        out.append(case([s], pol=pol))
    return out


def partitions2(s):
    return [[s[:i], s[i:]] for i in range(0, len(s) + 1)]


def singletons(s):
    return list(s) if s else [""]


def random_partition(rng, s):
    if not s:
        return [""]
    cuts = sorted(set(rng.randrange(0, len(s) + 1) for _ in range(rng.randint(1, 4))))
    out, prev = [], 0
    for c in cuts:
        out.append(s[prev:c])
        prev = c
    out.append(s[prev:])
    return out


def bulk_inputs(tier):
    """Inputs whose only special feature is size: counters, buffers and SIMD accumulators that are right for every small
    input and wrong past 2^8 / 2^10 / 2^16 units (lane counters, length caps, narrowed integer types).
    -> list of (text, start state)"""
    out = []
    # fixed-width lines inside one buffer: >= 256 line feeds on the same byte position modulo 16
    widths = [(16, 300), (32, 260), (80, 257), (64, 513)] if tier == "quick" else \
             [(16, 300), (16, 256), (16, 255), (32, 260), (48, 300), (80, 257), (64, 513), (1, 300), (2, 700), (17, 4400),
              (16, 4200)]
    for w, n in widths:
        out.append((("x" * (w - 1) + "\n") * n + "<p>tail", "-"))
        out.append((("é" * ((w - 1) // 2) + "y" * ((w - 1) % 2) + "\n") * n + "&amp;<a b='" + "q\n" * 300 + "'>", "-"))
    # a single non-ASCII text run longer than 2^16 bytes, both byte alignments (caps / truncation of quoted tokens)
    for pre in ("", "a"):
        out.append((pre + "é" * 33000 + "<p>", "-"))
        out.append((pre + "€" * 22000 + "</p>", "-"))
    out.append(("\r" * 300 + "<a>", "-"))
    out.append(("\r\n" * 300 + "</a>", "-"))
    for st in ("RawData(Rcdata)", "RawData(Rawtext)", "RawData(ScriptData)", "Plaintext", "CdataSection"):
        out.append((("x" * 15 + "\n") * 300 + "</s>z", st))
    # '&' followed by a long run that is not a reference (every character must come back), ended in every way
    alnum = "abcdefghijklmnopqrstuvwxyzABCDEFGHIJKLMNOPQRSTUVWXYZ0123456789"
    ns = (1023, 1024, 1025, 1100) if tier == "quick" else (255, 256, 257, 1023, 1024, 1025, 1100, 2050, 4097, 16390)
    for n in ns:
        run = (alnum * (n // len(alnum) + 1))[:n]
        for term in (";", "<b>", " y", "=", "", "&amp;"):
            out.append(("t&" + run + term + "z", "-"))
        out.append(("<a href=\"?a=1&" + run + "\" c='&" + run + ";'>z", "-"))
        out.append(("<a href=?a=1&" + run + ">z", "-"))
        out.append(("t&" + run + ";z</s>", "RawData(Rcdata)"))
        out.append(("t&#" + "0" * n + "65;z", "-"))
        out.append(("t&#x" + "0" * n + "41z", "-"))
    # long names, values, comments, doctypes, many attributes (duplicate detection), long temp buffers
    for n in ((300, 1030) if tier == "quick" else (255, 256, 300, 1030, 4100)):
        out.append(("<" + "a" * n + " " + "b" * n + "=" + "c" * n + " " + "b" * n + "=d>t</" + "A" * n + ">", "-"))
        out.append(("<!--" + "-x" * n + "-->t<!DOCTYPE " + "h" * n + " PUBLIC '" + "p" * n + "' \"" + "s" * n + "\">", "-"))
        out.append(("</" + "s" * n + ">z</s" + "S" * 0 + ">", "RawData(Rawtext)"))
        out.append(("<!--<script>" + "y" * n + "</script>" + "-" * n + ">z</script>", "RawData(ScriptData)"))
    m = 300 if tier == "quick" else 1100
    out.append(("<a " + " ".join("k%d=%d" % (i % (m - 3), i) for i in range(m)) + ">", "-"))
    return out


SPECIAL_CPS = [0x85, 0xA0, 0xAD, 0x130, 0x131, 0x17F, 0x1E9E, 0x2000, 0x200B, 0x200E, 0x2028, 0x2029, 0x202E, 0x2060, 0x212A,
               0x3000, 0xD7FF, 0xE000, 0xFDD0, 0xFDEF, 0xFEFF, 0xFFF9, 0xFFFD, 0xFFFE, 0xFFFF, 0x10000, 0x1FFFE, 0x1FFFF,
               0xE0001, 0x10FFFD, 0x10FFFE, 0x10FFFF]


def codepoints(tier):
    """code points for the per-code-point sweep: a change that gives one more code point a meaning on one path only
    (slow path / fast path, one state, one option) is invisible to an alphabet made of the literals in today's table"""
    if tier == "thorough":
        return [c for c in range(0x110000) if not 0xD800 <= c < 0xE000 and (c < 0x30000 or c % 257 == 0 or c >= 0x10FF00)] 
    cps = set(range(0x0, 0x3100)) | set(range(0xFB00, 0x10000)) | set(range(0x3100, 0x110000, 251)) | set(SPECIAL_CPS)
    return sorted(c for c in cps if not 0xD800 <= c < 0xE000)


TOK_RE = re.compile(r"^(?P<kind>[A-Z]+)(?::(?P<body>.*))?@(?P<line>\d+)$")


def parse_out(out):
    """-> (tokens [(kind, body, line)], feed-log) or None"""
    if out is None or out.startswith(("PANIC", "ABORT", "bad-", "QUEUE", "OUT-OF", "too-many")):
        return None
    if " F=" not in out:
        return None
    toks_s, flog = out.rsplit(" F=", 1)
    toks = []
    if toks_s:
        for t in toks_s.split(";"):
            m = TOK_RE.match(t)
            if not m:
                return None
            toks.append((m.group("kind"), m.group("body") or "", int(m.group("line"))))
    return toks, flog


def drop_errors(toks):
    """tokens without parse errors, adjacent character tokens re-merged"""
    res = []
    for k, b, l in toks:
        if k == "E":
            continue
        if k == "C" and res and res[-1][0] == "C":
            pb = res[-1][1]
            res[-1] = ("C", (pb + " " + b).strip(), l)
        else:
            res.append((k, b, l))
    return res


def load_entities():
    return json.load(open(os.path.join(ROOT, "tools", "spec_data", "whatwg_entities.json")))
