"""Shared case generators / parsers for the HTML tree-builder engine `tb` (C02, C04, C05, C06, C18).

Protocol: lean/H5V/Model/HtmlTBDriver.lean (model) and harness/src/engines/tb.rs (real code).
  token level  tb <TAB> tok <TAB> opts <TAB> ctx <TAB> tok;tok;…
  text level   tb <TAB> txt <TAB> opts <TAB> ctx <TAB> chunk|chunk|…
"""
import re

NS_HTML = "http://www.w3.org/1999/xhtml"
NS_MATHML = "http://www.w3.org/1998/Math/MathML"
NS_SVG = "http://www.w3.org/2000/svg"


def hx(s):
    return " ".join("%x" % ord(c) for c in s) if s else "-"


def unhx(s):
    s = s.strip()
    return "" if s in ("-", "") else "".join(chr(int(x, 16)) for x in s.split(" "))


# ----------------------------------------------------------------------------- tokens

def S(name, attrs=(), sc=0, dup=0, line=None):
    t = "S,%s,%d,%d" % (hx(name), sc, dup)
    for k, v in attrs:
        t += ",%s,%s" % (hx(k), hx(v))
    return t + ("@%d" % line if line else "")


def E(name, attrs=(), sc=0, line=None):
    t = "E,%s,%d,0" % (hx(name), sc)
    for k, v in attrs:
        t += ",%s,%s" % (hx(k), hx(v))
    return t + ("@%d" % line if line else "")


def T(text, line=None):
    return "T,%s" % hx(text) + ("@%d" % line if line else "")


def C(text):
    return "C,%s" % hx(text)


def D(name="html", pub=None, sys=None, fq=0):
    o = lambda x: "~" if x is None else hx(x)
    return "D,%s,%s,%s,%d" % (o(name), o(pub), o(sys), fq)


N = "N"
Z = "Z"


def X(msg="e"):
    return "X,%s" % hx(msg)


def opts(s=1, srcdoc=0, q="n", exact=0, dropdt=0, cs=None, tx=0):
    o = "s=%d,srcdoc=%d,q=%s,exact=%d,dropdt=%d" % (s, srcdoc, q, exact, dropdt)
    if cs is not None:
        o += ",cs=%d" % cs
    if tx:
        o += ",tx=1"
    return o


def ctx(local, ns=NS_HTML, attrs=(), form=0):
    a = "&".join("~/-/%s=%s" % (hx(k), hx(v)) for k, v in attrs) if attrs else "-"
    return "~/%s/%s,%s,%d" % (hx(ns), hx(local), a, form)


def case_tok(tokens, o="-", c="-"):
    return "\t".join(["tb", "tok", o, c, ";".join(tokens) if tokens else "-"])


def case_txt(chunks, o="-", c="-"):
    return "\t".join(["tb", "txt", o, c, "|".join(hx(x) for x in chunks)])


def fields(line):
    f = line.split("\t")
    return {"mode": f[1], "opts": f[2], "ctx": f[3], "payload": f[4]}


def txt_chunks(line):
    return [unhx(c) for c in line.split("\t")[4].split("|")]


def with_chunks(line, chunks):
    f = line.split("\t")
    f[4] = "|".join(hx(c) for c in chunks)
    return "\t".join(f)


def with_opt(line, key, val):
    f = line.split("\t")
    o = {} if f[2] == "-" else dict(p.split("=") for p in f[2].split(","))
    o[key] = str(val)
    f[2] = ",".join("%s=%s" % kv for kv in o.items())
    return "\t".join(f)


# ----------------------------------------------------------------------------- output parsing

def parse_out(out):
    """`T=…@V=…@D=…@R=…@E=…[@K=…]` -> dict, or None for PANIC / malformed"""
    if out is None or not out.startswith("T="):
        return None
    r = {}
    for part in out.split("@"):
        k, _, v = part.partition("=")
        r[k] = v
    return r if all(k in r for k in "TVDRE") else None


_PANIC_LINE = re.compile(r"^(PANIC \S+?):\d+$")


def norm_panic(s):
    """line numbers of panic sites are informative only (they move with every edit of /repo)"""
    if s is None:
        return s
    m = _PANIC_LINE.match(s)
    return m.group(1) if m else s


def compare(line, impl, model):
    return norm_panic(impl) == norm_panic(model)


class Node:
    __slots__ = ("kind", "data", "bad_parent", "tc", "kids")

    def __init__(self, kind, data):
        self.kind = kind          # doc | dt | tx | cm | el | pi
        self.data = data          # list of fields after the kind
        self.bad_parent = False
        self.tc = None
        self.kids = []

    def local(self):
        # el,<prefix>/<ns>/<local>,attrs,flag
        return unhx(self.data[0].split("/")[2]) if self.kind == "el" else None

    def ns(self):
        return self.data[0].split("/")[1] if self.kind == "el" else None

    def text(self):
        return unhx(self.data[0]) if self.kind in ("tx", "cm") else None


def parse_dump(d):
    """parse `Dom.dump` (`(data[^]{tc}kids…);Q=…`) into (root Node, quirks)"""
    body, _, q = d.rpartition(";Q=")
    pos = 0

    def node():
        nonlocal pos
        assert body[pos] == "(", (pos, body[pos:pos + 20])
        pos += 1
        start = pos
        while body[pos] not in "(){^}":
            pos += 1
        f = body[start:pos].split(",")
        n = Node(f[0], f[1:])
        if body[pos] == "^":
            n.bad_parent = True
            pos += 1
        if body[pos] == "{":
            pos += 1
            n.tc = node()
            assert body[pos] == "}"
            pos += 1
        while body[pos] == "(":
            n.kids.append(node())
        assert body[pos] == ")"
        pos += 1
        return n

    root = node()
    assert pos == len(body), (pos, len(body))
    return root, q


# ----------------------------------------------------------------------------- vocabulary

# every tag name a `tag!(…)` pattern of rules.rs mentions
RULE_NAMES = """a address applet area article aside b base basefont bgsound big blockquote body br button
caption center code col colgroup dd details dialog dir div dl dt em embed fieldset figcaption figure font footer
form frame frameset h1 h2 h3 h4 h5 h6 head header hgroup hr html i iframe image img input keygen li link listing
main marquee math menu meta nav nobr noembed noframes noscript object ol optgroup option p param plaintext pre rb
rp rt rtc ruby s script search section select small source span strike strong style sub summary sup svg table
tbody td template textarea tfoot th thead title tr track tt u ul var wbr xmp""".split()
# names that occur only in tag sets / is_foreign / sink code, plus unknown names
EXTRA_NAMES = ["isindex", "mglyph", "malignmark", "mi", "mo", "mn", "ms", "mtext", "annotation-xml", "foreignobject",
               "desc", "g", "foo", "selectedcontent", "datalist", "output", "label", "h7", "x-y"]
NAMES = RULE_NAMES + EXTRA_NAMES
assert len(set(NAMES)) == len(NAMES)

SVG_CAMEL = ["altglyph", "altglyphdef", "altglyphitem", "animatecolor", "animatemotion", "animatetransform", "clippath",
             "feblend", "fecolormatrix", "fecomponenttransfer", "fecomposite", "feconvolvematrix", "fediffuselighting",
             "fedisplacementmap", "fedistantlight", "fedropshadow", "feflood", "fefunca", "fefuncb", "fefuncg", "fefuncr",
             "fegaussianblur", "feimage", "femerge", "femergenode", "femorphology", "feoffset", "fepointlight",
             "fespecularlighting", "fespotlight", "fetile", "feturbulence", "foreignobject", "glyphref", "lineargradient",
             "radialgradient", "textpath"]
SVG_ATTRS = ["attributename", "attributetype", "basefrequency", "baseprofile", "calcmode", "clippathunits",
             "diffuseconstant", "edgemode", "filterunits", "glyphref", "gradienttransform", "gradientunits",
             "kernelmatrix", "kernelunitlength", "keypoints", "keysplines", "keytimes", "lengthadjust",
             "limitingconeangle", "markerheight", "markerunits", "markerwidth", "maskcontentunits", "maskunits",
             "numoctaves", "pathlength", "patterncontentunits", "patterntransform", "patternunits", "pointsatx",
             "pointsaty", "pointsatz", "preservealpha", "preserveaspectratio", "primitiveunits", "refx", "refy",
             "repeatcount", "repeatdur", "requiredextensions", "requiredfeatures", "specularconstant",
             "specularexponent", "spreadmethod", "startoffset", "stddeviation", "stitchtiles", "surfacescale",
             "systemlanguage", "tablevalues", "targetx", "targety", "textlength", "viewbox", "viewtarget",
             "xchannelselector", "ychannelselector", "zoomandpan"]
FOREIGN_ATTRS = ["xlink:actuate", "xlink:arcrole", "xlink:href", "xlink:role", "xlink:show", "xlink:title", "xlink:type",
                 "xml:lang", "xml:space", "xmlns", "xmlns:xlink", "definitionurl", "xlink:foo", "xml:base"]

# attribute shapes that some rule inspects, per tag name
SPECIAL_ATTRS = {
    "input": [[("type", "hidden")], [("type", "HIDDEN")], [("type", "text")], [("form", "f")], [("type", "hidden"), ("form", "f")]],
    "font": [[("color", "red")], [("face", "x")], [("size", "1")], [("class", "x")]],
    "meta": [[("charset", "utf-8")], [("http-equiv", "Content-Type"), ("content", "text/html; charset=x")],
             [("http-equiv", "content-type"), ("content", "text/html")], [("http-equiv", "refresh"), ("content", "charset=x")],
             [("content", "charset=x")], [("charset", "")], [("http-equiv", "content-type"), ("content", "charset = 'y' z")]],
    "annotation-xml": [[("encoding", "text/html")], [("encoding", "application/xhtml+xml")], [("encoding", "TEXT/HTML")],
                       [("encoding", "text/xml")]],
    "template": [[("shadowrootmode", "open")], [("shadowrootmode", "closed")], [("shadowrootmode", "x")]],
    "html": [[("lang", "en")], [("a", "1"), ("b", "2")]],
    "body": [[("class", "b")], [("a", "1"), ("b", "2")]],
    "button": [[("form", "f")]], "select": [[("form", "f")], [("multiple", "")]], "img": [[("form", "f")]],
    "textarea": [[("form", "f")]], "object": [[("form", "f")]], "fieldset": [[("form", "f")]], "output": [[("form", "f")]],
    "option": [[("selected", "")]],
    "a": [[("href", "x")]], "b": [[("class", "x")]], "svg": [[("viewbox", "0"), ("xlink:href", "#"), ("xmlns", "u")]],
    "math": [[("definitionurl", "u"), ("xlink:href", "#")]], "script": [[("src", "x")]],
    "form": [[("action", "x")]], "frameset": [[("rows", "1")]], "link": [[("charset", "x")]], "base": [[("charset", "x")]],
}

QUIRKY_IDS = [
    ("html", None, None), ("html", None, "about:legacy-compat"), ("html", "-//W3C//DTD HTML 4.0//EN", None),
    ("html", "-//W3C//DTD HTML 4.01//EN", "http://www.w3.org/TR/html4/strict.dtd"),
    ("html", "-//W3C//DTD XHTML 1.0 Strict//EN", "http://www.w3.org/TR/xhtml1/DTD/xhtml1-strict.dtd"),
    ("html", "-//W3C//DTD XHTML 1.1//EN", "http://www.w3.org/TR/xhtml11/DTD/xhtml11.dtd"),
    ("html", "-//W3C//DTD HTML 4.01 Transitional//EN", None),
    ("html", "-//W3C//DTD HTML 4.01 Transitional//EN", "http://www.w3.org/TR/html4/loose.dtd"),
    ("html", "-//W3C//DTD HTML 4.01 Frameset//EN", None), ("html", "-//W3C//DTD HTML 4.01 Frameset//EN", "x"),
    ("html", "-//W3C//DTD XHTML 1.0 Transitional//EN", "x"), ("html", "-//W3C//DTD XHTML 1.0 Frameset//EN", None),
    ("html", "-//W3C//DTD HTML 3.2 Final//EN", None), ("html", "-//W3C//DTD HTML 4.0 Transitional//EN", None),
    ("html", "-//IETF//DTD HTML//EN", None), ("html", "-//W3O//DTD W3 HTML Strict 3.0//EN//", None),
    ("html", "-/W3C/DTD HTML 4.0 Transitional/EN", None), ("html", "HTML", None), ("html", "html", "x"),
    ("html", None, "http://www.ibm.com/data/dtd/v11/ibmxhtml1-transitional.dtd"),
    ("html", None, "HTTP://WWW.IBM.COM/data/dtd/v11/ibmxhtml1-transitional.dtd"),
    ("html", "+//Silmaril//dtd html Pro v0r11 19970101//EN", None),
    ("html", "-//WebTechs//DTD Mozilla HTML//", None), ("html", "-//WebTechs//DTD Mozilla HTML", None),
    ("html", "", ""), ("html", "", None), ("html", None, ""), ("HTML", None, None), ("foo", None, None), (None, None, None),
    ("html", "x", "y"), ("html", "-//W3C//DTD HTML 4.0//EN", "http://www.w3.org/TR/REC-html40/strict.dtd"),
]

# the 54 quirky prefixes of data.rs + the one the standard has in addition
QUIRKY_PREFIXES = """-//advasoft ltd//dtd html 3.0 aswedit + extensions//|-//as//dtd html 3.0 aswedit + extensions//|-//ietf//dtd html 2.0 level 1//|-//ietf//dtd html 2.0 level 2//|-//ietf//dtd html 2.0 strict level 1//|-//ietf//dtd html 2.0 strict level 2//|-//ietf//dtd html 2.0 strict//|-//ietf//dtd html 2.0//|-//ietf//dtd html 2.1e//|-//ietf//dtd html 3.0//|-//ietf//dtd html 3.2 final//|-//ietf//dtd html 3.2//|-//ietf//dtd html 3//|-//ietf//dtd html level 0//|-//ietf//dtd html level 1//|-//ietf//dtd html level 2//|-//ietf//dtd html level 3//|-//ietf//dtd html strict level 0//|-//ietf//dtd html strict level 1//|-//ietf//dtd html strict level 2//|-//ietf//dtd html strict level 3//|-//ietf//dtd html strict//|-//ietf//dtd html//|-//metrius//dtd metrius presentational//|-//microsoft//dtd internet explorer 2.0 html strict//|-//microsoft//dtd internet explorer 2.0 html//|-//microsoft//dtd internet explorer 2.0 tables//|-//microsoft//dtd internet explorer 3.0 html strict//|-//microsoft//dtd internet explorer 3.0 html//|-//microsoft//dtd internet explorer 3.0 tables//|-//netscape comm. corp.//dtd html//|-//netscape comm. corp.//dtd strict html//|-//o'reilly and associates//dtd html 2.0//|-//o'reilly and associates//dtd html extended 1.0//|-//o'reilly and associates//dtd html extended relaxed 1.0//|-//softquad software//dtd hotmetal pro 6.0::19990601::extensions to html 4.0//|-//softquad//dtd hotmetal pro 4.0::19971010::extensions to html 4.0//|-//spyglass//dtd html 2.0 extended//|-//sq//dtd html 2.0 hotmetal + extensions//|-//sun microsystems corp.//dtd hotjava html//|-//sun microsystems corp.//dtd hotjava strict html//|-//w3c//dtd html 3 1995-03-24//|-//w3c//dtd html 3.2 draft//|-//w3c//dtd html 3.2 final//|-//w3c//dtd html 3.2//|-//w3c//dtd html 3.2s draft//|-//w3c//dtd html 4.0 frameset//|-//w3c//dtd html 4.0 transitional//|-//w3c//dtd html experimental 19960712//|-//w3c//dtd html experimental 970421//|-//w3c//dtd w3 html//|-//w3o//dtd w3 html 3.0//|-//webtechs//dtd mozilla html 2.0//|-//webtechs//dtd mozilla html//|+//silmaril//dtd html pro v0r11 19970101//""".split("|")
assert len(QUIRKY_PREFIXES) == 55

CHAR_RUNS = [" ", "x", " x", "x ", " x y ", "\n", "\nx", "\n\n", "\n x", "\t\r\n\x0c ", "\r", "\rx", "a\nb", " ", "�"]

# ----------------------------------------------------------------------------- prefixes (token level)

def _prefixes():
    """canonical token prefixes: insertion mode -> [(label, opts, ctx, tokens)]"""
    P = {}

    def add(mode, label, toks, o="-", c="-"):
        P.setdefault(mode, []).append((label, o, c, toks))

    tmpl = [S("template")]
    tbl = [S("table")]
    add("Initial", "empty", [])
    add("Initial", "comment", [C("c")])
    add("Initial", "srcdoc", [], o=opts(srcdoc=1))
    add("Initial", "limited", [], o=opts(q="l"))
    add("BeforeHtml", "doctype", [D()])
    add("BeforeHtml", "doctype-comment", [D("html", "-//W3C//DTD HTML 4.01 Transitional//EN", None), C("c")])
    add("BeforeHead", "html", [S("html")])
    add("BeforeHead", "doctype-html", [D(), S("html", [("lang", "x")])])
    add("InHead", "head", [S("head")])
    add("InHead", "head-meta", [D(), S("html"), S("head"), S("meta"), T(" ")])
    add("InHead", "noscript-on", [S("head")], o=opts(s=1))
    add("InHeadNoscript", "noscript", [S("head"), S("noscript")], o=opts(s=0))
    add("InHeadNoscript", "noscript-link", [S("head"), S("noscript"), S("link")], o=opts(s=0))
    add("AfterHead", "after-head", [S("head"), E("head")])
    add("AfterHead", "after-head-ws", [D(), S("head"), S("title"), T("t"), E("title"), E("head"), T(" ")])
    add("AfterHead", "after-head-s0", [S("head"), E("head")], o=opts(s=0))
    # InBody with many stack shapes
    add("InBody", "body", [S("body")])
    add("InBody", "body-s0", [D(), S("body")], o=opts(s=0))
    add("InBody", "p", [S("p")])
    add("InBody", "p-span", [S("p"), S("span")])
    add("InBody", "p-button", [S("p"), S("button")])
    add("InBody", "b-i", [S("b"), S("i")])
    add("InBody", "b-p", [S("b"), S("p")])
    add("InBody", "a-b", [S("a", [("href", "x")]), S("b")])
    add("InBody", "b-closed", [S("p"), S("b"), S("i"), E("p")])
    add("InBody", "b-div-unclosed", [S("b"), S("div"), S("i"), T("x")])
    add("InBody", "nobr", [S("nobr"), T("x")])
    add("InBody", "object-marker", [S("b"), S("object"), S("i")])
    add("InBody", "select", [S("select")])
    add("InBody", "select-option", [S("select"), S("option"), T("o")])
    add("InBody", "select-optgroup-option", [S("select"), S("optgroup"), S("option")])
    add("InBody", "select-sc", [S("select"), S("button"), S("selectedcontent"), E("selectedcontent"), E("button"),
                               S("option", [("selected", "")]), T("A"), S("b"), T("B")])
    add("InBody", "ul-li", [S("ul"), S("li"), T("x")])
    add("InBody", "dl-dd", [S("dl"), S("dd"), S("div")])
    add("InBody", "li-p", [S("li"), S("p")])
    add("InBody", "h1", [S("h1")])
    add("InBody", "form", [S("form"), S("div")])
    add("InBody", "form-closed", [S("form"), E("form")])
    add("InBody", "ruby-rb", [S("ruby"), S("rb")])
    add("InBody", "ruby-rtc-rt", [S("ruby"), S("rtc"), S("rt")])
    add("InBody", "button", [S("button"), S("p")])
    add("InBody", "pre-lf", [S("pre")])
    add("InBody", "frameset-ok", [S("div")])
    add("InBody", "isindex", [S("x"), S("isindex")])
    add("InBody", "in-template", tmpl + [S("div")])
    add("InBody", "in-template-p", [S("body")] + tmpl + [S("p"), S("b")])
    add("InBody", "applet-p", [S("p"), S("applet"), S("p")])
    add("InBody", "quirks-p", [S("p")], o=opts(q="q"))
    add("InBody", "td-div", tbl + [S("td"), S("div"), S("b")])
    add("InBody", "caption-div", tbl + [S("caption"), S("div")])
    # InBody with foreign ancestors / integration points
    add("Foreign", "svg", [S("svg")])
    add("Foreign", "svg-g-path", [S("svg"), S("g"), S("path")])
    add("Foreign", "svg-foreignobject", [S("svg"), S("foreignobject")])
    add("Foreign", "svg-desc-b", [S("p"), S("svg"), S("desc"), S("b")])
    add("Foreign", "svg-title", [S("div"), S("svg"), S("title")])
    add("Foreign", "math", [S("math")])
    add("Foreign", "math-mi", [S("math"), S("mi")])
    add("Foreign", "math-mtext-b", [S("math"), S("mtext"), S("b")])
    add("Foreign", "math-ax-html", [S("math"), S("annotation-xml", [("encoding", "text/html")])])
    add("Foreign", "math-ax-plain", [S("math"), S("annotation-xml")])
    add("Foreign", "math-ax-html-svg", [S("math"), S("annotation-xml", [("encoding", "Text/Html")]), S("svg")])
    add("Foreign", "table-svg", tbl + [S("svg")])
    add("Foreign", "template-math-mo", tmpl + [S("math"), S("mo")])
    add("Foreign", "select-svg", [S("select"), S("svg")])
    add("Foreign", "b-svg", [S("b"), S("i"), S("svg"), S("g")])
    # Text
    add("Text", "title", [S("head"), S("title")])
    add("Text", "title-text", [S("title"), T("t")])
    add("Text", "textarea", [S("textarea")])
    add("Text", "script-head", [S("head"), S("script")])
    add("Text", "script-body", [S("body"), S("script"), T("x")])
    add("Text", "style-table", tbl + [S("style")])
    add("Text", "xmp", [S("p"), S("xmp")])
    add("Text", "noscript-s1", [S("body"), S("noscript")], o=opts(s=1))
    add("Text", "script-template", tmpl + [S("script")])
    add("Text", "noframes-frameset", [S("frameset"), S("noframes")])
    add("Text", "iframe", [S("iframe")])
    add("Text", "plaintext", [S("plaintext")])
    # tables
    add("InTable", "table", tbl)
    add("InTable", "p-table", [S("p")] + tbl)
    add("InTable", "p-table-quirks", [S("p")] + tbl, o=opts(q="q"))
    add("InTable", "table-tbody-closed", tbl + [S("tbody"), E("tbody")])
    add("InTable", "template-caption-closed", tmpl + [S("caption"), E("caption")])
    add("InTable", "b-table", [S("b"), S("i")] + tbl)
    add("InTable", "form-table", [S("form")] + tbl)
    add("InTable", "table-table-foster", tbl + [S("div")])
    add("InTableText", "ws", tbl + [T(" ")])
    add("InTableText", "nonws", tbl + [T("a")])
    add("InTableText", "ws-nonws", tbl + [T(" "), T("b c")])
    add("InTableText", "tbody-mixed", tbl + [S("tbody"), T(" x")])
    add("InTableText", "tr-ws", tbl + [S("tr"), T("\n")])
    add("InCaption", "caption", tbl + [S("caption")])
    add("InCaption", "caption-b", tbl + [S("caption"), S("b"), T("x")])
    add("InCaption", "caption-p", tbl + [S("caption"), S("p")])
    add("InCaption", "caption-table", tbl + [S("caption")] + tbl)
    add("InColumnGroup", "colgroup", tbl + [S("colgroup")])
    add("InColumnGroup", "col", tbl + [S("col")])
    add("InColumnGroup", "template-col", tmpl + [S("col")])
    add("InColumnGroup", "template-colgroup", tmpl + [S("colgroup")])
    add("InTableBody", "tbody", tbl + [S("tbody")])
    add("InTableBody", "thead", tbl + [S("thead")])
    add("InTableBody", "tfoot", tbl + [S("tfoot")])
    add("InTableBody", "template-tbody", tmpl + [S("tbody")])
    add("InTableBody", "template-thead", tmpl + [S("thead")])
    add("InTableBody", "template-tfoot", tmpl + [S("tfoot")])
    add("InTableBody", "tbody-tr-closed", tbl + [S("tr"), E("tr")])
    add("InRow", "tr", tbl + [S("tr")])
    add("InRow", "template-tr", tmpl + [S("tr")])
    add("InRow", "thead-tr", tbl + [S("thead"), S("tr")])
    add("InRow", "td-closed", tbl + [S("td"), E("td")])
    add("InCell", "td", tbl + [S("td")])
    add("InCell", "th", tbl + [S("tr"), S("th")])
    add("InCell", "td-b", tbl + [S("td"), S("b"), T("x")])
    add("InCell", "td-p", tbl + [S("td"), S("p")])
    add("InCell", "template-td", tmpl + [S("td")])
    add("InCell", "td-table-td", tbl + [S("td")] + tbl + [S("td")])
    add("InTemplate", "template", tmpl)
    add("InTemplate", "body-template", [S("body")] + tmpl)
    add("InTemplate", "template-template", tmpl + tmpl)
    add("InTemplate", "table-template", tbl + tmpl)
    add("InTemplate", "after-head-template", [S("head"), E("head")] + tmpl)
    add("InTemplate", "dsr-template", [S("body"), S("div"), S("template", [("shadowrootmode", "open")])])
    add("AfterBody", "after-body", [S("body"), E("body")])
    add("AfterBody", "after-body-p", [S("p"), S("b"), E("body")])
    add("AfterBody", "after-body-comment", [D(), S("body"), E("body"), C("c"), T(" ")])
    add("InFrameset", "frameset", [S("frameset")])
    add("InFrameset", "frameset-frameset", [S("frameset"), S("frameset")])
    add("InFrameset", "body-replaced", [S("body"), S("frameset")])
    add("AfterFrameset", "after-frameset", [S("frameset"), E("frameset")])
    add("AfterAfterBody", "after-after-body", [S("body"), E("body"), E("html")])
    add("AfterAfterBody", "after-after-body-text", [T("x"), E("body"), E("html")])
    add("AfterAfterFrameset", "after-after-frameset", [S("frameset"), E("frameset"), E("html")])
    return P


PREFIXES = _prefixes()

# fragment contexts: (local, ns, attrs)
CONTEXTS = ([(n, NS_HTML, ()) for n in
             ["div", "html", "head", "body", "title", "textarea", "style", "xmp", "iframe", "noembed", "noframes", "script",
              "noscript", "plaintext", "table", "tbody", "thead", "tfoot", "tr", "td", "th", "caption", "colgroup",
              "select", "template", "frameset", "p", "b", "button", "form", "option", "li", "object"]]
            + [("svg", NS_SVG, ()), ("foreignObject", NS_SVG, ()), ("desc", NS_SVG, ()), ("title", NS_SVG, ()), ("g", NS_SVG, ()),
               ("math", NS_MATHML, ()), ("mi", NS_MATHML, ()), ("mtext", NS_MATHML, ()),
               ("annotation-xml", NS_MATHML, ()), ("annotation-xml", NS_MATHML, (("encoding", "text/html"),)),
               ("title", NS_MATHML, ()), ("template", NS_SVG, ())])

SUFFIX_A = [Z]
SUFFIX_B = [T("\nA"), S("form"), S("input"), T("B"), S("i"), S("frameset"), T(" "), Z]
SUFFIX_C = [S("frameset"), T(" y"), Z]      # makes frameset_ok visible


def probes(full=True):
    """the single-step alphabet: [(label, token)]"""
    out = []
    for n in NAMES:
        out.append(("S:" + n, S(n)))
        out.append(("E:" + n, E(n)))
        out.append(("SC:" + n, S(n, sc=1)))
    for n, shapes in SPECIAL_ATTRS.items():
        for i, a in enumerate(shapes):
            out.append(("SA%d:%s" % (i, n), S(n, a)))
    out.append(("SD:b", S("b", [("id", "1")], dup=1)))
    out.append(("EA:p", E("p", [("a", "b")], sc=1)))
    for i, r in enumerate(CHAR_RUNS):
        out.append(("T%d" % i, T(r)))
    out += [("N", N), ("C", C("c")), ("C-", C("")), ("Z", Z), ("X", X()),
            ("D", D()), ("Dq", D("html", "-//W3C//DTD HTML 3.2//EN", None)), ("Dfq", D("html", None, None, 1)),
            ("Dl", D("html", "-//W3C//DTD XHTML 1.0 Transitional//EN", "x")), ("Dnone", D(None)),
            ("L2", S("div", line=2)), ("TL3", T("x", line=3))]
    return out


def single_step_cover(tier, rng):
    """every prefix × every probe × two continuations; quick tier: every probe on a rotating third
    of the prefixes (all of them within three seeds) plus every prefix on a reduced alphabet"""
    cases = []
    allp = [(m, p) for m, ps in PREFIXES.items() for p in ps]
    pr = probes()
    if tier == "quick":
        k = rng.randrange(3)
        reduced = [x for x in pr if not x[0].startswith(("S:", "E:", "SC:")) or x[0].split(":")[1] in
                   ("p", "b", "a", "table", "td", "tr", "template", "html", "body", "br", "svg", "math", "frameset", "select",
                    "title", "script", "input", "form", "li", "caption", "col", "tbody", "head", "div", "foo")]
    for i, (mode, (label, o, c, toks)) in enumerate(allp):
        if tier == "quick":
            mine = pr if i % 3 == k else reduced
        else:
            mine = pr
        for plabel, ptok in mine:
            if mode == "Text" and plabel.startswith(("S:", "SC:", "SA", "C", "N", "D")) and plabel not in ("S:p", "SC:b", "C", "N", "D"):
                continue        # the real builder panics on these (rules.rs: "impossible case in Text mode"): a few suffice
            sufs = (SUFFIX_A, SUFFIX_B, SUFFIX_C) if tier != "quick" else ((SUFFIX_B, SUFFIX_C) if ptok != Z else (SUFFIX_A,))
            for suf in sufs:
                cases.append((case_tok(toks + [ptok] + suf, o, c), "step:" + mode))
    return cases


PAIR_PROBES = ([E(n) for n in ("span", "p", "li", "dd", "dt", "h1", "b", "a", "nobr", "form", "body", "html", "div", "button",
                                 "applet", "table", "td", "tr", "select", "option", "template", "br", "ruby", "foo", "svg", "title")]
               + [S(n) for n in ("li", "dd", "p", "button", "h1", "table", "form", "a", "nobr", "option", "optgroup", "hr", "input",
                                 "select", "rb", "rt", "div", "b", "tr", "td", "caption", "col", "frameset", "body", "html",
                                 "svg", "math", "textarea", "image", "foo")]
               + [T("x"), T(" "), N, C("c"), Z])


def pair_cover(tier):
    """every tag name opened below a formatting element and a generic element (`<b><span><NAME>`), then
    every probe of a reduced alphabet: membership of NAME in the scope / special / implied-end sets"""
    cases = []
    for n1 in NAMES + SVG_CAMEL[:3]:
        for pre in ([S("b"), S("span"), S(n1)], [S("table"), S("td"), S("i"), S(n1)], [S("svg"), S(n1)], [S("math"), S(n1)]):
            if tier == "quick" and pre[0] != S("b"):
                pr = PAIR_PROBES[::5]
            else:
                pr = PAIR_PROBES
            for p in pr:
                cases.append((case_tok(pre + [p, T("y"), Z]), "pair"))
    return cases


def doctype_cover():
    cases = []
    for n, p, s in QUIRKY_IDS:
        for fq in (0, 1):
            for sd in (0, 1):
                cases.append((case_tok([D(n, p, s, fq), S("p"), Z], opts(srcdoc=sd)), "doctype"))
    for pre in QUIRKY_PREFIXES:
        for tail in ("", "EN", "x"):
            for up in (0, 1):
                pid = (pre.upper() if up else pre) + tail
                cases.append((case_tok([D("html", pid, None), Z]), "doctype"))
        cases.append((case_tok([D("html", pre[:-1], None), Z]), "doctype"))
    for dd in (0, 1):
        cases.append((case_tok([D(), D("html", "x", None), C("c"), Z], opts(dropdt=dd)), "doctype"))
    return cases


def foreign_tables_cover():
    """every row of adjust_svg_tag_name / adjust_svg_attributes / adjust_mathml_attributes /
    adjust_foreign_attributes, through enter_foreign (<svg>/<math> itself) and foreign_start_tag (a child)"""
    cases = []
    for n in SVG_CAMEL + ["g", "FOO"]:
        for pre in ([S("svg")], [S("math")], [S("svg"), S("desc")], []):
            cases.append((case_tok(pre + [S(n), T("x"), E(n), S(n, sc=1), T("y"), Z]), "foreign-tables"))
        cases.append((case_tok([S(n), Z], c=ctx("svg", NS_SVG)), "foreign-tables"))
        cases.append((case_tok([S(n), Z], c=ctx("math", NS_MATHML)), "foreign-tables"))
    for a in SVG_ATTRS + FOREIGN_ATTRS + ["x", "viewBox"]:
        for root in ("svg", "math"):
            cases.append((case_tok([S(root, [(a, "v"), ("id", "i")]), S("g", [("k", "1"), (a, "w")]), S("p", [(a, "u")]), Z]),
                          "foreign-tables"))
        cases.append((case_tok([S("g", [(a, "v")], sc=1), Z], c=ctx("svg", NS_SVG)), "foreign-tables"))
        cases.append((case_tok([S("mi", [(a, "v")]), Z], c=ctx("math", NS_MATHML)), "foreign-tables"))
        cases.append((case_tok([S("div", [(a, "v")]), Z]), "foreign-tables"))
    return cases


FORM_CE = "ce,~/$h/66 6f 72 6d,"


def form_pointer_oracle(line, out):
    """fragment parsing with a form element pointer (`new_for_fragment(.., form_elem: Some(_))`): "if the form element
    pointer is not null, and there is no template element on the stack of open elements, ignore the token" - no form
    element may be created by a form start tag unless a template was opened before it"""
    f = line.split("\t")
    if f[0] != "tb" or f[1] != "tok" or f[3] == "-" or not f[3].endswith(",1") or out is None:
        return None
    toks = f[4].split(";")
    tmpl = S("template").split("@")[0]
    ctx_is_template = f[3].startswith("~/%s/%s," % (hx(NS_HTML), hx("template")))
    if ctx_is_template or any(t.split("@")[0].startswith(tmpl[:len(tmpl) - 4]) for t in toks):
        return None
    # a </form> end tag processed before the start tag sets the pointer to null: the next <form> is then inserted
    form_end = E("form").split("@")[0]
    if any(t.startswith(form_end[:len(form_end) - 4]) for t in toks):
        return None      # (anywhere: an ignored <form>, then </form>, then <form> does create an element)
    # the harness creates the context element and the pointed-to form before the parser starts (`…;doc;` = get_document)
    if FORM_CE in out.partition(";doc;")[2]:
        return "a form element was created although the fragment parser was given a form element pointer and no template is open"
    return None


def fragment_cover(tier):
    """every context element × a small alphabet of first tokens (token level) and of texts (text level)"""
    cases = []
    first = [S("td"), S("tr"), S("tbody"), S("caption"), S("col"), S("option"), S("p"), S("b"), S("html"), S("body"),
             S("head"), S("frameset"), S("svg"), S("math"), S("template"), S("input"), S("select"), S("script"),
             S("title"), S("frame"), E("p"), E("br"), E("html"), E("body"), E("template"), E("frameset"), E("td"),
             E("table"), E("select"), T(" x"), T("\n"), N, C("c"), D(), Z, S("font", [("color", "x")]), S("g"), E("g"),
             S("mglyph"), S("foo", sc=1), S("form"), E("form")]
    texts = ["x</title>y", "<p>a<b>c</p>d", "<td>1<td>2", "</script><b>", "a&amp;b<!--c-->", "<tr><td>x", "<option>1<option>2",
             "<![CDATA[x]]>y", "<svg><![CDATA[x]]></svg>", "\nx", "<frame><frameset>", "<col><td>", "</template>z",
             "<input type=hidden><select>", "<mi>x<b>y", "<plaintext>a</plaintext>"]
    for local, ns, attrs in CONTEXTS:
        for form in (0, 1):
            c = ctx(local, ns, attrs, form)
            for s in (0, 1):
                o = opts(s=s)
                for f in first:
                    if form and f not in (S("input"), S("select"), S("p"), S("template"), Z, S("form"), E("form")):
                        continue
                    cases.append((case_tok([f, T("k"), S("input"), Z], o, c), "frag-tok"))
                    if form and f == S("p"):
                        # the form element pointer given to the fragment parser: a form start tag is ignored, unless a
                        # template is open
                        cases.append((case_tok([S("div"), S("form"), T("k"), S("input"), E("form"), Z], o, c), "frag-form"))
                        cases.append((case_tok([S("template"), S("form"), T("k"), E("form"), Z], o, c), "frag-form"))
                if form:
                    continue
                for t in texts:
                    cases.append((case_txt([t], opts(s=s, cs=s), c), "frag-txt"))
        cases.append((case_txt(["<b>x"], opts(s=0, cs=1), ctx(local, ns, attrs)), "frag-txt"))
        cases.append((case_txt(["<b>x"], opts(s=1, cs=0), ctx(local, ns, attrs)), "frag-txt"))
    return cases


# ----------------------------------------------------------------------------- stress families

FMT = ["a", "b", "i", "em", "font", "nobr", "u", "s", "big", "code", "small", "strike", "strong", "tt"]
BLOCKS = ["div", "p", "li", "td", "table", "blockquote", "button", "object", "svg", "h1", "address", "span", "template"]


def adoption_family(tier, rng):
    """adoption agency: depth of formatting elements × furthest-block position × markers × end tag"""
    cases = []
    depths = range(0, 6) if tier == "quick" else range(0, 11)
    for d in depths:
        for blockpos in range(0, d + 2):
            for block in (["div"], ["p"], ["div", "span"], ["object"], ["table", "td"], ["button"], []):
                toks = []
                names = [FMT[i % len(FMT)] for i in range(d)]
                for i, n in enumerate(names):
                    if i == blockpos:
                        toks += [S(b) for b in block]
                    toks.append(S(n, [("k", str(i))] if i % 2 else []))
                if blockpos >= d:
                    toks += [S(b) for b in block]
                toks.append(T("x"))
                targets = names[:3] + (["a"] if "a" not in names[:3] else []) if names else ["b"]
                for t in set(targets):
                    cases.append((case_tok(toks + [E(t), T("y"), E(t), T("z"), Z]), "adoption"))
    # the classic mis-nesting shapes, text level, all short permutations over a small alphabet
    alpha = ["<b>", "<i>", "<a>", "<p>", "<div>", "</b>", "</i>", "</a>", "</p>", "x", "<table>", "<td>", "</table>", "<nobr>", "</nobr>"]
    n = 3 if tier == "quick" else 4
    import itertools
    for combo in itertools.product(range(len(alpha)), repeat=n):
        if tier == "quick" and rng.random() > 0.35:
            continue
        s = "".join(alpha[i] for i in combo)
        cases.append((case_txt(["<b><i>" + s + "y"]), "adoption-txt"))
    # inner loop counter > 3 and outer loop 8
    for k in (1, 2, 3, 4, 5, 8, 9, 10):
        toks = [S("a")] + [S("b", [("n", str(i))]) for i in range(k)] + [S("div")] + [S("i")] * 2 + [T("x"), E("a"), T("y"), Z]
        cases.append((case_tok(toks), "adoption"))
        toks = [S("b")] + [S("div"), S("b")] * k + [T("x")] + [E("b")] * (k + 1) + [T("y"), Z]
        cases.append((case_tok(toks), "adoption"))
        # one end tag, k special elements below the formatting element: k+1 iterations of the outer loop (limit 8)
        for blk in ("div", "p", "li"):
            toks = [S("b")] + [S(blk, [("n", str(i))]) for i in range(k)] + [T("x"), E("b"), T("y"), S("i"), T("z"), Z]
            cases.append((case_tok(toks), "adoption"))
            toks = [S("i"), S("a")] + [S(blk)] * k + [T("x"), S("a"), T("y"), Z]
            cases.append((case_tok(toks), "adoption"))
        # one end tag, k formatting elements of that name above one furthest block
        for blk in ("div", "p", "button"):
            toks = [S("b", [("n", str(i))]) for i in range(k)] + [S(blk), T("x"), E("b"), T("y"), S("i"), T("z"), Z]
            cases.append((case_tok(toks), "adoption"))
            toks = [S("nobr", [("n", str(i))]) for i in range(k)] + [S(blk), T("x"), S("nobr"), T("y"), Z]
            cases.append((case_tok(toks), "adoption"))
    return cases


def noahs_ark_family(tier):
    cases = []
    attrsets = [[], [("a", "1")], [("a", "1"), ("b", "2")], [("b", "2"), ("a", "1")], [("a", "2")]]
    for n in range(1, 6):
        for a1 in attrsets:
            for a2 in attrsets[:4]:
                for marker in (None, "object", "td"):
                    toks = []
                    for i in range(n):
                        toks.append(S("b", a1))
                        if marker and i == 1:
                            toks += ([S("table"), S("td")] if marker == "td" else [S(marker)])
                    toks += [S("b", a2), S("i"), T("x"), E("p"), S("p"), T("y"), Z]
                    cases.append((case_tok(toks), "noah"))
    # Noah's ark compares tag name, namespace and attributes - nothing else of the token: formatting start tags that
    # differ only in the duplicate-attribute flag (written `<b x x>`) or the self-closing flag (`<b x/>`) are the same entry
    for mix in ((0, 0, 1, 0), (1, 0, 0, 0), (0, 1, 1, 0), (1, 1, 1, 1), (0, 0, 0, 1), (0, 0, 0, 0)):
        for flag in ("dup", "sc"):
            toks = [S("p")]
            for m in mix:
                toks.append(S("b", [("x", "")], dup=(1 if m and flag == "dup" else 0), sc=(1 if m and flag == "sc" else 0)))
            toks += [E("p"), T("y"), Z]
            cases.append((case_tok(toks), "noah"))
        txt = "<p>" + "".join("<b x x>" if m else "<b x>" for m in mix) + "</p>y"
        cases.append((case_txt([txt]), "noah"))
        cases.append((case_txt([txt.replace("<b x x>", "<b x/>")]), "noah"))
        cases.append((case_txt([txt.replace("<b x x>", "<b X=''>").replace("<b x>", "<b x=\"\">")]), "noah"))
    for n in range(2, 6):
        cases.append((case_txt(["<p>" + "<b>" * n + "x</p>" + "<b>" * n + "y<p>z"]), "noah"))
        cases.append((case_txt(["<p>" + "<font size=1>" * n + "x</p><font size=1>y<p>z"]), "noah"))
    return cases


def foster_family(tier, rng):
    cases = []
    tctx = [["table"], ["table", "tbody"], ["table", "tr"], ["table", "tbody", "tr"], ["template", "table"], ["div", "table"],
            ["table", "caption", "table"], ["table", "td", "table"], ["b", "table"], ["table", "colgroup"]]
    stuff = [[T("x")], [T(" ")], [T(" "), T("x")], [S("b"), T("x")], [S("p"), T("x"), E("p")], [S("input")],
             [S("input", [("type", "hidden")])], [S("form"), S("input")], [C("c")], [S("div"), S("table"), T("y")],
             [S("a"), T("1"), S("tr"), S("a"), T("2")], [S("svg"), T("s")], [S("select"), S("option")], [N], [T("x"), N, T("y")],
             [S("b"), E("table"), T("z")], [S("script"), T("s"), E("script")], [S("template"), T("t")], [S("style"), T("s"), E("style")],
             [T("a"), S("td"), T("b"), E("td"), T("c")], [S("li"), T("x"), S("li")], [S("nobr"), S("nobr"), T("x")]]
    for c in tctx:
        for s in stuff:
            cases.append((case_tok([S(x) for x in c] + s + [E("table"), T("e"), Z]), "foster"))
            cases.append((case_tok([T("pre")] + [S(x) for x in c] + s + [Z]), "foster"))
    return cases


# ----------------------------------------------------------------------------- random documents

R_TAGS = ["p", "div", "b", "i", "a", "span", "table", "tr", "td", "th", "tbody", "caption", "colgroup", "col", "select",
          "option", "optgroup", "ul", "li", "dl", "dd", "dt", "h1", "h2", "form", "input", "button", "textarea", "title",
          "script", "style", "template", "svg", "math", "mi", "mtext", "annotation-xml", "foreignObject", "desc", "g",
          "head", "body", "html", "frameset", "frame", "noframes", "noscript", "br", "hr", "img", "pre", "listing",
          "object", "marquee", "applet", "nobr", "font", "em", "strong", "ruby", "rb", "rt", "rtc", "rp", "xmp", "iframe",
          "plaintext", "image", "meta", "link", "base", "main", "section", "details", "summary", "dialog", "search", "menu",
          "address", "center", "selectedcontent", "isindex", "keygen", "foo"]
R_ATTRS = ["", " id=a", " class='x y'", " type=hidden", " color=red", " encoding=text/html", " href=#", " selected",
           " shadowrootmode=open", " form=f", " charset=utf-8", " xlink:href=a xmlns=b", " a=1 a=2"]
R_TEXT = ["x", " ", "\n", "a b", "&amp;", "\r\n", "\0", "é", "<", "]]>", "  \n  ", "z\ty"]


def random_html(rng, size):
    out = []
    open_ = []
    for _ in range(size):
        r = rng.random()
        if r < 0.42:
            t = rng.choice(R_TAGS)
            out.append("<%s%s%s>" % (t, rng.choice(R_ATTRS) if rng.random() < 0.3 else "", "/" if rng.random() < 0.06 else ""))
            open_.append(t)
        elif r < 0.68:
            if open_ and rng.random() < 0.7:
                t = open_.pop(rng.randrange(max(0, len(open_) - 3), len(open_)))
            else:
                t = rng.choice(R_TAGS)
            out.append("</%s>" % t)
        elif r < 0.9:
            out.append(rng.choice(R_TEXT))
        elif r < 0.95:
            out.append("<!--%s-->" % rng.choice(["", "c", "-", "<p>"]))
        elif r < 0.97:
            out.append(rng.choice(["<!DOCTYPE html>", "<!doctype html PUBLIC '-//W3C//DTD HTML 4.01 Transitional//EN'>", "<!DOCTYPE x>"]))
        else:
            out.append(rng.choice(["<![CDATA[c]]>", "<svg><![CDATA[d]]>", "</br>", "</p>", "<a><table><a>", "<b><p></b>"]))
    return "".join(out)


def random_chunking(rng, s):
    if not s or rng.random() < 0.4:
        return [s]
    k = rng.randint(1, min(4, len(s)))
    cuts = sorted(rng.sample(range(1, len(s)), min(k, len(s) - 1))) if len(s) > 1 else []
    parts, prev = [], 0
    for c in cuts:
        parts.append(s[prev:c])
        prev = c
    parts.append(s[prev:])
    return parts


def random_docs(rng, n, frag_ratio=0.2):
    cases = []
    for _ in range(n):
        s = random_html(rng, rng.randint(1, 24))
        if rng.random() < 0.5:
            s = rng.choice(["<!DOCTYPE html>", "<html><head>", "<body>", "<table>", "<select>", "<svg>", "<template>", "<frameset>"]) + s
        o = opts(s=rng.randint(0, 1), srcdoc=1 if rng.random() < 0.1 else 0, q=rng.choice("nnnlq"))
        c = "-"
        if rng.random() < frag_ratio:
            local, ns, attrs = rng.choice(CONTEXTS)
            c = ctx(local, ns, attrs)
        cases.append((case_txt(random_chunking(rng, s), o, c), "random-txt"))
    return cases


def random_token_runs(rng, n):
    """random token sequences (not necessarily producible by the tokenizer: text tokens with mixed
    whitespace, NUL tokens, parse-error tokens between any two tokens, doctypes anywhere)"""
    cases = []
    for _ in range(n):
        toks = []
        raw_ok = True
        for _ in range(rng.randint(1, 16)):
            r = rng.random()
            if r < 0.45:
                name = rng.choice(R_TAGS)
                if name in ("title", "textarea", "script", "style", "xmp", "iframe", "noframes", "noembed", "plaintext", "noscript"):
                    # keep the stream well-formed: raw-text elements get text and their end tag
                    toks += [S(name), T(rng.choice(["x", "\nx", " "])), E(name)]
                else:
                    toks.append(S(name, rng.choice([[], [("type", "hidden")], [("a", "1")], [("color", "c")]]),
                                  sc=1 if rng.random() < 0.08 else 0))
            elif r < 0.7:
                toks.append(E(rng.choice(R_TAGS)))
            elif r < 0.88:
                toks.append(T(rng.choice(CHAR_RUNS + ["ab", " \n x"])))
            elif r < 0.91:
                toks.append(N)
            elif r < 0.94:
                toks.append(C("c"))
            elif r < 0.97:
                toks.append(X())
            else:
                toks.append(D(*rng.choice(QUIRKY_IDS[:6])))
        toks.append(Z)
        o = opts(s=rng.randint(0, 1), q=rng.choice("nnq"))
        c = "-"
        if rng.random() < 0.15:
            local, ns, attrs = rng.choice(CONTEXTS)
            c = ctx(local, ns, attrs, form=rng.randint(0, 1))
        cases.append((case_tok(toks, o, c), "random-tok"))
    return cases


# ----------------------------------------------------------------------------- text families shared by C02 / C06 / C04

def foreign_named_texts():
    """elements in the SVG / MathML namespace whose LOCAL name means something to the HTML rules (scope checks, implied end
    tags, reset the insertion mode, table structure, formatting), with HTML content continuing inside an integration point
    below them; returns (text, ctx-or-None)"""
    names = ["tr", "td", "th", "tbody", "thead", "tfoot", "caption", "colgroup", "col", "select", "option", "optgroup", "button",
             "a", "form", "frameset", "template", "html", "applet", "marquee", "object", "address", "li", "p", "dd", "table", "body",
             "h1", "b", "nobr", "rt", "title"]
    ips = [("svg", "<desc>"), ("svg", "<foreignObject>"), ("math", "<mtext>"), ("math", "<annotation-xml encoding=text/html>")]
    bodies = ["<p>x", "x", "<template></template><td>x", "<table></table><tr>x", "<b>x", "<li>x<button>y", "<td>x"]
    closers = ["</%s>", "<%s>", "</p></%s>", "</svg></%s>", "<tr></%s>", ""]
    pres = ["", "<table>", "<table><tr>", "<template>", "<template><td>a</td>", "<p>", "<button>", "<ul><li>", "<a>", "<select>"]
    out = []
    for n in names:
        for root, ip in ips:
            for b in bodies:
                for c in closers:
                    for pre in pres:
                        out.append((pre + "<%s><%s>" % (root, n) + ip + b + (c % n if "%s" in c else c) + "t", None))
    for cx in ("tr", "tbody", "table", "td", "select", "template", "caption", "colgroup", "body", "p", "button"):
        for n in names[:16]:
            for root, ip in ips[:3:2]:
                for c in ("</%s>" % n, "<%s>" % n, "</%s>z<%s>" % (n, cx)):
                    out.append(("<%s><%s>" % (root, n) + ip + "<p>x" + c + "t", (NS_HTML, cx)))
    return out


def cdata_edge_texts():
    """CDATA sections (allowed only when the adjusted current node is foreign) that are empty, end at EOF, or consist of
    brackets: the tokenizer flushes `temp_buf` even when it is empty"""
    bodies = ["", "]", "]]", "]]]", "x", "x]", "]x", "]]x", "\n", "\0", " ", ">", "]>", "<", "&amp;", "\r\n"]
    ends = ["]]>", "]]>y", "]]><g>", "]]></svg>z", "", "]", "]]", "]]>\n", "]]><![CDATA[]]>", "]]><!--c-->"]
    pres = ["<svg>", "<svg>a", "<math>", "<math><mi>", "<svg><g>", "<svg><desc>", "<svg><foreignObject>", "<p><svg>", "<table><svg>",
            "<svg><title>", "<math><annotation-xml>", "<math><annotation-xml encoding=text/html>", "<div>", "<svg><g></g>",
            "<select><svg>", "<pre><svg>", "<pre>\n<svg>", "<textarea><svg>", "<svg><!--c-->"]
    return [p_ + "<![CDATA[" + b + e for p_ in pres for b in bodies for e in ends]


def deep_family(tier, big=False):
    """size only: stacks, lists and loop counters past 2^8 entries (a counter narrowed to u8, a cap on a list, a depth limit)
    -> (text, None)"""
    out = []
    ns = (254, 255, 256, 259, 300) if tier == "quick" else (253, 254, 255, 256, 257, 258, 259, 260, 300, 511, 512, 515, 1030)
    for n in ns:
        bs = "".join("<b id=%d>" % i for i in range(1, n + 1))
        out.append(("<!DOCTYPE html><body><a>" + bs + "<div>x</a>y", None))                 # adoption agency inner loop
        out.append(("<a>" + "<i>" * n + "<p>x</a>y</i>z", None))
        out.append(("<b>" * n + "<p>x" + "</b>" * 3 + "y", None))                            # reconstruct many entries
        out.append(("".join("<b class=%d>" % (i % 5) for i in range(n)) + "x</p>y", None))   # Noah's ark over a long list
        out.append(("<div>" * n + "<p>x" + "</div>" * (n - 1) + "y", None))
        out.append(("<table><tr><td>" * n + "x" + "</table>" * (n // 2) + "y", None))
        out.append(("<svg>" + "<g>" * n + "<p>x", None))                                      # foreign break-out over a deep stack
        out.append(("<ul>" + "<li><span>" * n + "<li>x", None))                               # li walks the whole stack
        out.append(("<select>" + "<option>" * n + "</select>x", None))
        out.append(("<template>" * n + "x" + "</template>" * (n - 3) + "<td>y", None))        # template mode stack
        out.append(("<p " + " ".join("a%d=%d" % (i, i) for i in range(n)) + " a1=z>x<html " +
                    " ".join("h%d=%d" % (i, i) for i in range(n)) + ">", None))                # attribute lists
    for pre in (("", "a") if big else ()):
        big = pre + "é" * 33000
        out.append((big, None))
        out.append(("<!DOCTYPE html><body></body>" + big, None))
        out.append(("<table><b>" + big + "</table>", None))
        out.append(("<svg><title>" + big + "</title><![CDATA[" + big + "]]>", None))
    return out


def fix_families():
    """families around the four defects repaired after the independent-spec proof (known_findings F38-F41);
    returns (text, ctx-or-None) with ctx = (ns, local)"""
    NS_SVG = "http://www.w3.org/2000/svg"
    NS_MML = "http://www.w3.org/1998/Math/MathML"
    out = []
    # F38: a DOCTYPE (any shape) between table text pieces, in every table-ish position
    for pre in ("<table>", "<table><tbody>", "<table><tr>", "<table><thead>", "<template><table>", "<div><table><tr>"):
        for a in (" ", "x", " y", "\n\t", ""):
            for dt in ("<!DOCTYPE html>", "<!doctype a PUBLIC 'p' 's'>", "<!DOCTYPE>"):
                for b in ("x", " ", "", "z w"):
                    for post in ("</table>", "<tr><td>c", "", "<!--k-->"):
                        out.append((pre + a + dt + b + post, None))
    # F39: characters in a table mode while the current node is a template
    for pre in ("<template><tr></tr>", "<template><tbody></tbody>", "<template><tr><b></tr>", "<template><tbody><tr></tr></tbody>",
                "<template><thead></thead>", "<template><tr><td></td></tr>", "<b><template><tr></tr>"):
        for t in (" ", "x", " x ", "\n", "a b", ""):
            for post in ("", "<tr>", "<b>y", "</template>z", "<!--c-->", " <td>w"):
                out.append((pre + t + post, None))
    # F40: unmatched end tags in foreign content of fragments whose context element is foreign
    ends = ["b", "i", "p", "br", "div", "body", "html", "g", "svg", "a", "nobr", "table", "template", "title", "x"]
    for ns, cx in ((NS_SVG, "svg"), (NS_SVG, "g"), (NS_MML, "math"), (NS_MML, "mrow"), (NS_SVG, "path")):
        for pre in ("", "<g>", "<g><path>", "<p><b></p><g>", "<b><i></b><mi>", "<a><svg>", "x<g>"):
            for e in ends:
                for post in ("<i>", "y", ""):
                    out.append((pre + "</%s>" % e + post, (ns, cx)))
    # F41: start tags the 2025 select rules treat specially, in fragments with a select / option / optgroup context
    for cx in ("select", "option", "optgroup", "div"):
        for tag in ("<input>", "<input type=hidden>", "<select>", "<hr>", "<option>", "<optgroup>", "<keygen>", "<textarea>",
                    "<button>", "<p>"):
            for post in ("x", "", "<b>y"):
                out.append((tag + post, (NS_HTML, cx)))
                out.append(("a" + tag + post, (NS_HTML, cx)))
    return out
