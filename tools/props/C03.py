"""C03 — output is independent of how the input is chunked, paused and resumed (tokenizer level)."""
from props import tokcommon as tc

PROP = "C03"
ENGINE = "tok"
USES_TRANSLATOR = True
LEAN_TARGETS = ["H5V.Props.C03", "H5V.Props.C03End", "H5V.Props.C03Tree", "H5V.Props.C03Joint"]
AUDIT_IMPORTS = ["H5V.Props.C03End", "H5V.Props.C03Joint"]
THEOREMS = ["H5V.Props.C03." + t for t in [
    "C03_chunk_independence", "C03_step_mono", "C03_step_resume", "C03_step_invariant", "C03_bom_once",
    "C03_runsTo_deterministic", "runP_sound", "runP_complete", "good_initial",
    "C03_finish_sim", "C03_chunked_then_end", "run_sim", "eofLoop_setCC",
    # tree level (Props/C03Tree.lean): the tree-builder model is insensitive to how character runs are cut into tokens
    "C03_tb_sim_fields", "C03_tb_sim_equiv", "C03_tb_good_init", "C03_tb_good_preserved", "C03_tb_char_split",
    "C03_tb_sim_step", "C03_tb_sim_end", "C03_tb_chars_continue", "C03_tree_resplit_run", "C03_tree_resplit",
    "C03_tree_resplit_fragment", "C03_tree_resplit_end", "C03_tree_obs", "C03_tree_obs_fragment",
    "C03_resplit_of_merge_eq", "C03_tree_merge_obs",
    # the joint model - tokenizer with the tree builder as its sink (Props/C03Joint.lean): any chunk list then end() ends in
    # the same joint state (whole tree-builder state, DOM, answers) as the concatenation in one piece
    "start_fresh", "C03_joint_chunk_independence", "C03_joint_chunk_independence_fresh", "C03_joint_chunk_obs",
    "C03_joint_is_replay", "C03_joint_tree_end_to_end"]] + [
    "H5V.Model.HtmlTok." + t for t in ["session_flatten", "runsTo_chunk", "step_sim", "transSet_dead", "transChar_enter"]]
TRUSTED = [
    "Lean 4 kernel; axioms ⊆ {propext, Classical.choice, Quot.sound} (audited per run)",
    "hand-written model lean/H5V/Model/HtmlTok.lean of html5ever/src/tokenizer/{mod.rs,char_ref/mod.rs}; tied by the "
    "`tok` correspondence (harness/src/engines/tok.rs vs h5vdriver) on every case of this run, chunked cases included",
    "the unread input is modelled as one flat list (BufferQueue partition-blindness is C13); bulk reads are modelled "
    "one character at a time and compared after merging adjacent character tokens",
    "tools/extract.py regenerates the per-state small_char_set tables (Gen.TokSets) consulted by the model's side conditions",
]
ASSUMPTIONS = [
    "C03_joint_chunk_independence is one-directional like C03_chunk_independence (a successful chunked parse implies the "
    "same result in one piece); the model's tokenizer emits text one character per token - what the real tokenizer's "
    "run boundaries can change is covered by C03_tree_merge_obs / C03_joint_tree_end_to_end (any re-splitting of character "
    "tokens gives the same DOM, quirks mode and answers)",
    "tree-builder parse errors (sink.parse_error calls) legitimately depend on how character runs are cut; they are not "
    "part of the observation",
]
RULE = ("every input of the exhaustive tokenizer cover (73 states × 41 character classes × 6 suffixes, look-ahead keyword "
        "families, state × ordered pairs) is fed whole, in every 2-partition and as singletons; script/indicator pauses "
        "with and without injected text; seeded tag soup under random partitions. Oracle (code vs code): tokens, parse "
        "errors, line numbers and pause positions of every chunked run equal the one-piece run; an injection at a pause "
        "equals the same text written inline. non-trivial = chunked case whose boundary falls strictly inside the input; "
        "distinct = distinct (case, output)")
EXPLANATION = ("C03_chunk_independence is proved for all inputs/partitions/policies/options by step monotonicity + "
               "resumability + an invariant; the enumeration ties model to code and decides the property on the real code "
               "for every boundary position of the cover inputs")

BOUNDARY_INPUTS = [
    "<!DOCTYPE html\r\nPUBLIC 'x'\r\n'y'>", "<p>a﻿b", "﻿x", "﻿﻿x", "<a b=\r\n\r\"x\r\ny\">", "<!--a\r\n-\r->b-->",
    "a&amp;b&ampc&notit;&#x41;&#65x&#;&#x;", "<a b='&amp=' c=&lt; d=\"&not;\">", "<![CDATA[x]]>y", "<!doctype a sYsTeM \"s\">",
    "<script><!--<script>x</script>--></script>y", "<title>a</title>b</ti", "<a\r\nb\r=\rc\r>", "x\r", "x\r\n", "\r\n\r\n",
    "<svg><![CDATA[a]]b]]>", "<!-", "<!d", "<!DOCTYPE a PUB", "&#13;\n", "<a b=&#10;\n>", "<p>\r\n&\r\nx",
]


def gen_cases(tier, rng):
    base = []
    for line in tc.state_cover():
        base.append((line, "cover"))
    if tier == "thorough":
        for line in tc.pair_cover():
            base.append((line, "pairs"))
    for s in BOUNDARY_INPUTS:
        for pol in ("cdata=0", "cdata=1", tc.RAW_POL):
            for exact in (0, 1):
                base.append((tc.case([s], exact=exact, pol=pol), "boundary"))
                base.append((tc.case([s], exact=exact, pol=pol, bom=0), "boundary"))
    for line in tc.crlf_run_cover():
        base.append((line, "boundary"))
    for line in tc.random_soup(rng, 400 if tier == "quick" else 20000):
        base.append((line, "soup"))
    cases = []
    for line, tag in base:
        f = tc.fields(line)
        s = f["chunks"][0]
        cases.append((line, tag + ":whole"))
        if not s:
            continue
        if tag == "soup" and len(s) > 24:
            parts = [tc.random_partition(rng, s) for _ in range(3)] + [tc.singletons(s)]
        elif tag in ("cover", "pairs") and tier == "quick" and len(s) > 3:
            # cover inputs = one state-specific character + suffix: the boundaries inside the first
            # three characters are the interesting ones; all of them in thorough
            parts = tc.partitions2(s)[:4] + [tc.singletons(s)]
        else:
            parts = tc.partitions2(s) + [tc.singletons(s)]
        for p in parts:
            cases.append((tc.with_chunks(line, p), tag + ":chunked"))
    # tree level: the real parser into RcDom (no model: tree-builder model is a separate package)
    tdocs = list(TREE_DOCS)
    for line in tc.random_soup(rng, 150 if tier == "quick" else 5000):
        tdocs.append(tc.fields(line)["chunks"][0])
    for d in tdocs:
        for ctx in ("-", "-!", "html:div", "html:table", "html:select", "html:template") if d in TREE_DOCS else ("-",):
            cases.append((_tree_case(ctx, [d]), "tree:whole"))
            for part in tc.partitions2(d) + [tc.singletons(d)]:
                cases.append((_tree_case(ctx, part), "tree:chunked"))
    # pauses and injections
    docs = ["<script>a</script>b<script>c</script>d", "x<meta>y<script>z</script>\r\nw", "<script></script>﻿q"]
    injs = ["", "X", "<b>", "﻿Y", "\nZ", "</p>&amp;"]
    for d in docs:
        for k in (0, 1):
            for inj in injs:
                injf = "%d:%s" % (k, tc.hx(inj)) if inj else "-"
                whole = tc.case([d], pol=tc.RAW_POL, inj=injf)
                cases.append((whole, "pause:whole"))
                for p in tc.partitions2(d):
                    cases.append((tc.with_chunks(whole, p), "pause:chunked"))
                # inline twin: the injected text written at the position right after the k-th pausing tag
                pos = _pause_pos(d, k)
                if pos is not None and inj:
                    cases.append((tc.case([d[:pos] + inj + d[pos:]], pol=tc.RAW_POL), "pause:inline"))
    return cases


TREE_DOCS = [
    "<table> \n oops<tr><td>x</table>", "<table>  <tbody> a <tr> b <td> c </table> d", "<table>x y<tr>z", "<table><tr> <td>",
    "<pre>\nx</pre><pre>\r\ny</pre><textarea>\n\nz</textarea><listing>\r\rq</listing>", "<pre>&#10;x</pre>", "<pre>\n\0x</pre>",
    " \n<!DOCTYPE html> \n<html> <head> <title> a </title> </head> <body> b </body> </html> c ",
    "<p>a<b>b<i>c</p>d</b>e</i>f", "<a>1<table><a>2</table>3", "<select><option>a<optgroup>b</select>c",
    "<svg><title>a</title><![CDATA[b]]>c</svg>d", "<math><mi>a</mi><annotation-xml encoding=text/html><p>b</math>",
    "<template><td>a</template><frameset></frameset>x", "x<frameset>y</frameset>", "<head></head> a <body> b",
    "<script>a<!--b</script>c--></script>d", "<style>a</style> <title>b&amp;c</title>&notit;",
    "<body>a\0b<table>c\0d</table><select>e\0f</select>", "<p>&am", "p;x", "<br/><img a=1 a=2><input type=hidden>",
    "<table><input type=hidden><input type=text>x</table>", "<ul><li>a<li>b<dd>c<dt>d</ul>e", "<h1>a<h2>b</h1>c",
    "<button>a<button>b", "<form><form>x</form>y", "<nobr>a<nobr>b", "<ruby>a<rt>b<rp>c</ruby>",
]


def _tree_case(ctx, chunks):
    return "meta\tdoc\t%s\t%s" % (ctx, "|".join(" ".join("%x" % b for b in c.encode("utf-8")) or "-" for c in chunks))


def _pause_pos(d, k):
    """offset right after the k-th tag at which RAW_POL pauses (<meta …> start tag or </script> end tag)"""
    import re
    hits = [m.end() for m in re.finditer(r"<meta>|</script>", d)]
    return hits[k] if k < len(hits) else None


def _key(line):
    if line.startswith("meta\t"):
        f = line.split("\t")
        data = "".join(x for c in f[3].split("|") for x in ([] if c == "-" else [c + " "]))
        return ("tree", f[2], data.strip())
    f = tc.fields(line)
    return (f["opts"], f["state"], f["last"], f["pol"], f["inj"], "".join(f["chunks"]))


def _toks(out):
    if out is not None and ";T=" in out or (out or "").startswith("T="):
        # tree engine: compare the trees (manual feed loop and Parser::process); the *tree builder's* parse
        # error count is not part of the property (only the tokenizer's parse errors are) and legitimately
        # depends on how character runs are split
        import re as _re
        return _re.sub(r";E=\d+", "", out)
    p = tc.parse_out(out)
    if p is None:
        return None
    toks, flog = p
    return toks, [x for x in flog.split(",") if x != "D"]


def compare(line, impl, model):
    return line.startswith("meta\t") or impl == model


def oracle(line, out):
    if line.startswith("meta\t"):
        if out is None or out.startswith(("PANIC", "ABORT", "bad-")):
            return "parser crashed: %s" % (out or "")[:200]
        a, _, b = out.partition(" ## ")
        ta = a[a.index("T="):] if "T=" in a else a
        if ta.replace(";E=", ";E=") != b:
            return "manual feed loop and Parser::process disagree on the same chunks: %s" % out[:300]
        return None
    if tc.parse_out(out) is None:
        return "implementation crashed or malformed output: %s" % (out or "")[:200]
    toks, _ = tc.parse_out(out)
    if sum(1 for k, b, l in toks if k == "EOF") != 1 or toks[-1][0] != "EOF":
        return "not exactly one EOF token, last"
    return None


def oracle_all(cases, outs):
    whole = {}
    for (line, tag), out in zip(cases, outs):
        if tag.endswith(":whole"):
            whole[_key(line)] = (line, out)
    res = []
    for (line, tag), out in zip(cases, outs):
        if tag.endswith(":chunked"):
            w = whole.get(_key(line))
            if not w:
                continue
            a, b = _toks(w[1]), _toks(out)
            if a is None or b is None:
                continue
            if a != b:
                res.append((line, "chunked run differs from the one-piece run %r: whole=%s chunked=%s"
                            % (w[0], w[1][:300], (out or "")[:300]), out))
        elif tag == "pause:inline":
            # must equal the injected whole run of the same document
            pass
    # injection == inline
    inj_out = {}
    for (line, tag), out in zip(cases, outs):
        if tag == "pause:whole":
            f = tc.fields(line)
            if f["inj"] != "-":
                k, h = f["inj"].split(":")
                d = f["chunks"][0]
                pos = _pause_pos(d, int(k))
                if pos is not None:
                    inj_out[d[:pos] + tc.unhx(h) + d[pos:]] = (line, out)
    for (line, tag), out in zip(cases, outs):
        if tag == "pause:inline":
            s = tc.fields(line)["chunks"][0]
            w = inj_out.get(s)
            if w:
                a, b = _toks(w[1]), _toks(out)
                if a is not None and b is not None and a[0] != b[0]:
                    res.append((w[0], "text injected at a script pause is tokenized differently from the same text "
                                "written inline: injected=%s inline=%s" % (w[1][:300], (out or "")[:300]), w[1]))
    return res


def nontrivial(line, out):
    if line.startswith("meta\t"):
        return "|" in line.split("\t")[3]
    f = tc.fields(line)
    ch = f["chunks"]
    return out is not None and len(ch) >= 2 and any(ch[:-1]) and any(ch[1:])
