"""C19 — encoding indicators are raised exactly for meta-declared encodings."""
import itertools
import re

PROP = "C19"
ENGINE = "meta"
LEAN_TARGETS = ["H5V.Props.C19", "H5V.Props.C19Fire", "H5V.Props.C19Decodes"]
AUDIT_IMPORTS = ["H5V.Props.C19", "H5V.Props.C19Fire", "H5V.Props.C19Decodes"]
THEOREMS = ["H5V.Props.C19." + t for t in ["C19_extract", "C19_extract_no_panic", "findLoop_spec", "outerLoop_spec",
    # the firing rule in the tree-builder model (Props/C19Fire.lean)
    "C19_in_head_meta", "C19_in_head_meta_total", "C19_charset_wins", "C19_rule_only_meta", "C19_foreign_only_meta",
    "C19_only_meta_fires", "C19_at_most_once", "C19_meta_routing", "C19_meta_foreign", "C19_meta_ignored",
    "C19_fires_in_head", "C19_silent_in_head",
    # Props/C19Decodes.lean: the extracted slice of the UTF-8 bytes of any string is cut at ASCII bytes, hence at character
    # boundaries, hence valid UTF-8 (core's String.fromUTF8? accepts it): the hypothesis MetaDecodes holds for every tag
    "C19_utf8Bytes_eq", "C19_extract_cut", "C19_extract_boundaries", "C19_label_decodes", "C19_contentLabel_some",
    "C19_contentLabel_none", "C19_extractEncoding_total", "C19_metaDecodes", "C19_in_head_meta_total'",
    "C19_fires_in_head'", "C19_silent_in_head'"]]
TRUSTED = [
    "Lean 4 kernel; axioms ⊆ {propext, Classical.choice, Quot.sound} (audited per run)",
    "H5V.Spec.MetaExtract: my transcription of the WHATWG 'algorithm for extracting a character encoding from a meta "
    "element' (raw label, no 'get an encoding' lookup — html5ever does not do it); cross-checked every run against an "
    "independent Python transcription by the oracle",
    "byte-level reading of the algorithm: all characters it inspects are ASCII and no byte of a multi-byte UTF-8 sequence "
    "is ASCII, so the slice is cut at character boundaries and decodes (proved: C19_extract_boundaries, C19_label_decodes, "
    "for core's String.utf8EncodeChar / String.fromUTF8?)",
    "hand-written model lean/H5V/Model/Meta.lean of html5ever/src/encoding.rs, tied by the `meta extract` correspondence "
    "through the real public API (Tokenizer+TreeBuilder+RcDom, label of the EncodingIndicator returned by feed)",
    "the firing rule (which start tags raise an indicator, once, element already inserted, resumption transparent) is NOT "
    "proved: it is checked by the `meta doc` oracle on the real code only (tree-builder model = another work package)",
]
ASSUMPTIONS = [
    "StrTendril::subtendril's UTF-8 boundary validation is not modelled: every cut made by encoding.rs is adjacent to an "
    "ASCII byte or an end of the string, so it cannot fail for a valid StrTendril",
    "content strings containing U+0000 cannot be observed through the tokenizer (it rewrites them) and are compared "
    "model-vs-spec only (theorem), not against the code",
]
RULE = ("families: extract-grammar (prefix × 'charset' spelling × whitespace × '=' × whitespace × value form × suffix), "
        "extract-trunc (every truncation of the grammar strings), extract-sym (all sequences of ≤ 5 symbols over "
        "{charset,=,space,tab,\",',;,x,é}); doc (insertion-mode contexts × meta/link/base/basefont/bgsound attribute "
        "variants × suffix, whole and split at every byte of a subset; fragment contexts), doc-twin (same document with "
        "charset/http-equiv neutralised, for 'resuming continues as if nothing had happened'). non-trivial = a label was "
        "extracted / an indicator fired; distinct = distinct (case, output)")
EXPLANATION = ("theorem C19_extract: model of encoding.rs = WHATWG extraction algorithm for all byte strings, no panic; "
               "firing rule checked by oracle on the real tokenizer+tree builder")


def hx(b):
    return " ".join("%x" % x for x in b) if len(b) else "-"


def unhx(s):
    s = s.strip()
    return b"" if s in ("-", "") else bytes(int(x, 16) for x in s.split(" "))


WS = b"\t\n\x0c\r "


def py_extract(s):
    """independent transcription of the WHATWG algorithm (bytes in, raw label or None out)"""
    position = 0
    low = s.lower()  # bytes.lower() is ASCII-only
    while True:
        i = low.find(b"charset", position)
        if i < 0:
            return None
        position = i + 7
        while position < len(s) and s[position] in WS:
            position += 1
        if position < len(s) and s[position] == 0x3D:
            break
        # not '=': loop again from just before that character
    position += 1
    while position < len(s) and s[position] in WS:
        position += 1
    if position >= len(s):
        return None
    q = s[position]
    if q in (0x22, 0x27):
        j = s.find(bytes([q]), position + 1)
        return None if j < 0 else s[position + 1:j]
    j = position
    while j < len(s) and s[j] not in WS and s[j] != 0x3B:
        j += 1
    return s[position:j]


# ---------------------------------------------------------------- extract cases
# incl. characters whose Unicode lower/upper-case form has a different UTF-8 length (İ U+0130, K U+212A, ẞ U+1E9E, ı, ſ)
# and multi-byte characters of every length: byte offsets found in a case-folded copy would not fit the original
PRE = ["", "text/html; ", "x", "charset ", "charse", "CHARSET\t", "é", "charsetcharset", "char set=", "\u0130stanbul; ",
       "\u0130", "\u212a;", "\u1e9e \u0130\u0130 ", "\U0001f600", "\u0131\u017f "]
WORD = ["charset", "CHARSET", "cHaRsEt", "charsex", "harset", "ſharset", "charſet"]
WS1 = ["", " ", "\t\n", "\x0c\r", "\x0b", " "]
EQ = ["=", "", ":", "=="]
WS2 = ["", " ", "\n\t"]
VAL = ["utf-8", "\"utf-8\"", "'utf-8'", "\"utf-8", "'utf-8", "\"a'b\"", "'a\"b'", "\"\"", "''", ";", "a;b", "a b", "a\tb",
       "é", "\"é\"", "", "\"a\"b\"", "=x", "'", "\"", "a\x0cb", "a\rb", "a\x0bb", "x&y", "é;"]
POST = ["", " x", ";charset=z", "\"", " charset=late"]
SYMS = ["charset", "=", " ", "\t", "\"", "'", ";", "x", "é", "\u0130", "\u212a"]


def mk_extract(s):
    return "meta\textract\t" + hx(s.encode("utf-8"))


# ---------------------------------------------------------------- doc cases
CONTEXTS = [
    "", "<!DOCTYPE html>", "<html>", "<head>", "<head><title>t</title>", "<head></head>", "<body>", "<body><p>", "<p><b>",
    "<table>", "<table><tr><td>", "<table><caption>", "<table><colgroup>", "<table><tr>", "<select>", "<select><option>",
    "<template>", "<template><table>", "<template><tr>", "<svg>", "<math>", "<svg><foreignObject>", "<svg><title>",
    "<svg><desc><p>", "<math><mi>", "<math><annotation-xml encoding='text/html'>", "<math><annotation-xml>",
    "<frameset>", "<body></body>", "<body></body></html>", "<head><noscript>", "<title>", "<textarea>", "<script>",
    "<style>", "<!--", "<head></head><frameset><frame></frameset>", "<button>", "<a><table>", "<ruby><rt>", "<dl><dd>",
    "<head><template>", "<plaintext>", "<iframe>", "<xmp>",
    "<table><tbody>", "<table><thead><tr><th>", "<table><tr><td><select>", "<table><select>", "<table><caption><select>",
    "<frameset></frameset>", "<frameset></frameset></html>", "<body></body></html><!-- c -->", "<html><!-- c -->",
    "<head><meta name=a>", "<head><base href=y><link rel=z>", "<body><svg></svg>", "<svg><g>", "<svg><foreignObject><svg>",
    "<svg><desc>", "<math><mtext>", "<math><mo><b>", "<math><annotation-xml encoding='application/xhtml+xml'>",
    "<math><annotation-xml encoding=x><svg>", "<template><template>", "<template><colgroup>", "<template><td>",
    "<template><select>", "<template><svg>", "<div><template><p>", "<select><optgroup><option>", "<select><hr>",
    "<select><button><selectedcontent>", "<object><param>", "<ul><li><ul><li>", "<nobr><table><nobr>", "<b><i><p></b>",
    "<form><input>", "<details><summary>", "<noembed>", "<noframes>", "<head><style>a</style>", "<head><script></script>",
    "<body><noscript>", "<marquee>", "<applet>", "<h1><h2>", "<pre>\n", "<listing>", "<caption>", "<td>", "<option>",
]
# the same with scripting switched off (noscript content is markup): "in head noscript"
CONTEXTS_NOSCRIPT = ["<head><noscript>", "<noscript>", "<body><noscript>", "<head><noscript><link rel=x>", "<head><noscript></noscript>"]
FRAG_CTX = ["html:select", "html:template", "svg:svg", "math:math", "html:head", "html:title", "html:table", "html:body",
            "html:html", "svg:foreignObject", "math:mi", "html:tr", "html:noscript", "html:noscript!", "html:td", "html:tbody",
            "html:colgroup", "html:caption", "html:frameset", "html:textarea", "html:script", "html:style", "html:plaintext",
            "html:option", "html:optgroup", "svg:title", "svg:desc", "svg:g", "math:annotation-xml", "math:mtext", "html:div",
            "html:meta", "html:link", "html:iframe", "html:xmp"]
# (markup, kind) — L stands for the label
VARIANTS = [
    "<meta charset={L}>", "<meta charset=\"{L}\">", "<META CHARSET={L}>", "<meta charset={L} charset={M}>", "<meta charset>",
    "<meta charset=''>", "<meta charset={L}/>", "<meta name=x charset={L}>", "<meta charset = {L} >",
    "<meta http-equiv=content-type content=\"text/html; charset={L}\">",
    "<meta http-equiv=Content-Type content='charset={L}'>", "<meta content=\"charset={L}\" http-equiv=CONTENT-TYPE>",
    "<meta http-equiv=refresh content=\"charset={L}\">", "<meta http-equiv=content-type content=\"text/html\">",
    "<meta http-equiv=content-type content=\"charset='{L}\">", "<meta http-equiv=content-type>",
    "<meta content=\"charset={L}\">", "<meta charset={L} http-equiv=content-type content=\"charset={M}\">",
    "<meta http-equiv=\"content-type \" content=\"charset={L}\">", "<meta http-equiv=content-type content=\"charset = '{L}' x\">",
    "<meta http-equiv=content-type http-equiv=x content=\"charset={L}\" content=\"charset={M}\">",
    "<meta http-equiv=x http-equiv=content-type content=\"charset={L}\">",
    "<meta http-equiv=content-type content=\"charset=;\">", "<meta http-equiv=content-type content=\"charset charset={L};q\">",
    "<meta xml:charset={L}>", "<meta charset={L}><meta charset={M}>", "<meta http-equiv=cont&#101;nt-type content=charset&#61;{L}>",
    "</meta charset={L}>", "<meta>", "<meta charset={L}></meta>", "<meta/>", "<meta charset={L}>x</meta>",
    "<meta CharSet={L} CHARSET={M}>", "<meta charset=\"{L}\"charset=\"{M}\">", "<meta charset={L}\ncontent=x>",
    "<meta http-equiv=content-type content=\"charset={L}\" charset>", "<meta charset={L} charset={M} charset=z>",
    "<meta HTTP-EQUIV=CONTENT-TYPE CONTENT=\"CHARSET={L}\">", "<meta http-equiv=content-type content=charset={L}>",
    "<meta http-equiv=content-type content=\" charset = {L} ; x\">", "<meta http-equiv=content-typé content=\"charset={L}\">",
    "<meta http-equiv=ſontent-type content=\"charset={L}\">", "<meta http-equiv=content-type content=\"ſharset={L}\">",
    "<meta charset={L}><p><meta http-equiv=content-type content=\"charset={M}\">",
    "<meta charset={L}><link charset=z><meta charset={M}>",
    "<link charset={L}>", "<base charset={L}>", "<basefont charset={L}>", "<bgsound charset={L}>",
    "<link http-equiv=content-type content=\"charset={L}\">", "<base href=x>", "<link rel=x>",
    "<metax charset={L}>", "<title charset={L}>", "<p charset={L}>",
]
SUFFIX = ["", "x", "<p>y", "﻿z", "\r\nq", "<meta charset=Nq3>"]


def mk_doc(ctx, chunks):
    return "meta\tdoc\t%s\t%s" % (ctx, "|".join(hx(c) for c in chunks))


def _swap_last(m, lo, up):
    t = m.group(0)
    return t[:-1] + (up if t[-1:].isupper() else lo)


def neutral(b):
    """rename every (ASCII case-insensitive) `charset` → `charsex`, `http-equiv` → `http-equix`, keeping the case"""
    b = re.sub(rb"(?i)charset", lambda m: _swap_last(m, b"x", b"X"), b)
    return re.sub(rb"(?i)http-equiv", lambda m: _swap_last(m, b"x", b"X"), b)


def unneutral(t):
    t = re.sub(r"(?i)charsex", lambda m: _swap_last(m, "t", "T"), t)
    return re.sub(r"(?i)http-equix", lambda m: _swap_last(m, "v", "V"), t)


def utf8_splits(b):
    return [i for i in range(1, len(b)) if (b[i] & 0xC0) != 0x80]


def gen_cases(tier, rng):
    thorough = tier == "thorough"
    cases = []
    # ---- extract: grammar
    for pre, w, w1, eq, w2, v, post in itertools.product(PRE, WORD, WS1, EQ, WS2, VAL, POST):
        if not thorough and (pre not in ("", "text/html; ", "charset ", "\u0130stanbul; ", "\u0130") and post != "") :
            continue
        cases.append((mk_extract(pre + w + w1 + eq + w2 + v + post), "extract-grammar"))
    # ---- extract: every truncation
    for w, w1, eq, w2, v in itertools.product(WORD[:3], WS1[:4], EQ[:2], WS2[:2], VAL):
        s = "a;" + w + w1 + eq + w2 + v + " z"
        for i in range(len(s) + 1):
            cases.append((mk_extract(s[:i]), "extract-trunc"))
    # ---- extract: all short symbol sequences
    for n in range(0, 6 if not thorough else 7):
        for t in itertools.product(SYMS, repeat=n):
            cases.append((mk_extract("".join(t)), "extract-sym"))
    # ---- extract: random
    for _ in range(2000 if not thorough else 200000):
        s = "".join(rng.choice(SYMS + ["CHARSET", "\n", "\r", "\x0c", "utf-8", "charse", "t", "==", "\"x\"", "'y'"])
                    for _ in range(rng.randint(1, 10)))
        cases.append((mk_extract(s), "extract-random"))
    # ---- doc
    docs = []
    for ctx in CONTEXTS:
        for var in VARIANTS:
            for suf in SUFFIX:
                if not thorough and suf not in ("", "x", "﻿z") and var not in VARIANTS[:2] + ["<link charset={L}>"]:
                    continue
                d = (ctx + var.replace("{L}", "Lq1").replace("{M}", "Mq2") + suf).encode("utf-8")
                docs.append(("-", d, var))
    for ctx in CONTEXTS_NOSCRIPT:
        for var in VARIANTS:
            d = (ctx + var.replace("{L}", "Lq1").replace("{M}", "Mq2") + "x").encode("utf-8")
            docs.append(("-!", d, var))
    for fc in FRAG_CTX:
        for var in VARIANTS:
            for pre in ("", "<p>", "<svg>", "<option>"):
                d = (pre + var.replace("{L}", "Lq1").replace("{M}", "Mq2") + "x").encode("utf-8")
                docs.append((fc, d, var))
    split_vars = set(VARIANTS[:2] + ["<meta http-equiv=content-type content=\"text/html; charset={L}\">",
                                     "<link charset={L}>", "<meta charset={L}><meta charset={M}>"])
    for ctx, d, var in docs:
        cases.append((mk_doc(ctx, [d]), "doc"))
        cases.append((mk_doc(ctx, [neutral(d)]), "doc-twin"))
        if thorough or (var in split_vars and len(d) < 70):
            for i in utf8_splits(d):
                cases.append((mk_doc(ctx, [d[:i], d[i:]]), "doc-split"))
    return cases


# ---------------------------------------------------------------- oracle
def unesc(s):
    return re.sub(r"%([0-9a-f]+);", lambda m: chr(int(m.group(1), 16)), s)


def tree_metas(toks):
    """labels the final tree calls for: (HTML `meta` elements' labels in tree order, [(name, label)] of other HTML elements
    that carry a charset / http-equiv+content declaration)"""
    out, others = [], []
    for tok in toks:
        if not tok.startswith("<html|") or not tok.endswith(">"):
            continue
        parts = tok[1:-1].split(" ")
        name = parts[0].split("|", 1)[1]
        attrs = {}
        for a in parts[1:]:
            k, _, v = a.partition("=")
            attrs.setdefault(unesc(k), unesc(v))
        label = None
        if "charset" in attrs:
            label = attrs["charset"].encode("utf-8")
        elif "http-equiv" in attrs and attrs["http-equiv"].encode("utf-8").lower() == b"content-type" and "content" in attrs:
            label = py_extract(attrs["content"].encode("utf-8"))
        if label is None:
            continue
        if name == "meta":
            out.append(label)
        else:
            others.append((name, label))
    return out, others


def split_dump(part):
    # "I:..;I:..;T=...;E=n"
    m = re.match(r"^((?:I:[^;]*;)*)T=(.*);E=(\d+)$", part)
    if not m:
        return None
    evs = [e for e in m.group(1).split(";") if e]
    return evs, m.group(2), int(m.group(3))


def fix_tree_tokens(dump):
    """the dump separates tokens by spaces and attributes by spaces inside <...>; re-join start tags"""
    toks = []
    cur = None
    for t in dump.split(" "):
        if cur is not None:
            cur += " " + t
            if t.endswith(">"):
                toks.append(cur); cur = None
        elif t.startswith("<") and not t.endswith(">"):
            cur = t
        else:
            toks.append(t)
    if cur is not None:
        toks.append(cur)
    return toks


def oracle(line, out):
    if out is None or out.startswith("PANIC") or out.startswith("ABORT"):
        return "implementation crashed: %s" % out
    f = line.split("\t")
    if f[1] == "extract":
        s = unhx(f[2])
        if b"\0" in s:
            return None if out == "bad-case" else "unexpected: %s" % out
        want = py_extract(s)
        want = "none" if want is None else "some " + hx(want)
        return None if out == want else "extracted %s, the WHATWG algorithm gives %s" % (out, want)
    if f[1] == "doc":
        if out == "bad-case":
            return "bad-case"
        whole = b"".join(unhx(c) for c in f[3].split("|"))
        a, b = out.split(" ## ")
        pa = split_dump(a)
        pb = split_dump(b)
        if pa is None or pb is None:
            return "malformed output"
        evs, tree, nerr = pa
        _, tree2, nerr2 = pb
        if tree != tree2:
            return "tree after resuming by hand differs from the driver's run: %s vs %s" % (tree, tree2)
        if nerr != nerr2:
            return "parse errors differ between hand-fed and driver run: %d vs %d" % (nerr, nerr2)
        want, others = tree_metas(fix_tree_tokens(tree))
        got = []
        not_in_tree = None
        for e in evs:
            _, lab, n = e.split(":")
            got.append(unhx(lab))
            if int(n) < 1:
                not_in_tree = unhx(lab)
        if sorted(got) == sorted(want) and not_in_tree is not None:
            return "indicator %r raised but no HTML meta element carrying it is in the tree yet" % not_in_tree
        if sorted(got) == sorted(want) and len(set(got)) == len(got) and all(g and whole.count(g) == 1 for g in got):
            pos = [whole.find(g) for g in got]
            if pos != sorted(pos):
                return "indicators %r are not raised in source order" % got
        if sorted(got) != sorted(want):
            if others and sorted(got) == sorted(want + [l for _, l in others]):
                return "indicator raised for non-meta element(s) %s (the standard: meta only)" % \
                       ",".join("<%s>" % n for n, _ in others)
            return "indicators %r, expected (one per qualifying HTML meta element in the tree) %r" % (got, want)
        return None
    return "malformed case"


def oracle_all(cases, outs):
    """'resuming continues as if nothing had happened': the tree equals the tree of the same document with the
    charset / http-equiv attributes neutralised (which raises no indicator), up to that renaming"""
    by_line = {c[0]: o for c, o in zip(cases, outs)}
    res = []
    for (line, tag), out in zip(cases, outs):
        if tag != "doc" or out is None or " ## " not in out:
            continue
        f = line.split("\t")
        d = unhx(f[3])
        twin = mk_doc(f[2], [neutral(d)])
        to = by_line.get(twin)
        if to is None or " ## " not in to:
            continue
        pa = split_dump(out.split(" ## ")[0])
        pt = split_dump(to.split(" ## ")[0])
        if pa is None or pt is None:
            continue
        if pt[0]:
            res.append((twin, "neutralised document still raises indicators %r" % pt[0], to))
            continue
        t2 = unneutral(pt[1])
        if t2 != pa[1]:
            res.append((line, "tree differs from the same document parsed without suspension (attributes neutralised): "
                              "%s vs %s" % (pa[1], t2), out))
        elif pa[2] != pt[2]:
            res.append((line, "parse-error count differs from the run without suspension: %d vs %d" % (pa[2], pt[2]), out))
    return res


def compare(line, impl, model):
    mode = line.split("\t")[1]
    if mode == "doc":
        return model == "no-model"
    if impl == "bad-case":     # NUL in content: not observable through the tokenizer
        return True
    return impl == model


def nontrivial(line, out):
    if out is None:
        return False
    return out.startswith("some") or out.startswith("I:")


def _link_defect(fl):
    return fl.detail is not None and fl.detail.startswith("indicator raised for non-meta element")


# DESIGN.md 1.3 item 10
KNOWN_MATCHERS = {"F10": _link_defect}


def extra_evidence(check):
    fams = {}
    fired = 0
    fired_ctx, all_ctx = set(), set()
    for (line, tag), io in zip(check.cases, check.impl):
        fams[tag.split(":")[0]] = fams.get(tag.split(":")[0], 0) + 1
        if tag == "doc":
            f = line.split("\t")
            d = unhx(f[3].split("|")[0])
            i = d.find(b"<meta")
            if i < 0:
                continue
            key = f[2] + " " + d[:i].decode("utf-8", "replace")
            all_ctx.add(key)
            if io and io.startswith("I:"):
                fired += 1
                fired_ctx.add(key)
    return {"families": fams, "doc_cases_with_indicator": fired,
            "contexts_total": len(all_ctx), "contexts_where_an_indicator_fired": len(fired_ctx),
            "contexts_never_firing (text modes, frameset modes, ignored tokens)": sorted(all_ctx - fired_ctx)[:80],
            "contexts": CONTEXTS, "contexts_scripting_off": CONTEXTS_NOSCRIPT, "fragment_contexts": FRAG_CTX,
            "variants": VARIANTS}
