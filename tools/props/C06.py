"""C06 — a parsed document always has the canonical html/head/body skeleton."""
import re
from props import tbcommon as tb

PROP = "C06"
ENGINE = "tb"
LEAN_TARGETS = ["H5V.Props.C06", "H5V.Props.C06Inv", "H5V.Props.C06Inv2", "H5V.Props.C06Inv3"]
AUDIT_IMPORTS = ["H5V.Props.C06Inv", "H5V.Props.C06Inv2", "H5V.Props.C06Inv3"]
THEOREMS = ["H5V.Props.C06." + t for t in [
    "C06_skeleton_iff", "C06_split_run_nonempty", "C06_split_run_concat", "C06_chars_token_nonempty",
    "C06_empty_chars_dropped", "C06_text_ops_never_detach", "C06_no_adjacent_text_run_partial",
    "C06_eof_closure_initial_partial", "C06_eof_closure_modes_example", "C06_frameset_skeleton_example",
    "C06_witness_frameset_reconstruct",
    # for ALL token lists and option sets (Props/C06Inv.lean): document children, no text under the document, no empty
    # text node anywhere, only containers have children
    "C06_inv_every_state", "C06_document_children_every_state", "C06_document_children_eof_state", "C06_document_children",
    "C06_document_children_prefix", "C06_no_text_under_document", "C06_no_empty_text_every_state", "C06_no_empty_text",
    "C06_only_containers_have_children", "C06_only_containers_have_children_every_state",
    "C06_template_contents_are_fragments", "C06_node_clauses_partial", "C06_no_document_child", "C06_nodeClauses_of_noAdj",
    # the children of html (Props/C06Inv2.lean; stack-shape invariant through all modes, foreign content, every EOF arm):
    # head then body | frameset followed only by noframes / reconstructed formatting elements; only whitespace text
    "C06_shape_every_state", "C06_html_children", "C06_html_children_prefix", "C06_html_children_body",
    "C06_htmlKidsOk_iff", "C06_html_children_fmt_in_af", "C06_html_children_partial", "C06_html_text_whitespace",
    "C06_html_children_every_state",
    # no two adjacent text siblings, for all token lists (Props/C06Inv3.lean), and the whole predicate
    "C06_adj_every_state", "C06_no_adjacent_text_every_state", "C06_no_adjacent_text", "C06_noAdjacentText",
    "C06_child_links", "C06_child_links_every_state", "C06_open_element_not_before_text", "C06_node_clauses",
    "C06_skeleton_or_known", "C06_skeleton_partial", "skeletonK_of_skeleton"]]
TRUSTED = [
    "Lean 4 kernel; axioms ⊆ {propext, Classical.choice, Quot.sound} (audited per run)",
    "hand-written model lean/H5V/Model/HtmlTB/*.lean of html5ever/src/tree_builder/{mod,rules,data,tag_sets,types}.rs "
    "+ driver.rs, composed with the tokenizer model HtmlTok and the abstract DOM `Dom` (C20: RcDom refines it); tied to "
    "the code by the `tb` correspondence: every TreeSink call incl. queries (token level) / every tree mutation "
    "(text level), final DOM, quirks mode, process_token answers — on the cases of this run",
    "the Skeleton predicate of this file (Python) = `H5V.Props.C06.skeletonOk` (Lean), both transcribed from the property text",
]
ASSUMPTIONS = [
    "`noframes*` after frameset (several noframes elements are conforming output of the standard's algorithm)",
    "whitespace = U+0009 U+000A U+000C U+000D U+0020; the selectedcontent mirror (rcdom) is part of the sink, not of the builder",
]
RULE = ("oracle: Skeleton evaluated on the real RcDom dump of every document case parsed from text, each text under "
        "the one-piece, two random and (short inputs) the all-singletons chunking × scripting on/off; families: "
        "skeleton-directed texts (every mode reached then EOF, frameset/body replacement, head re-entry, template EOF "
        "unwinding, foster parenting next to html, text around formatting/tables), adoption / Noah / foster families, "
        "seeded random tag soup. correspondence: the same cases + the exhaustive single-step cover of the tree builder "
        "(insertion mode × stack shape × every tag name × start/end/self-closing, character runs, comments, doctypes, "
        "EOF) + pair cover + foreign tables + fragments. non-trivial = a document parse whose tree has ≥ 4 nodes; "
        "distinct = distinct (case, output)")
EXPLANATION = ("Skeleton is decided on the real tree of every document case; the Lean theorems cover the pieces of the "
               "argument that are universally quantified (see C06.lean header for what is _partial)")

WS = " \t\n\x0c\r"

# ----------------------------------------------------------------------------- the property


def skeleton_violations(root):
    """the clauses of the property, on the parsed dump; returns a list of strings (empty = holds)"""
    bad = []
    if root.kind != "doc":
        return ["root is not a document"]
    # document children: comment* doctype? comment* html comment*
    kinds = []
    for k in root.kids:
        if k.kind == "el":
            kinds.append("html" if (k.local() == "html" and k.ns() == "$h") else "el")
        else:
            kinds.append(k.kind)
    s = "".join({"cm": "c", "dt": "d", "html": "h", "el": "e", "tx": "t", "pi": "p", "doc": "D"}[k] for k in kinds)
    if not re.fullmatch(r"c*d?c*hc*", s):
        bad.append("document children %r do not match comment* doctype? comment* html comment*" % s)
    if "t" in s:
        bad.append("text node is a child of the document")
    html = next((k for k in root.kids if k.kind == "el"), None)
    if html is not None and kinds[root.kids.index(html)] == "html":
        els = [k for k in html.kids if k.kind == "el"]
        names = [(k.local(), k.ns() == "$h") for k in els]
        ok = (len(names) >= 2 and names[0] == ("head", True)
              and (names[1:] == [("body", True)]
                   or (names[1] == ("frameset", True) and all(n == ("noframes", True) for n in names[2:]))))
        if not ok:
            bad.append("element children of html are %s" % [n for n, _ in names])
        for k in html.kids:
            if k.kind == "tx" and any(c not in WS for c in k.text()):
                bad.append("non-whitespace text %r directly under html" % k.text())
            if k.kind not in ("el", "tx", "cm"):
                bad.append("%s node under html" % k.kind)

    def walk(n, in_tc):
        if n.bad_parent:
            bad.append("parent pointer of a %s node does not name the node listing it" % n.kind)
        if n.kind == "tx" and n.text() == "":
            bad.append("empty text node")
        if n.kids and not (n.kind == "el" or (n.kind == "doc" and (n is root or in_tc))):
            bad.append("%s node has children" % n.kind)
        prev_text = False
        for k in n.kids:
            if k.kind == "tx" and prev_text:
                bad.append("two adjacent text siblings under %s" % (n.local() or n.kind))
            prev_text = k.kind == "tx"
            walk(k, False)
        if n.tc is not None:
            if n.tc.kind != "doc":
                bad.append("template contents is a %s node" % n.tc.kind)
            walk(n.tc, True)

    walk(root, False)
    return bad


def is_doc_txt(line):
    f = line.split("\t")
    return f[1] == "txt" and f[3] == "-"


def oracle(line, out):
    if out is None or out.startswith("ABORT"):
        return "implementation crashed or hung: %s" % out
    if not is_doc_txt(line):
        return None
    if out.startswith("PANIC") or out.startswith("DRIVER-MISMATCH") or out == "bad-case":
        return "document parse did not complete: %s" % out[:200]
    r = tb.parse_out(out)
    if r is None:
        return "malformed output"
    root, _ = tb.parse_dump(r["D"])
    v = skeleton_violations(root)
    if v:
        return "Skeleton violated: " + "; ".join(sorted(set(v))[:3])
    if r.get("K") != "1,1":
        return "EOF tokens delivered (count, last-is-EOF) = %s" % r.get("K")
    return None


def nontrivial(line, out):
    if not is_doc_txt(line):
        return False
    r = tb.parse_out(out)
    return r is not None and r["D"].count("(") >= 4


compare = tb.compare

# ----------------------------------------------------------------------------- cases

FORMATTING = {"a", "b", "big", "code", "em", "font", "i", "nobr", "s", "small", "strike", "strong", "tt", "u"}
# the gap proved by C06_witness_frameset_reconstruct (first entry = the minimal witness)
GAP_TEXTS = ["<b><frameset></frameset></html> ", "<a><frameset></frameset></html>\n<noframes></noframes>",
             "<p><i></p><frameset></frameset></html>\n"]


def _is_frameset_reconstruct(f):
    """html's element children = head, frameset, then only reconstructed formatting elements / noframes"""
    m = re.search(r"element children of html are \[(.*?)\]", f.detail or "")
    if not m:
        return False
    names = [x.strip().strip("'") for x in m.group(1).split(",")]
    return (len(names) >= 3 and names[:2] == ["head", "frameset"] and all(n in FORMATTING or n == "noframes" for n in names[2:])
            and any(n in FORMATTING for n in names[2:]) and "; " not in (f.detail or ""))


KNOWN_MATCHERS = {"C06-frameset-reconstruct": _is_frameset_reconstruct}

SKELETON_TEXTS = GAP_TEXTS + [
    "", " ", "x", "<!--c-->", "<!DOCTYPE html>", "<!DOCTYPE html><!--c-->", "<!--a--><!DOCTYPE html><!--b--><html><!--c-->",
    "<html>", "<html lang=en> <head> </head> <body> </body> </html> ", "<head>", "</head>", "</body>", "</html>", "</br>", "</p>",
    "<head></head>", "<head></head> x", "<head></head><!--c--> <body>", "<head><title>t</title></head>", "<title>t", "<title>",
    "<script>x", "<script></script>y", "<style>", "<noscript>x</noscript>y", "<head><noscript><p>", "<head><noscript></noscript>x",
    "<body>", "<body>x</body>y", "<body></body><!--c-->", "<body></body></html><!--d-->", "<body></body></html> x", "</html>x</html>y",
    "<body></body> <p>", "<body></html> <!--c--> </html>", "x</body></html>\n", "<p>x</p></body></html><p>y",
    "<frameset>", "<frameset></frameset>", "<frameset></frameset></html>", "<frameset></frameset><noframes>x</noframes>",
    "<frameset></frameset><noframes></noframes><noframes>y</noframes> <!--c-->", "<frameset><frame><frameset></frameset>x</frameset> ",
    "<frameset></frameset></html><noframes>z</noframes>", "<head></head><frameset>", "<head></head> <frameset></frameset> ",
    "<body><frameset>", "<p><frameset>", "<div><frameset></frameset>", " <frameset>", "x<frameset>", "<br><frameset>",
    "<input type=hidden><frameset>", "<body> <frameset>", "<html><frameset></frameset><frameset>", "<frameset></frameset><frameset>",
    "<frameset></frameset>x y", "<frameset></frameset><p>", "<frameset><noframes><p></noframes>",
    "<template>", "<template>x", "<template><div>", "<template></template>", "<head><template><body>", "<template><frameset>",
    "<template><template><td>x", "<body><template>a<template>b", "<template><tr><td>x</template>y", "<template><col>",
    "<head></head><template>x", "<head></head><template></template><body>", "<head></head><title>x</title>y",
    "<head></head><meta><script>s</script>z", "<head></head><link><base><style>s</style> ", "<head></head></head>", "<head></head><head>",
    "<html><html a=b>", "<body><body a=b>", "<html><head><head>", "<body><head>", "<body><html x=y><body y=z>",
    "<table>", "<table>x", "<table> ", "<table><tr><td>", "<table><caption>c<table>", "x<table>y</table>z", "<table><td>a</td>b<td>c",
    "<table><colgroup> x", "<table><tbody><tr>x<td>", "<table><select><option>", "<table><form><input type=hidden>", "<table></table> x",
    "a<b>b<p>c</b>d", "<b>1<p>2</b>3", "<a>1<div>2<a>3", "<b><i><p>x</b>y</i>z", "<a><table><a>x</table>y", "<b><table><td></b>x",
    "<p><b><table>x</b>y", "<i>a<table>b<b>c</i>d</table>e", "<b>a<div>b<table>c</b>d</table>e", "<nobr>a<nobr>b<table>c<nobr>d",
    "<select><option>a<select>b", "<select><button><selectedcontent></button><option selected>A<b>B</b>C</option>x", "<select>a<hr>b<input>c",
    "<svg><p>", "<svg>x<p>y", "<math><mi>a<b>c</mi>d", "<svg><foreignObject><p>a</svg>b", "<svg><![CDATA[a]]>b</svg>c", "<svg></p><p>",
    "<math><annotation-xml encoding=text/html><p>a</math>b", "<pre>\nx", "<pre>\n\ny", "<textarea>\nx</textarea>\ny", "<listing>\n",
    "<plaintext>a</plaintext>", "<xmp><b></xmp>c", "<iframe>x</iframe>y", "<noembed>n</noembed>m", "<li>a<li>b<dd>c<dt>d",
    "<ruby>a<rb>b<rt>c<rtc>d<rp>e", "<h1>a<h2>b</h1>c", "<button>a<button>b", "<form>a<form>b</form>c", "<object>a<p>b</object>c",
    "\0", "a\0b", "<table>\0", "<svg>\0", "&#13;", "<head></head>&#13;x", "<html>&#12;<head>", "</html>&#13;", "\r\n<!DOCTYPE html>\r\nx",
    "﻿x", "<!DOCTYPE html PUBLIC '-//W3C//DTD HTML 4.01 Transitional//EN'><p><table>", "<!DOCTYPE a><!DOCTYPE b><html><!DOCTYPE c>",
    "<meta charset=utf-8>x", "<meta http-equiv=content-type content='text/html;charset=y'><p>", "<body><meta charset=x>a",
    "<dialog><search><details><summary>s</summary>d", "<image><keygen><isindex>x", "<menu><li>a</menu>b", "<center><dir><li>",
]
# characters that are white space for Unicode but not for HTML, at every position where only HTML white space may
# stay outside <body> (seeded change C06-m2)
for _ws in ["\u00a0", "\u3000", "\u2003", "\x0b", "\u0085", "\u2028", "\u1680", "\ufeff"]:
    SKELETON_TEXTS += ["<head></head>" + _ws + "<body>", "<head></head>" + _ws, "<head></head> " + _ws + " x", "<frameset></frameset>" + _ws,
                       "<frameset>" + _ws + "</frameset>", "<frameset></frameset></html>" + _ws, "<html>" + _ws + "<head>", "x" [:0] + _ws + "<head>",
                       "<!DOCTYPE html>" + _ws + "<html>", "<body></body>" + _ws, "<body></body></html>" + _ws + "<!--c-->", "<head>" + _ws + "</head>",
                       "<table>" + _ws + "<tr>", "<table><tr>" + _ws + "<td>", "<select>" + _ws + "<option>", "<colgroup>" + _ws, "<table><colgroup>" + _ws + "<col>"]
# the mirrored <selectedcontent> (rcdom's clone_an_option_into_selectedcontent): refills and fallback content
# (seeded change C06-m3)
SKELETON_TEXTS += [
    "<select><button><selectedcontent></selectedcontent></button><option selected>a</option><option selected>b</option>",
    "<select><button><selectedcontent>f</selectedcontent></button><option selected>a</option>x",
    "<select><button><selectedcontent>f<b>g</b>h</selectedcontent></button><option selected>a<i>b</i>c</option><option selected>d</option>e",
    "<select><selectedcontent>p</selectedcontent><option selected>q</option><option selected>r</option><option>s</option>",
    "<select multiple><button><selectedcontent>f</selectedcontent></button><option selected>a</option><option selected>b</option>",
    "<select><button><selectedcontent></selectedcontent></button><option selected>a</option></select><select><button><selectedcontent>z</selectedcontent></button><option selected>b</option><option selected>c</option>",
]


def chunkings(rng, s, tier):
    out = [[s]]
    if len(s) >= 2:
        for _ in range(2):
            out.append(tb.random_chunking(rng, s))
        if len(s) <= (40 if tier == "quick" else 120):
            out.append(list(s))
    seen, u = set(), []
    for c in out:
        t = tuple(c)
        if t not in seen:
            seen.add(t)
            u.append(c)
    return u


def directed_docs(rng, n):
    """texts aimed at the adjacent-text clause: text around formatting elements, tables, templates, selects"""
    pieces = ["a", " ", "<b>", "</b>", "<i>", "</i>", "<a>", "</a>", "<p>", "</p>", "<div>", "</div>", "<table>", "</table>",
              "<tr>", "<td>", "</td>", "<caption>", "<select>", "<option>", "</select>", "<template>", "</template>", "<nobr>",
              "<font>", "</font>", "<li>", "<button>", "<object>", "</object>", "<svg>", "</svg>", "<frameset>", "</body>",
              "</html>", "<!--c-->", "<br>", "<form>", "</form>", "<em>", "</em>", "<h1>", "</h1>", "<u>", "</u>", "\0", "<input>",
              "<textarea>", "</textarea>", "<title>", "</title>", "<head>", "</head>", "<body>", "<html>", "<script>", "</script>"]
    cases = []
    for _ in range(n):
        k = rng.randint(2, 14)
        cases.append("".join(rng.choice(pieces) for _ in range(k)))
    return cases


def gen_cases(tier, rng):
    cases = []
    quick = tier == "quick"
    # --- document texts: oracle + correspondence
    texts = list(SKELETON_TEXTS)
    texts += tb.cdata_edge_texts()
    fnt = [t for t, c in tb.foreign_named_texts() if c is None]
    texts += fnt[::(16 if quick else 2)]
    texts += [t for t, c in tb.fix_families() if c is None][::(3 if quick else 1)]
    texts += directed_docs(rng, 2500 if quick else 150000)
    texts += [tb.random_html(rng, rng.randint(1, 30)) for _ in range(1500 if quick else 80000)]
    for s in texts:
        for ch in chunkings(rng, s, tier):
            for sc in (0, 1):
                cases.append((tb.case_txt(ch, tb.opts(s=sc)), "doc"))
    for s in SKELETON_TEXTS:
        for o in (tb.opts(srcdoc=1), tb.opts(q="q"), tb.opts(dropdt=1), tb.opts(exact=1, tx=1)):
            cases.append((tb.case_txt([s], o), "doc-opts"))
    # --- the families of the tb engine (document cases among them are judged by the oracle too)
    cases += tb.adoption_family(tier, rng)
    cases += tb.noahs_ark_family(tier)
    cases += tb.foster_family(tier, rng)
    cases += tb.random_docs(rng, 2000 if quick else 100000)
    # --- correspondence only: what ties the model (about which the theorems speak) to the code
    cases += tb.single_step_cover("thorough", rng)
    cases += tb.pair_cover(tier)
    cases += tb.doctype_cover()
    cases += tb.foreign_tables_cover()
    cases += tb.fragment_cover(tier)
    cases += tb.random_token_runs(rng, 2000 if quick else 100000)
    return cases


def neighbourhood(line):
    """around a correspondence disagreement on a document text: its other chunkings / scripting setting"""
    if not is_doc_txt(line):
        return []
    s = "".join(tb.txt_chunks(line))
    out = [tb.with_chunks(line, [s])]
    if 1 < len(s) <= 200:
        out.append(tb.with_chunks(line, list(s)))
    return out + [tb.with_opt(l, "s", v) for l in list(out) for v in (0, 1)]


def extra_evidence(check):
    ntxt = sum(1 for (l, _) in check.cases if is_doc_txt(l))
    return {"document_parses_judged_by_oracle": ntxt,
            "single_step_prefixes": sum(len(v) for v in tb.PREFIXES.values()),
            "single_step_probes": len(tb.probes()),
            "modelled_not_proved": "Skeleton for all inputs (invariant indexed by insertion mode) — see C06.lean header"}
