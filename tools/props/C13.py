"""C13 — BufferQueue behaves as one flat character stream."""
PROP = "C13"
ENGINE = "bq"
LEAN_TARGETS = ["H5V.Props.C13", "H5V.Props.C13Bytes"]
AUDIT_IMPORTS = ["H5V.Props.C13", "H5V.Props.C13Bytes"]
THEOREMS = ["H5V.Props.C13." + t for t in [
    "C13_peek", "C13_next", "C13_pop_except_from", "C13_eat", "pushBack_abs", "pushFront_abs",
    "C13_reachable_inv", "C13_no_panic",
    # Props/C13Bytes.lean: the BYTE-level loop of `eat` (literal transcription: buffers_exhausted / consumed_from_last over
    # the UTF-8 bytes, commit by pop_front with its char-boundary check) = the character-level model, for ALL patterns under
    # the two comparators html5ever uses; never panics; witnesses that an arbitrary comparator can make it panic
    "C13_utf8_ascii", "C13_utf8_nonascii", "C13_utf8_prefix_code", "C13_comparators_agree", "C13_eat_bytes_of_stepAgree",
    "C13_eat_bytes_eq_chars_all", "C13_eat_bytes_eq_chars", "C13_eat_bytes_no_panic", "C13_eat_bytes_flat",
    "C13_eat_bytes_tokenizer_verdict", "C13_keywords_ascii", "C13_witness_comparator_panics",
    "C13_witness_comparator_disagrees"]]
TRUSTED = [
    "Lean 4 kernel; axioms ⊆ {propext, Classical.choice, Quot.sound} (audited per run)",
    "hand-written model lean/H5V/Model/BufferQueue.lean of markup5ever/util/buffer_queue.rs + smallcharset.rs, "
    "tied by the `bq` correspondence (harness/src/engines/bq.rs vs h5vdriver) on the cases of this run",
    "eat: the character-level model is proved equal to the literal byte-level loop over the UTF-8 encoding "
    "(C13_eat_bytes_eq_chars_all, core's String.utf8EncodeChar) for `==` and `eq_ignore_ascii_case`",
    "tendril operations used by BufferQueue (pop_front_char, unsafe_subtendril, pop_front) are covered by C11",
]
ASSUMPTIONS = [
    "eq is == or eq_ignore_ascii_case (the only uses in html5ever/xml5ever; any pattern): an arbitrary eq closure can make "
    "the byte loop commit inside a character, where Tendril::pop_front panics (C13_witness_comparator_panics) - outside "
    "the proved statement and outside what html5ever does",
]
RULE = ("op sequences over a BufferQueue: exhaustive cover (every op × {empty queue, one buffer, pattern ending "
        "inside / at / beyond a buffer join, buffer emptied by the op}) + seeded random interleavings over random "
        "partitions incl. non-ASCII text; non-trivial = at least one op returned a character/run/true/false; "
        "distinct = distinct (case, output)")
EXPLANATION = "theorems characterise every op through abs q = concatenation of buffers, for all queues and histories"

ALPHA = ["a", "b", "A", "B", "<", "&", "-", "\r", "\n", "\0", "é", " ", "😀", "z"]
SETS = [0, (1 << ord("<")) | (1 << ord("&")), (1 << ord("\r")) | (1 << ord("\n")) | 1, (1 << 64) - 1,
        (1 << ord("-")), (1 << ord("<"))]
PATS = ["", "a", "ab", "abc", "--", "ba", "doctype", "[CDATA[", "aB", "<a", "a\n", "public", "system"]


def hx(s):
    return " ".join("%x" % ord(c) for c in s) if s else "-"


def unhx(s):
    s = s.strip()
    return "" if s in ("-", "") else "".join(chr(int(x, 16)) for x in s.split(" "))


def mk(ops):
    return "bq\t" + ";".join(ops)


def partitions(s, maxparts=3):
    n = len(s)
    out = [[s]]
    for i in range(1, n):
        out.append([s[:i], s[i:]])
    if maxparts >= 3:
        for i in range(1, n):
            for j in range(i + 1, n):
                out.append([s[:i], s[i:j], s[j:]])
    return out


def gen_cases(tier, rng):
    cases = []
    # --- exhaustive cover: every query op on every partition of short streams
    streams = ["", "a", "ab", "abc", "aB<", "a&b", "--a", "é<", "\r\n", "ab\0", "😀a"]
    queries = (["n", "k"] + ["x %d" % b for b in SETS]
               + ["e %d %s" % (ci, hx(p)) for ci in (0, 1) for p in PATS])
    for s in streams:
        for part in partitions(s):
            pushes = ["pb " + hx(p) for p in part]
            for q in queries:
                cases.append((mk(pushes + [q, "n", "k"]), "cover"))
            # empty pushes and push_front placement
            cases.append((mk(pushes + ["pb -", "pf -", "pf " + hx("xy"), "n", "n", "n", "k"]), "cover"))
    # every small character (code < 64) as a set member / non-member, and the first code outside the range
    for code in list(range(0, 65)) + [127, 128, 0x3f3f]:
        ch = chr(code)
        for bits in (1 << (code % 64), (1 << 64) - 1, ((1 << 64) - 1) ^ (1 << (code % 64)), 0):
            for s2 in ("a" + ch + "b", ch, ch + ch, "a" + ch):
                cases.append((mk(["pb " + hx(s2), "x %d" % bits, "x %d" % bits, "x %d" % bits, "k"]), "cover-set"))
    # byte-level scanning of pop_except_from (`nonmember_prefix_len`): every small character right after a
    # multi-byte character whose trailing bytes are 0x80 / 0xBF, at every offset inside an 8-byte word, with the
    # rest of the word >= 64 (word-at-a-time tricks), short and long tails
    for code in range(0, 64):
        ch = chr(code)
        bits = 1 << code
        for lead in ("\u00bf", "\u00ff", "\u07ff", "\u0fff", "\uffff", "\U0001ffff", "\u0080", "\u0800", "\U00010000", "@", "\x7f"):
            for pad in range(0, 8) if (code % 4 == 3 or tier == "thorough") else (0, 3, 5):
                s2 = "d" * pad + lead + ch + "no" + "z" * 9
                cases.append((mk(["pb " + hx(s2), "x %d" % bits, "x %d" % bits, "x %d" % bits, "k"]), "cover-bytes"))
    # the rest of the public API: pop_front, is_empty, peek_front_chunk_mut, and the two-queue hand-over
    for s1 in ["", "ab", "a|bc", "\r|\n"]:
        for s2 in ["", "x", "xy|z"]:
            pre = ["pb " + hx(c) for c in s1.split("|") if s1] + ["apb " + hx(c) for c in s2.split("|") if s2]
            for mid in (["sw"], ["rw"], ["sw", "sw"], ["rw", "apb " + hx("q"), "sw"], ["n", "sw", "n", "sw"], ["pp", "rw", "pp"]):
                for q in ["n", "k", "pp", "ie", "fc", "x %d" % SETS[0], "e 0 " + hx("x"), "e 0 " + hx("ab")]:
                    cases.append((mk(pre + mid + [q, "ie", "k", "n"]), "cover-api"))
    # ops on the empty queue
    for q in queries + ["pp", "ie", "fc", "sw", "rw"]:
        cases.append((mk([q]), "cover-empty"))
    # --- pattern boundary cover: pattern vs every 2/3-partition of stream = pattern-prefix ++ tail
    for p in PATS:
        for extra in ["", "x", "<"]:
            for cut in range(len(p) + 1):
                for ci in (0, 1):
                    s = (p[:cut].upper() if ci else p[:cut]) + extra
                    for part in partitions(s):
                        cases.append((mk(["pb " + hx(x) for x in part] + ["e %d %s" % (ci, hx(p)), "k", "n"]), "cover-eat"))
    # --- random histories
    n = 1500 if tier == "quick" else 150000
    for _ in range(n):
        ops = []
        for _ in range(rng.randint(1, 14)):
            r = rng.random()
            if r < 0.3:
                ops.append(("pb " if rng.random() < 0.8 else "pf ") + hx("".join(rng.choice(ALPHA) for _ in range(rng.randint(0, 5)))))
            elif r < 0.36:
                ops.append(rng.choice(["apb " + hx("".join(rng.choice(ALPHA) for _ in range(rng.randint(0, 4)))), "sw", "rw", "pp", "ie", "fc"]))
            elif r < 0.45:
                ops.append("n")
            elif r < 0.55:
                ops.append("k")
            elif r < 0.75:
                ops.append("x %d" % rng.choice(SETS + [rng.getrandbits(64)]))
            else:
                if rng.random() < 0.5:
                    p = rng.choice(PATS)
                else:
                    p = "".join(rng.choice("abAB<-&\n") for _ in range(rng.randint(0, 4)))
                ops.append("e %d %s" % (rng.randint(0, 1), hx(p)))
        cases.append((mk(ops), "random"))
    return cases


def eq_ci(a, b):
    la = a.lower() if a.isascii() else a
    lb = b.lower() if b.isascii() else b
    return la == lb


def oracle(line, out):
    """independent flat-string model of the property (python), evaluated on the implementation output"""
    if out is None or out.startswith("PANIC") or out.startswith("ABORT"):
        return "implementation crashed: %s" % out
    ops = line.split("\t")[1].split(";")
    res = out.split(";")
    used_aux = any(o.startswith("apb") or o in ("sw", "rw") for o in ops)
    aux_out = None
    if used_aux:
        if not res or not res[-1].startswith("A="):
            return "malformed output (second queue missing)"
        aux_out = res.pop()
    if len(res) != len(ops) + 1:
        return "malformed output"
    flat = ""          # the concatenated stream
    bufs = []          # buffer partition (only used for the 'does not cross a join' clause)
    aux = []           # the second queue
    for op, r in zip(ops, res):
        f = op.split(" ")
        if r == "panic":
            return "op %r panicked" % op
        if f[0] == "apb":
            s = unhx(" ".join(f[1:]))
            if s:
                aux.append(s)
        elif f[0] == "sw":
            bufs, aux = aux, bufs
        elif f[0] == "rw":
            bufs, aux = aux, []
        elif f[0] == "pp":
            exp = "pp=" + (hx(bufs[0]) if bufs else "-")
            if r != exp:
                return "pop_front: got %s want %s" % (r, exp)
            if bufs:
                bufs.pop(0)
        elif f[0] == "ie":
            if r != "ie=%d" % (0 if bufs else 1):
                return "is_empty: got %s on stream %r" % (r, "".join(bufs))
        elif f[0] == "fc":
            exp = "fc=" + (hx(bufs[0]) if bufs else "-")
            if r != exp:
                return "peek_front_chunk_mut: got %s want %s" % (r, exp)
        if f[0] in ("pb", "pf"):
            s = unhx(" ".join(f[1:]))
            if s:
                if f[0] == "pb":
                    bufs.append(s)
                else:
                    bufs.insert(0, s)
            flat = "".join(bufs)
        elif f[0] == "k":
            exp = "k=" + ("%x" % ord(flat[0]) if flat else "-")
            if r != exp:
                return "peek: got %s want %s" % (r, exp)
        elif f[0] == "n":
            exp = "n=" + ("%x" % ord(flat[0]) if flat else "-")
            if r != exp:
                return "next: got %s want %s" % (r, exp)
            if flat:
                bufs[0] = bufs[0][1:]
        elif f[0] == "x":
            bits = int(f[1])
            mem = lambda c: ord(c) < 64 and (bits >> ord(c)) & 1
            if not flat:
                if r != "x=-":
                    return "pop_except_from on empty: %s" % r
            elif mem(flat[0]):
                if r != "x=S:%x" % ord(flat[0]):
                    return "pop_except_from: want member %x got %s" % (ord(flat[0]), r)
                bufs[0] = bufs[0][1:]
            else:
                b = bufs[0]
                k = 0
                while k < len(b) and not mem(b[k]):
                    k += 1
                if r != "x=N:" + hx(b[:k]):
                    return "pop_except_from: want maximal run %r within first buffer, got %s" % (b[:k], r)
                bufs[0] = b[k:]
        elif f[0] == "e":
            ci = f[1] == "1"
            pat = unhx(" ".join(f[2:]))
            eq = eq_ci if ci else (lambda a, b: a == b)
            m = min(len(flat), len(pat))
            if any(not eq(flat[i], pat[i]) for i in range(m)):
                # first mismatch inside the common length
                exp = "e=F"
            elif len(flat) >= len(pat):
                exp = "e=T"
            else:
                exp = "e=N"
            if r != exp:
                return "eat(%r) on stream %r: got %s want %s" % (pat, flat, r, exp)
            if exp == "e=T":
                rest = flat[len(pat):]
                # consume from bufs
                k = len(pat)
                while k > 0:
                    if len(bufs[0]) <= k:
                        k -= len(bufs[0]); bufs.pop(0)
                    else:
                        bufs[0] = bufs[0][k:]; k = 0
                assert "".join(bufs) == rest
        bufs = [b for b in bufs if b]
        flat = "".join(bufs)
    want = "Q=" + "|".join(hx(b) for b in bufs)
    got = res[-1]
    if unhx(" ".join(got[2:].split("|"))) != flat.replace("", "") and "".join(unhx(x) for x in got[2:].split("|")) != flat:
        return "final stream %s differs from flat model %r" % (got, flat)
    if any(x == "-" for x in got[2:].split("|")) and got != "Q=":
        return "empty buffer left in queue: %s" % got
    if aux_out is not None and aux_out != "A=" + "|".join(hx(b) for b in aux):
        return "second queue %s, expected %s" % (aux_out, "A=" + "|".join(hx(b) for b in aux))
    return None


def nontrivial(line, out):
    return out is not None and any(t in out for t in ("n=", "x=S", "x=N", "e=T", "e=F")) and "n=-;" != out[:4]
