"""C10 — byte-stream front ends decode exactly like a whole-input lossy decode."""
import itertools

PROP = "C10"
ENGINE = "utf8"
LEAN_TARGETS = ["H5V.Props.C10"]
AUDIT_IMPORTS = ["H5V.Props.C10"]
THEOREMS = ["H5V.Props.C10." + t for t in [
    "stdStep_eq_head",
    "C10_utf8_chunking", "C10_utf8_text_errors", "C10_no_panic", "C10_chunking_independent",
    "C10_pieces_wellformed", "C10_lossyBytes_roundtrip", "C10_scalar_valid",
    "C10_encoding_rs_partial", "C10_encoding_rs_finish_drains", "C10_encoding_rs_eof_witness",
]]
TRUSTED = [
    "Lean 4 kernel; axioms ⊆ {propext, Classical.choice, Quot.sound} (audited per run)",
    "H5V.Spec.Utf8: my transcription of Unicode Table 3-7 + maximal-subpart substitution; cross-checked every run "
    "against Python's utf-8 codec (errors='replace') by the oracle",
    "H5V.Model.Utf8.fromUtf8: model of core::str::from_utf8 (valid_up_to / error_len); validated against the real "
    "function on every byte string of length ≤ 2 and on boundary-alphabet strings up to length 4/5 (family std)",
    "hand-written model of tendril utf8_decode.rs / stream.rs (Utf8LossyDecoder), tied by the `utf8 dec` correspondence "
    "(exact sequence of sink calls) on the cases of this run",
    "encoding_rs decoders: external; only an abstract contract is modelled (C10_encoding_rs_partial); the real decoders "
    "are exercised by family enc (no model), oracle = reference one-shot decode",
    "parse family: real html5ever/xml5ever + RcDom through from_utf8(), no model (tree equality with one-piece parse)",
]
ASSUMPTIONS = [
    "IncompleteUtf8's stale buffer bytes beyond buffer_len are never read (model keeps the live prefix only)",
    "the inner sink is passive (a recording sink); html5ever's Parser as inner sink is exercised by family parse only",
]
RULE = ("families: std (modelled from_utf8 vs real vs Python codec: all strings len ≤ 2, boundary alphabet to len 4/5); "
        "dec-cover (every lead-byte class × continuation classes × trailer × every 2- and 3-partition incl. empty chunks "
        "× EOF); dec-alpha (all strings len ≤ 4 over a boundary alphabet × all 2-/3-partitions); dec-random (long mixed "
        "valid/ill-formed strings, random partitions); enc (every encoding_rs encoding × short strings × 2-partitions, "
        "oracle = reference one-shot decode); parse (html/xml documents with ill-formed bytes × partitions, oracle = tree "
        "of the one-piece lossy string). non-trivial = output contains an error/replacement or a multi-byte sequence; "
        "distinct = distinct (case, output)")
EXPLANATION = ("theorem: for all chunk lists the model's sink-call stream (text bytes with error marks in place) equals the "
               "spec's marked stream of the concatenation; hence text, error count and chunking independence")

REPL = "�"


def hx(b):
    return " ".join("%x" % x for x in b) if len(b) else "-"


def unhx(s):
    s = s.strip()
    return b"" if s in ("-", "") else bytes(int(x, 16) for x in s.split(" "))


def mk_dec(chunks):
    return "utf8\tdec\t" + "|".join(hx(c) for c in chunks)


def partitions(b, k3=True, empties=False):
    n = len(b)
    out = [[b]]
    lo, hi = (0, n + 1) if empties else (1, n)
    for i in range(lo, hi):
        out.append([b[:i], b[i:]])
    if k3:
        for i in range(lo, hi):
            for j in range(i if empties else i + 1, hi):
                out.append([b[:i], b[i:j], b[j:]])
    return out


# ---------------------------------------------------------------- python reference (independent of the Lean spec)
TABLE = [
    [(0x00, 0x7F)],
    [(0xC2, 0xDF), (0x80, 0xBF)],
    [(0xE0, 0xE0), (0xA0, 0xBF), (0x80, 0xBF)],
    [(0xE1, 0xEC), (0x80, 0xBF), (0x80, 0xBF)],
    [(0xED, 0xED), (0x80, 0x9F), (0x80, 0xBF)],
    [(0xEE, 0xEF), (0x80, 0xBF), (0x80, 0xBF)],
    [(0xF0, 0xF0), (0x90, 0xBF), (0x80, 0xBF), (0x80, 0xBF)],
    [(0xF1, 0xF3), (0x80, 0xBF), (0x80, 0xBF), (0x80, 0xBF)],
    [(0xF4, 0xF4), (0x80, 0x8F), (0x80, 0xBF), (0x80, 0xBF)],
]


def ref_units(b):
    """[(text, is_error)] by maximal-subpart substitution"""
    out = []
    i = 0
    while i < len(b):
        row = next((r for r in TABLE if r[0][0] <= b[i] <= r[0][1]), None)
        if row is None:
            out.append((REPL, True)); i += 1; continue
        k = 0
        while k < len(row) and i + k < len(b) and row[k][0] <= b[i + k] <= row[k][1]:
            k += 1
        if k == len(row):
            out.append((b[i:i + k].decode("utf-8"), False))
        else:
            out.append((REPL, True))
        i += k
    return out


def ref_std(b):
    try:
        b.decode("utf-8")
        return "ok"
    except UnicodeDecodeError as e:
        if e.reason == "unexpected end of data":
            return "err %d -" % e.start
        return "err %d %d" % (e.start, e.end - e.start)


# ---------------------------------------------------------------- generation
LEADS = [0xC0, 0xC1, 0xC2, 0xDF, 0xE0, 0xE1, 0xEC, 0xED, 0xEE, 0xEF, 0xF0, 0xF1, 0xF3, 0xF4, 0xF5, 0xFF]
CONTS = [0x80, 0x8F, 0x90, 0x9F, 0xA0, 0xBF]
SECOND = [0x7F, 0x80, 0x8F, 0x90, 0x9F, 0xA0, 0xBF, 0xC0]
TRAIL = [b"", b"A", b"\x80", b"\xc2", b"\xc3\xa9", b"\xff"]
ALPHA_Q = [0x41, 0x7F, 0x80, 0x8F, 0x90, 0x9F, 0xA0, 0xBF, 0xC2, 0xE0, 0xED, 0xEF, 0xF0, 0xF4]
ALPHA_T = sorted(set(ALPHA_Q + [0x00, 0xC0, 0xC1, 0xDF, 0xE1, 0xEC, 0xEE, 0xF1, 0xF3, 0xF5, 0xFF, 0xBB, 0xBD]))
ALPHA_T20 = sorted(set(ALPHA_Q + [0xC0, 0xC1, 0xDF, 0xE1, 0xEE, 0xF1]))
GOOD = ["a", "é", "€", "😀", "�", "﻿", "ࠀ", "퟿", "", "\U00010000", "\U0010ffff", "\x7f", "\x80", "߿"]

ENCODINGS = ["utf-8", "ibm866", "iso-8859-2", "iso-8859-3", "iso-8859-4", "iso-8859-5", "iso-8859-6", "iso-8859-7",
             "iso-8859-8", "iso-8859-8-i", "iso-8859-10", "iso-8859-13", "iso-8859-14", "iso-8859-15", "iso-8859-16",
             "koi8-r", "koi8-u", "macintosh", "windows-874", "windows-1250", "windows-1251", "windows-1252",
             "windows-1253", "windows-1254", "windows-1255", "windows-1256", "windows-1257", "windows-1258",
             "x-mac-cyrillic", "gbk", "gb18030", "big5", "euc-jp", "iso-2022-jp", "shift_jis", "euc-kr",
             "utf-16be", "utf-16le", "x-user-defined", "replacement"]
ENC_STRINGS = {
    "*": [b"", b"a", b"ab\x80", b"\xff", b"\x81\x40", b"\x81", b"a\x81", b"\xa1\xa1", b"\x8e\xa1", b"\x8f\xa1\xa1",
          b"\x8f\xa1", b"\xef\xbb\xbfa", b"\xfe\xffa", b"\xff\xfea\x00", b"\x80\x81\xfe\xff", b"\xbe\xc8\xb3\xe7\xc7",
          b"\x81\x30\x81\x30", b"\x81\x30\x81", b"\x81\x30", b"\xfe\x39\xfe\x39", b"\x87\x40", b"\xfd\xfe", b"\xa3\xe0"],
    "iso-2022-jp": [b"\x1b", b"\x1b$", b"\x1b$B", b"\x1b$B\x30", b"\x1b$B\x30\x21", b"\x1b$B\x30\x21\x1b(B", b"\x1b(", b"\x1b(J\x5c",
                    b"\x1b(I\x21", b"a\x1b$", b"\x1b$a", b"\x1b(B\x1b(B", b"\x1b$B\x1b(B", b"\x0e", b"\x1b$@\x30", b"\x1b$B\x30\x1b"],
    "utf-16be": [b"\xd8\x00", b"\xd8\x00\x41", b"\xd8\x00\xdc\x00", b"\xd8\x00\xdc", b"\xdc\x00", b"\x00\x41\x00", b"\xd8\x00\x00\x41",
                 b"\xd8\x00\xd8\x00", b"\xd8\x00\xd8\x00\xdc\x00"],
    "utf-16le": [b"\x00\xd8", b"\x00\xd8\x41", b"\x00\xd8\x00\xdc", b"\x00\xd8\x00", b"\x00\xdc", b"\x41\x00\x41", b"\x00\xd8\x41\x00",
                 b"\x00\xd8\x00\xd8", b"\x00\xd8\x00\xd8\x00\xdc"],
    "gb18030": [b"\x81\x30\x81\x30", b"\x84\x31\xa4\x39", b"\x84\x31\xa5\x30", b"\xe3\x32\x9a\x35", b"\xe3\x32\x9a\x36", b"\x81\x30\x81\x41"],
    "big5": [b"\x88\x62", b"\x88\x64", b"\x88\xa3", b"\x88\xa5", b"\x88", b"\xa1\x40", b"\xa1\x7f", b"\x87\x40"],
    "euc-jp": [b"\x8e\xa1", b"\x8e", b"\x8f\xb0\xa1", b"\x8f\xb0", b"\x8f", b"\xa1\xa1", b"\xa1", b"\x8f\xa1\x41"],
    "shift_jis": [b"\x81\x40", b"\x81", b"\xa1", b"\xf0\x40", b"\xfc\xfc", b"\x81\x7f", b"\x80"],
    "euc-kr": [b"\xbe\xc8", b"\xbe", b"\xbe\x28", b"\x81\x41", b"\xfe\xfe", b"\xc9\xa1"],
    "utf-8": [b"\xe2\x82\xac", b"\xe2\x82", b"\xf0\x9f\x98", b"\xed\xa0\x80", b"\xc0\xaf", b"\xf4\x90\x80\x80"],
    "replacement": [b"a", b"ab", b""],
}

HTML_DOCS = [
    b"<p>a\xffb</p>", b"<p title='\xe2\x82'>x\xe2\x82\xac</p>", b"<!--\xf0\x9f-->x", b"<\xc3\xa9 \xc3=\xa9>y",
    b"<p>\xe2\x82\xac\xf0\x9f\x98\x80z", b"a\xc3", b"<title>\xed\xa0\x80</title>", b"<a href=\xf4\x90>l</a>",
    b"<!DOCTYPE html>\r\n<p>\xc3\xa9\r\n\xff\r\n", b"<script>\xff\xfe</script>", b"<textarea>\n\xe2\x82</textarea>",
    b"&am\xffp;&\xc3\xa9;&#x\xff41;", b"<table><td>\xe9<tr>\xc3\xa9",
]
# documents where a U+FEFF follows a decoder piece boundary that the *decoder* creates (no user chunking needed)
HTML_BOM_DOCS = [b"<p>a\xff\xef\xbb\xbfb", b"\xff\xef\xbb\xbf<p>", b"<p>\xef\xbb\xbf\xff\xef\xbb\xbf"]
XML_DOCS = [b"<p>a\xffb</p>", b"<a b='\xe2\x82'>\xe2\x82\xac</a>", b"<!--\xf0\x9f--><r/>", b"<r>\xc3</r>", b"<\xc3\xa9/>",
            b"<?pi \xff?><r>\xed\xa0\x80</r>", b"<r><![CDATA[\xe2\x82]]></r>",
            b"<a><script>x</script>y\xc3\xa9<b/>z</a>", b"<r><script/>\xe2\x82\xac<script>s</script>u</r>"]


def gen_cases(tier, rng):
    thorough = tier == "thorough"
    cases = []
    # ---- std: the modelled from_utf8 against the real one
    for n in (0, 1, 2):
        for t in itertools.product(range(256), repeat=n):
            cases.append(("utf8\tstd\t" + hx(bytes(t)), "std"))
    alpha = ALPHA_T if thorough else ALPHA_Q
    for n in ((3, 4, 5) if thorough else (3, 4)):
        a = alpha if n <= 3 else (ALPHA_T20 if thorough else ALPHA_Q)
        for t in itertools.product(a, repeat=n):
            cases.append(("utf8\tstd\t" + hx(bytes(t)), "std"))
    # ---- dec cover: every lead class × continuation classes × trailer × every partition × EOF
    bodies = []
    for l in LEADS:
        bodies.append(bytes([l]))
        for s in SECOND:
            bodies.append(bytes([l, s]))
            for c3 in (0x80, 0xBF, 0x41) if not thorough else CONTS + [0x41, 0xC2]:
                bodies.append(bytes([l, s, c3]))
                for c4 in (0x80, 0xBF) if not thorough else CONTS + [0x41]:
                    bodies.append(bytes([l, s, c3, c4]))
    for body in bodies:
        for tr in TRAIL:
            s = body + tr
            for part in partitions(s, k3=True, empties=False):
                cases.append((mk_dec(part), "dec-cover"))
    # empty chunks at every position, and pending bytes met by EOF / by an empty chunk
    for body in bodies[:400:3]:
        for part in partitions(body, k3=True, empties=True):
            cases.append((mk_dec(part), "dec-empty"))
    cases.append(("utf8\tdec\t-", "dec-empty"))
    cases.append(("utf8\tdec\t-|-", "dec-empty"))
    # ---- dec alpha: all short strings over a boundary alphabet × all 2-/3-partitions
    for n in (1, 2, 3):
        for t in itertools.product(alpha, repeat=n):
            for part in partitions(bytes(t)):
                cases.append((mk_dec(part), "dec-alpha"))
    a4 = ALPHA_T20 if thorough else ALPHA_Q
    for t in itertools.product(a4, repeat=4):
        for part in partitions(bytes(t)):
            cases.append((mk_dec(part), "dec-alpha"))
    if thorough:
        # length 5 over a small boundary alphabet × all 2-partitions
        for t in itertools.product([0x41, 0x80, 0xBF, 0xC2, 0xE0, 0xED, 0xF0, 0xF4], repeat=5):
            for part in partitions(bytes(t), k3=False):
                cases.append((mk_dec(part), "dec-alpha"))
    # ---- dec random
    for _ in range(3000 if not thorough else 200000):
        b = bytearray()
        for _ in range(rng.randint(1, 12)):
            r = rng.random()
            if r < 0.5:
                b += rng.choice(GOOD).encode("utf-8")
            elif r < 0.7:
                g = rng.choice(GOOD).encode("utf-8")
                b += g[:rng.randint(0, len(g))]
            elif r < 0.85:
                b.append(rng.choice(ALPHA_T))
            else:
                b.append(rng.randrange(256))
        b = bytes(b)
        cuts = sorted(rng.randint(0, len(b)) for _ in range(rng.randint(0, 6)))
        part, prev = [], 0
        for c in cuts:
            part.append(b[prev:c]); prev = c
        part.append(b[prev:])
        cases.append((mk_dec(part), "dec-random"))
    # ---- enc: real encoding_rs decoders through LossyDecoder
    for enc in ENCODINGS:
        strs = ENC_STRINGS["*"] + ENC_STRINGS.get(enc, [])
        if thorough:
            strs = strs + [bytes(rng.randrange(256) for _ in range(rng.randint(1, 6))) for _ in range(200)]
        for s in strs:
            for part in partitions(s, k3=thorough, empties=False):
                cases.append(("utf8\tenc\t%s\t%s" % (enc, "|".join(hx(c) for c in part)), "enc"))
    # ---- parse: through the real parsers
    for kind, docs in (("html", HTML_DOCS + HTML_BOM_DOCS), ("xml", XML_DOCS)):
        for d in docs:
            for part in partitions(d, k3=thorough and len(d) < 24, empties=False):
                cases.append(("utf8\tparse\t%s\t%s" % (kind, "|".join(hx(c) for c in part)), "parse"))
    # ---- the other front ends: one(), from_iter(), read_from() (short reads, Interrupted), LossyDecoder::utf8,
    #      LossyDecoder::new_from_encoding_rs_decoder(UTF-8)
    fronts = ("one", "iter", "read", "lossy", "rsdec")
    for body in bodies[::(1 if thorough else 5)]:
        for tr in TRAIL[:3]:
            sb = body + tr
            for part in partitions(sb, k3=False, empties=True)[:(None if thorough else 6)]:
                for kind in fronts:
                    cases.append(("utf8\tfront\t%s\t%s" % (kind, "|".join(hx(c) for c in part)), "front"))
    # a decoder the caller configured (new_from_encoding_rs_decoder): BOM sniffing / BOM removal / no BOM handling, on
    # inputs that start with each BOM (and with a BOM cut by a chunk boundary), against the one-shot decode
    boms = [b"\xef\xbb\xbf", b"\xff\xfe", b"\xfe\xff", b"\xef\xbb", b"\xff", b""]
    tails = [b"ab", b"a\x00b\x00", b"\x00a\x00b", b"\xc3\xa9x", b"\xef\xbb\xbfz", b"\xff\xfea\x00"]
    for label in ("utf-8", "utf-16le", "utf-16be", "windows-1252", "shift_jis", "gbk") if thorough else ("utf-8", "utf-16le", "windows-1252"):
        for how in ("bom", "rm", "nobom"):
            for bom in boms:
                for tail in tails:
                    whole = bom + tail
                    for part in partitions(whole, k3=False, empties=True)[:(None if thorough else 5)]:
                        cases.append(("utf8\tencd\t%s\t%s\t%s" % (label, how, "|".join(hx(c) for c in part)), "encd"))
    # reads larger than read_from's 4096-byte buffer, with a multi-byte character straddling each buffer end
    for pad in (4094, 4095, 4096, 4097, 8190, 8191, 8192):
        for ch in (b"\xc3\xa9", b"\xe2\x82\xac", b"\xf0\x9f\x98\x80", b"\xe2\x82", b"\xff"):
            big = b"a" * pad + ch + b"z" * 5
            for kind in fronts:
                cases.append(("utf8\tfront\t%s\t%s" % (kind, hx(big)), "front"))
                cases.append(("utf8\tfront\t%s\t%s" % (kind, hx(big[:pad + 1]) + "|" + hx(big[pad + 1:])), "front"))
    return cases


# ---------------------------------------------------------------- oracle
def oracle(line, out):
    if out is None or out.startswith("PANIC") or out.startswith("ABORT"):
        return "implementation crashed: %s" % out
    f = line.split("\t")
    mode = f[1]
    if mode == "std":
        want = ref_std(unhx(f[2]))
        return None if out == want else "from_utf8: got %s, Python codec says %s" % (out, want)
    if mode == "dec":
        chunks = [unhx(c) for c in f[2].split("|")]
        whole = b"".join(chunks)
        ref = ref_units(whole)
        want_text = "".join(t for t, _ in ref)
        if want_text != whole.decode("utf-8", "replace"):
            return "oracle self-check failed: reference decoder disagrees with Python codec on %r" % whole
        evs = [] if out == "-" else out.split(";")
        # the marked stream: characters with error marks in place
        got = []
        for i, e in enumerate(evs):
            if e == "e":
                if i + 1 >= len(evs) or evs[i + 1] != "t:ef bf bd":
                    return "error call not followed by a U+FFFD piece"
                got.append(None)
            elif e.startswith("t:"):
                b = unhx(e[2:])
                if not b:
                    return "empty text piece delivered"
                try:
                    got.extend(b.decode("utf-8"))
                except UnicodeDecodeError:
                    return "ill-formed UTF-8 handed to the sink as str: %s" % e
            else:
                return "malformed output"
        want = []
        for t, err in ref:
            if err:
                want.append(None)
            want.append(t)
        if got != want:
            gt = "".join(x for x in got if x)
            if gt != want_text:
                return "text differs from from_utf8_lossy: got %r want %r" % (gt, want_text)
            if got.count(None) != want.count(None):
                return "%d errors reported for %d replacements" % (got.count(None), want.count(None))
            return "error calls misplaced in the stream"
        return None
    if mode == "enc":
        s, w = out.split(" ## ")
        w, d = w.split(" D=")
        if s[2:] != w[2:]:
            return "LossyDecoder(%s) chunked gives %s, one-shot decode gives %s" % (f[2], s[2:], w[2:])
        if w[2:].rsplit(" ", 1)[0] != d:
            return "harness reference decode disagrees with Encoding::decode: %s vs %s" % (w, d)
        return None
    if mode == "encd":
        if " ## D=" not in out:
            return "configured decoder %s/%s failed: %s" % (f[2], f[3], out[:200])
        sx, dx = out.split(" ## D=")
        if sx[2:] != dx:
            return ("LossyDecoder::new_from_encoding_rs_decoder(%s, %s) fed in chunks gives %s, the one-shot decode with the same "
                    "configuration gives %s" % (f[2], f[3], sx[2:], dx))
        return None
    if mode == "front":
        if " ## W=" not in out:
            return "front end %s failed: %s" % (f[2], out[:200])
        sw, w = out.split(" ## W=")
        text, nerr = sw[2:].rsplit(" ", 1)
        if text != w:
            return "front end %s delivers %s, String::from_utf8_lossy of the whole input is %s" % (f[2], text, w)
        whole = b"".join(unhx(c) for c in f[3].split("|"))
        want = sum(1 for _, err in ref_units(whole) if err)
        if int(nerr) != want:
            return "front end %s reported %s errors for %d replacements" % (f[2], nerr, want)
        return None
    if mode == "parse":
        a, b = out.split(" ## ")
        return None if a == b else "tree via from_utf8() differs from tree of the lossy string: %s vs %s" % (a, b)
    return "malformed case"


def compare(line, impl, model):
    mode = line.split("\t")[1]
    if mode in ("enc", "encd", "parse", "front"):
        return model == "no-model"
    return impl == model


def nontrivial(line, out):
    if out is None:
        return False
    mode = line.split("\t")[1]
    if mode == "dec":
        return "e" in out.split(";") or any(int(x, 16) >= 0x80 for x in line.split("\t")[2].replace("|", " ").replace("-", " ").split())
    if mode == "std":
        return out != "ok" or "c" in line or "e" in line or "f" in line
    return "fffd" in out or "%fffd;" in out or "|" in line.split("\t")[-1]


def neighbourhood(line):
    f = line.split("\t")
    if f[1] != "dec":
        return []
    whole = b"".join(unhx(c) for c in f[2].split("|"))
    return [mk_dec(p) for p in partitions(whole)][:200]


def _bom_defect(fl):
    """defect 3 (tokenizer strips U+FEFF at the start of every feed) seen through from_utf8(); fixed in /repo"""
    if fl.case is None or "\tparse\t" not in fl.case:
        return False
    whole = b"".join(unhx(c) for c in fl.case.split("\t")[3].split("|"))
    return "\ufeff" in whole.decode("utf-8", "replace")[1:] and "%feff;" in (fl.impl or "")


# ids under which a re-appearance of an already fixed defect may be matched in known_findings.json
KNOWN_MATCHERS = {"F3": _bom_defect}


def extra_evidence(check):
    fams = {}
    for (line, tag), io in zip(check.cases, check.impl):
        fams.setdefault(tag.split(":")[0], 0)
        fams[tag.split(":")[0]] += 1
    return {"families": fams, "encodings": ENCODINGS, "lead_bytes": ["%x" % x for x in LEADS],
            "second_bytes": ["%x" % x for x in SECOND]}
