"""Shared helpers of C16 / C17: protocol syntax of the engines `xmltb` / `xmlser`, an XML renderer for
structurally generated token lists, and an INDEPENDENT lexical-scope namespace resolver (the
reference the oracles compare the real code against; it shares nothing with the Lean model)."""

XML_URI = "http://www.w3.org/XML/1998/namespace"
XMLNS_URI = "http://www.w3.org/2000/xmlns/"


def hx(s):
    return " ".join("%x" % ord(c) for c in s) if s else "-"


def dh(s):
    if s is None:
        return "~"
    return ".".join("%x" % ord(c) for c in s) if s else "-"


def undh(s):
    if s == "~":
        return None
    if s == "-":
        return ""
    return "".join(chr(int(x, 16)) for x in s.split("."))


# ---------------------------------------------------------------- tokens
# raw token: ("S"|"M"|"E"|"H", rawname, [(rawattr, value), ...]) | ("T", text) | ("C", text)
#            | ("P", target, data) | ("D", name, pub, sys) | ("N",) | ("Z",)
# split token: same with names as (prefix|None, local)

def split_qname(raw):
    """exactly one colon, neither first nor last"""
    if raw.count(":") == 1 and not raw.startswith(":") and not raw.endswith(":"):
        p, l = raw.split(":")
        return (p, l)
    return (None, raw)


def enc_raw_token(t):
    k = t[0]
    if k in "SMEH":
        parts = [k, dh(t[1])]
        for n, v in t[2]:
            parts += [dh(n), dh(v)]
        return ",".join(parts)
    return ",".join([k] + [dh(x) for x in t[1:]])


def enc_split_token(t):
    k = t[0]
    if k in "SMEH":
        parts = [k, dh(t[1][0]), dh(t[1][1])]
        for (p, l), v in t[2]:
            parts += [dh(p), dh(l), dh(v)]
        return ",".join(parts)
    return ",".join([k] + [dh(x) for x in t[1:]])


def enc_list(toks, enc):
    return ";".join(enc(t) for t in toks) if toks else "-"


def dec_tokens(field, raw):
    """decode a token field back to split tokens (raw names are split here)"""
    out = []
    if field == "-":
        return out
    for s in field.split(";"):
        p = s.split(",")
        k = p[0]
        if k in "SMEH":
            if raw:
                name = split_qname(undh(p[1]))
                rest = p[2:]
                attrs = [(split_qname(undh(rest[i])), undh(rest[i + 1])) for i in range(0, len(rest), 2)]
                out.append((k, name, attrs, undh(p[1])))
            else:
                name = (undh(p[1]), undh(p[2]))
                rest = p[3:]
                attrs = [((undh(rest[i]), undh(rest[i + 1])), undh(rest[i + 2])) for i in range(0, len(rest), 3)]
                out.append((k, name, attrs))
        else:
            out.append(tuple([k] + [undh(x) for x in p[1:]]))
    return out


def esc_text(s):
    return s.replace("&", "&amp;").replace("<", "&lt;")


def esc_attr(s):
    return s.replace("&", "&amp;").replace('"', "&quot;").replace("<", "&lt;")


def render(toks):
    """XML source text of a raw token list (names / values must come from lexically safe alphabets)"""
    out = []
    for t in toks:
        k = t[0]
        if k in "SME":
            s = "<" + ("/" if k == "E" else "") + t[1]
            for n, v in t[2]:
                s += ' %s="%s"' % (n, esc_attr(v))
            s += "/>" if k == "M" else ">"
            out.append(s)
        elif k == "H":
            out.append("</>")
        elif k == "T":
            out.append(esc_text(t[1]))
        elif k == "C":
            out.append("<!--%s-->" % t[1])
        elif k == "P":
            out.append("<?%s %s?>" % (t[1], t[2]))
        elif k == "D":
            out.append("<!DOCTYPE %s>" % t[1])
        elif k == "Z":
            pass
        else:
            raise ValueError(k)
    return "".join(out)


# ---------------------------------------------------------------- dumps

class Elem:
    __slots__ = ("prefix", "ns", "local", "attrs", "kids")

    def __init__(self, prefix, ns, local, attrs, kids):
        self.prefix, self.ns, self.local, self.attrs, self.kids = prefix, ns, local, attrs, kids

    def key(self):
        return ("e", self.prefix, self.ns, self.local, tuple(self.attrs), tuple(k.key() if isinstance(k, Elem) else k for k in self.kids))


def parse_dump(d):
    """-> list of nodes: Elem | ("t", s) | ("c", s) | ("p", t, d) | ("d", n, p, s)"""
    if d == "-":
        return []
    pos = [0]

    def word():
        i = pos[0]
        j = i
        while j < len(d) and d[j] in "0123456789abcdef.-~":
            j += 1
        pos[0] = j
        return d[i:j]

    def expect(c):
        assert d.startswith(c, pos[0]), (d, pos[0], c)
        pos[0] += len(c)

    def name():
        p = undh(word()); expect(":")
        ns = undh(word()); expect(":")
        l = undh(word())
        return (p, ns, l)

    def nodes():
        out = []
        while pos[0] < len(d) and d[pos[0]] != ")":
            out.append(node())
        return out

    def node():
        tag = d[pos[0]:pos[0] + 2]
        pos[0] += 2
        if tag == "t[":
            s = undh(word()); expect("]")
            return ("t", s)
        if tag == "c[":
            s = undh(word()); expect("]")
            return ("c", s)
        if tag == "p[":
            t = undh(word()); expect(":")
            dd = undh(word()); expect("]")
            return ("p", t, dd)
        if tag == "d[":
            n = undh(word()); expect(":")
            p = undh(word()); expect(":")
            s = undh(word()); expect("]")
            return ("d", n, p, s)
        assert tag == "e[", tag
        nm = name()
        attrs = []
        while d[pos[0]] == " ":
            pos[0] += 1
            an = name(); expect("=")
            attrs.append((an, undh(word())))
        expect("](")
        kids = nodes()
        expect(")")
        return Elem(nm[0], nm[1], nm[2], attrs, kids)

    out = nodes()
    assert pos[0] == len(d)
    return out


def dump_nodes(nodes):
    out = []
    for n in nodes:
        if isinstance(n, Elem):
            s = "e[%s:%s:%s" % (dh(n.prefix), dh(n.ns), dh(n.local))
            for (p, ns, l), v in n.attrs:
                s += " %s:%s:%s=%s" % (dh(p), dh(ns), dh(l), dh(v))
            out.append(s + "](" + dump_nodes(n.kids) + ")")
        elif n[0] == "t":
            out.append("t[%s]" % dh(n[1]))
        elif n[0] == "c":
            out.append("c[%s]" % dh(n[1]))
        elif n[0] == "p":
            out.append("p[%s:%s]" % (dh(n[1]), dh(n[2])))
        elif n[0] == "d":
            out.append("d[%s:%s:%s]" % (dh(n[1]), dh(n[2]), dh(n[3])))
    return "".join(out)


def parse_out(out):
    """engine output `k=v;k=v` -> dict"""
    r = {}
    for part in out.split(";"):
        k, _, v = part.partition("=")
        r[k] = v
    return r


def preorder(nodes, depth=0):
    for n in nodes:
        if isinstance(n, Elem):
            yield (depth, n)
            for x in preorder(n.kids, depth + 1):
                yield x


def show_name(n):
    p, ns, l = n
    return "%s{%s}%s" % ((p + ":") if p is not None else "", ns, l)


# ---------------------------------------------------------------- the reference resolver
# Namespaces in XML, lexical scoping, as the property states it:
#   * `xml` -> XML_URI and `xmlns` -> XMLNS_URI are fixed
#   * xmlns="u" sets the default namespace for this element and its descendants, xmlns="" un-binds it
#   * xmlns:p="u" binds p, xmlns:p="" un-binds it
#   * the default namespace applies to unprefixed ELEMENT names only; unprefixed attributes have none
#   * a declaration is visible in its own tag (end tags included) and in descendants only
#   * an unbound / un-declared prefix gives the empty namespace (upstream reports a parse error)
#   * a declaration whose value is XMLNS_URI, and any declaration for the prefixes xml / xmlns, has no
#     effect (upstream: parse error); of several declaration attributes with one qualified name in a tag
#     only the FIRST is looked at (later ones are duplicate attributes), whether or not it has an effect
# Tree-builder recovery (which tag closes which element) follows XML5 as implemented: an end tag
# closes up to and including the nearest open element with the same expanded name, or is ignored;
# `</>` closes the current element; nothing is created after the root element is closed or after EOF.

def is_decl(name):
    p, l = name
    return p == "xmlns" or (p is None and l == "xmlns")


def decl_of(name, value):
    """-> (prefix-or-None, uri-or-None) or None if the declaration has no effect"""
    p, l = name
    if value == XMLNS_URI:
        return None
    if p == "xmlns":
        if l in ("xml", "xmlns"):
            return None
        return (l, value or None)
    return (None, value or None)


def lookup(env, prefix):
    if prefix == "xml":
        return XML_URI
    if prefix == "xmlns":
        return XMLNS_URI
    for frame in env:
        if prefix in frame:
            return frame[prefix] or ""
    return ""


def resolve_tag(env, name, attrs):
    """-> (frame, element QualName, list of (QualName, value, is_declaration) for every attribute)"""
    frame = {}
    seen_qnames = set()
    for an, v in attrs:
        if an in seen_qnames:
            continue            # a later attribute with the same qualified name is a duplicate: no effect at all
        seen_qnames.add(an)
        if is_decl(an):
            d = decl_of(an, v)
            if d is not None and d[0] not in frame:
                frame[d[0]] = d[1]
    env2 = [frame] + env
    ename = (name[0], lookup(env2, name[0]), name[1])
    out = []
    for an, v in attrs:
        if is_decl(an):
            out.append(((an[0], XMLNS_URI, an[1]), v, True))
        elif an[0] is None:
            out.append(((None, "", an[1]), v, False))
        else:
            out.append(((an[0], lookup(env2, an[0]), an[1]), v, False))
    return frame, ename, out


def resolve(tokens):
    """tokens: split tokens.  -> list of (depth, element QualName, resolved attribute list)"""
    created = []
    where = "prolog"
    scopes = []  # innermost first: (expanded name, frame)
    for t in tokens:
        k = t[0]
        if where == "epilog":
            continue
        if k in ("Z",) or (k == "N" and where == "content"):
            where = "epilog"
            continue
        if k not in "SMEH":
            continue
        name, attrs = t[1], t[2]
        env = [f for _, f in scopes]
        if where == "prolog":
            if k in "SM":
                frame, en, ras = resolve_tag(env, name, attrs)
                created.append((0, en, ras))
                if k == "S":
                    scopes.insert(0, ((en[1], en[2]), frame))
                    where = "content"
                else:
                    where = "epilog"
            continue
        # content
        if k in "SM":
            frame, en, ras = resolve_tag(env, name, attrs)
            created.append((len(scopes), en, ras))
            if k == "S":
                scopes.insert(0, ((en[1], en[2]), frame))
        elif k == "E":
            _, en, _ = resolve_tag(env, name, attrs)
            key = (en[1], en[2])
            idx = [i for i, (nm, _) in enumerate(scopes) if nm == key]
            if idx:
                del scopes[:idx[0] + 1]
        elif k == "H":
            del scopes[:1]
        if not scopes:
            where = "epilog"
    return created
