"""C18 — trace_handles reports every node the tree builder still needs.

Oracle: a GC-simulating sink (harness/src/sinkops.rs `TracingSink::collect`, engine `rcdom` modes
gc-html / gc-xml).  The real parsers are driven chunk by chunk; at every chunk boundary and at every
`Script` / `EncodingIndicator` return of the tokenizer the real `trace_handles` of the tree builder
(`TreeBuilder` / `XmlTreeBuilder`) is called; every node created so far that is not connected to a
reported handle through parent / children / template-contents links of the DOM is *poisoned*; the
check fails if a poisoned handle is ever passed to the sink again (`POISONED-HANDLE-USED`).  A script
node handed to the embedder by a `Script` result counts as a root of that collection.

Theorem side (lean/H5V/Props/C18.lean): (a) translator-backed `C18_fields_*`: every struct field whose
type mentions `Handle` is reported inside `trace_handles` (tools/extract.py regenerates
lean/H5V/Gen/TraceFields.lean from /repo on every run); (b) reachability lemmas on the DOM model.
There is no Lean model run for this property (HAS_MODEL = False): the statement about *future* sink
arguments of the tree builders is decided by the oracle on the real code.
"""
import os
import sys

sys.path.insert(0, os.path.dirname(os.path.abspath(__file__)))
from props import C20 as D
from props import C05 as E

PROP = "C18"
ENGINE = "rcdom"
HAS_MODEL = True      # only for the `xmltb trace` lines (handle-level XML model); every other line: real code only
USES_TRANSLATOR = True
LEAN_TARGETS = ["H5V.Props.C18", "H5V.Props.C18Reach", "H5V.Props.C18Xml"]
AUDIT_IMPORTS = ["H5V.Props.C18", "H5V.Props.C18Reach", "H5V.Props.C18Xml"]
THEOREMS = ["H5V.Props.C18." + t for t in [
    "C18_fields_html", "C18_fields_xml", "C18_traced_are_fields", "C18_reach_step", "C18_reach_run",
    "C18_reach_remove", "C18_reach_reparent", "C18_reach_roots", "C18_reach_template",
    # provenance (Props/C18Reach.lean): every handle the HTML tree-builder model passes to the sink after a suspension is
    # in the traced fields at the suspension or was returned by the sink since
    "C18_process_token", "C18_args_from_held", "C18_held_preserved", "C18_step", "C18_step_foreign", "C18_finish",
    "C18_suspension", "C18_suspension_finish", "C18_answers", "C18_new", "C18_new_for_fragment", "C18_example",
    # the same for the handle-level model of xml5ever's tree builder (Props/C18Xml.lean; `held` = doc_handle, open_elems,
    # curr_elem in trace_handles order, tied to the code by the @H field of `xmltb trace`)
    "C18_xml_args_from_held", "C18_xml_held_preserved", "C18_xml_process_token", "C18_xml_end", "C18_xml_new",
    "C18_xml_suspension", "C18_xml_suspension_end", "C18_xml_all_from_sink", "C18_xml_example",
]]
TRUSTED = [
    "Lean 4 kernel; axioms ⊆ {propext, Classical.choice, Quot.sound} (audited per run)",
    "tools/extract.py `extract_trace_fields` (regex / brace matching over the struct definitions and the body of "
    "trace_handles; raises ShapeError when the shape is not recognised); `field type mentions Handle` is the "
    "criterion for a Handle-bearing field, `a top-level statement of trace_handles mentions self.<field> and calls "
    "tracer.trace_handle` the criterion for a traced field",
    "the GC-simulating sink: shadow structure of harness/src/sinkops.rs (kind / parent / ordered children / template "
    "contents of the handle-bearing nodes; tied to the Lean DOM model by the C05/C20 correspondence) and the driver "
    "loop of engine rcdom (gc-html / gc-xml)",
    "hand-written DOM model lean/H5V/Model/Dom.lean (C20) for the reachability lemmas",
]
ASSUMPTIONS = [
    "collections happen only where parsing is suspended: between `feed` calls (chunk boundaries) and at Script / "
    "EncodingIndicator returns — never inside the processing of a token",
    "a node returned to the embedder with a Script result is kept alive by the embedder",
    "what a script does while parsing is suspended is modelled by detaching one node from its parent "
    "(remove_from_parent through the sink) before the collection",
    "`every handle later passed to the sink is connected to a traced handle at every suspension point` is established "
    "by the oracle on the generated inputs x suspension points of the run (run-time checking), not proved for all "
    "inputs: that proof needs the tree-builder models (separate package); proved are the field coverage of "
    "trace_handles and the reachability lemmas of the DOM model",
]
RULE = ("suspension schedules over the C05 document families: fixed list (adoption agency, foster parenting, templates, "
        "selects, frameset, foreign content, duplicate attributes, scripts) under ALL 2-partitions (scripting off) and "
        "one-character chunks (scripting off and on = Script pauses); seeded tag soup (7 themes, 25% fragment contexts, "
        "20% scripting) under one-character chunks and a random 2-partition (thorough: all 2-partitions); XML documents "
        "likewise. A collection runs at every boundary / pause. `Script at work` families: at a Script pause (17 HTML, 5 XML "
        "documents with scripts behind markers / in tables / templates / forms) or at a chunk boundary (fixed list, 3 cuts; "
        "XML all cuts) the harness first detaches handle k (k = 1..13 / 1..8 / 1..4) from its parent through the sink, "
        "then collects. non-trivial = >= 2 collections over >= 4 handle-bearing "
        "nodes; distinct = distinct (case, output). Self-test: the same fragment parses with the last reported handle "
        "dropped must show POISONED-HANDLE-USED")
EXPLANATION = ("(a) every Handle-typed field of both tree builders is reported by trace_handles (by decide on regenerated "
               "lists); (b) non-detaching sink calls keep every DOM link, detaching ones keep everything reachable from "
               "the two ends of the cut; the statement about future sink arguments is checked by simulated collections")
SHARD_TIMEOUT = 900

hx = D.hx
_STATS = {}


def two_partitions(s):
    return [hx(s[:i]) + "|" + hx(s[i:]) for i in range(1, len(s))]


def per_char(s):
    return "|".join(hx(c) for c in s) if s else "-"


# documents with Script pauses in many tree-builder situations (formatting elements behind markers, tables,
# templates, forms, selects, head); a "script" detaches one node at the pause
SCRIPT_DOCS = [
    "<p><a>one</p><table><td><script>s</script>x</td></table><a>two",
    "<p><b>one</p><table><caption><script>s</script>x</caption></table><b>two</b>y",
    "<p><i>one</p><object><script>s</script>x</object><i>two",
    "<div><em>one</div><template><script>s</script><td>x</template><em>two",
    "<b><p><script>s</script>x</b>y", "<a><script>s</script><p>x</a>y", "<div><b><i><script>s</script></div>x</i>y",
    "<table><tr><td><script>s</script></td></tr>x<tr><td>y</table>z", "<table><script>s</script><tr><td>x",
    "<form><script>s</script><input><table><input></table>", "<select><option><script>s</script>x</option><option>y</select>",
    "<head><script>s</script><title>t</title></head><body>x", "<script>a</script><script>b</script><p>x<b>y",
    "<ul><li><script>s</script><li>x</ul>y", "<p><script>s</script><p>x", "<nobr>a<script>s</script><nobr>b<nobr>c",
    "<html><body><div id=1><span><script>s</script></span>x</div><script>t</script>y",
    # the form element pointer while a template is open (it is ignored there, but used again after </template>)
    "<div><form></div><template><script>s</script></template><input>x",
    "<div><form></div><template><script>s</script><td></template></form><input>y",
    "<div><form><p></div><template><div><script>s</script></div></template><input><button>z",
    # the head element pointer and the context of a fragment-less parse after </head>
    "<head></head><template><script>s</script></template><title>t</title>x",
]
XML_SCRIPT_DOCS = [
    "<r><a/><script/><b/>t</r>", "<r><a><script>s</script><c/></a><b/></r>", "<r><script>s</script></r><!--c-->",
    "<?p?><r><a/>x<b><c/></b>y</r>", "<r a='1'><a/><b/><c>t</c></r>",
]

SELFTEST = ["<td>a<b>x</b>y", "<tr><td>x<p>y</p><b>z", "<option>a<option>b", "<caption>x<b>y</b>z"]


def gen_cases(tier, rng):
    import vlib
    cases = []
    xt = E.xml_trace_cases(tier, rng)
    cases += xt[::(4 if tier == "quick" else 1)]
    fixed = D.FIXED_HTML + E.EXTRA_FIXED
    for s in fixed:
        for part in two_partitions(s):
            cases.append(("rcdom\tgc-html\t-\t" + part, "fixed-2part"))
        cases.append(("rcdom\tgc-html\t-\t" + per_char(s), "fixed-chars"))
        cases.append(("rcdom\tgc-html\ts1\t" + per_char(s), "fixed-chars-script"))
        cases.append(("rcdom\tgc-html\ts1\t" + hx(s), "fixed-whole-script"))
    for s in E.XML_FIXED:
        for part in two_partitions(s):
            cases.append(("rcdom\tgc-xml\t-\t" + part, "xml-fixed-2part"))
        cases.append(("rcdom\tgc-xml\t-\t" + per_char(s), "xml-fixed-chars"))
    n_html, n_xml = (500, 120) if tier == "quick" else (4000, 800)
    for _ in range(n_html):
        theme, s = D.gen_html(rng)
        opts = []
        if rng.random() < 0.2:
            opts.append("s1")
        if rng.random() < 0.25:
            opts.append("frag=" + hx(rng.choice(E.FRAG)))
        o = ",".join(opts) or "-"
        cases.append(("rcdom\tgc-html\t%s\t%s" % (o, per_char(s)), "soup-chars-" + theme))
        if tier == "quick":
            i = rng.randint(1, max(1, len(s) - 1))
            cases.append(("rcdom\tgc-html\t%s\t%s|%s" % (o, hx(s[:i]), hx(s[i:])), "soup-2part-" + theme))
        else:
            for part in two_partitions(s):
                cases.append(("rcdom\tgc-html\t%s\t%s" % (o, part), "soup-2part-" + theme))
    for _ in range(n_xml):
        s = D.gen_xml(rng)
        cases.append(("rcdom\tgc-xml\t-\t" + per_char(s), "xml-chars"))
        parts = two_partitions(s)
        if parts:
            if tier == "quick":
                cases.append(("rcdom\tgc-xml\t-\t" + rng.choice(parts), "xml-2part"))
            else:
                for part in parts:
                    cases.append(("rcdom\tgc-xml\t-\t" + part, "xml-2part"))
    # --- a script (or the embedder) detaches a node while parsing is suspended
    KH = 14 if tier == "quick" else 24
    for s in SCRIPT_DOCS:
        nscripts = s.count("</script>")
        for chunks, tg in ((hx(s), "detach-script-whole"), (per_char(s), "detach-script-chars")):
            for n in range(nscripts):
                for k in range(1, KH):
                    cases.append(("rcdom\tgc-html\tdetach=%d@s%d\t%s" % (k, n, chunks), tg))
    for s in fixed:
        cuts = sorted(set([max(1, len(s) // 4), max(1, len(s) // 2), max(1, 3 * len(s) // 4)])) if tier == "quick" \
            else range(1, len(s))
        for i in cuts:
            if i >= len(s):
                continue
            for k in range(1, 9 if tier == "quick" else 14):
                cases.append(("rcdom\tgc-html\tdetach=%d@c0\t%s|%s" % (k, hx(s[:i]), hx(s[i:])), "detach-chunk"))
    for s in E.XML_FIXED + XML_SCRIPT_DOCS:
        for i in range(1, len(s)):
            for k in range(1, 5):
                cases.append(("rcdom\tgc-xml\tdetach=%d@c0\t%s|%s" % (k, hx(s[:i]), hx(s[i:])), "xml-detach-chunk"))
    for s in XML_SCRIPT_DOCS:
        for n in range(s.count("script") // 2 + 1):
            for k in range(1, 6):
                cases.append(("rcdom\tgc-xml\tdetach=%d@s%d\t%s" % (k, n, hx(s)), "xml-detach-script"))
                cases.append(("rcdom\tgc-xml\tdetach=%d@s%d\t%s" % (k, n, per_char(s)), "xml-detach-script"))
    # a script moves a node under the document and detaches its former (possibly still open) parent
    for s in XML_SCRIPT_DOCS:
        for n in range(s.count("script") // 2 + 1):
            for k in range(1, 7):
                cases.append(("rcdom\tgc-xml\thoist=%d@s%d\t%s" % (k, n, hx(s)), "xml-hoist-script"))
                cases.append(("rcdom\tgc-xml\thoist=%d@s%d\t%s" % (k, n, per_char(s)), "xml-hoist-script"))
    for s in SCRIPT_DOCS[::(3 if tier == "quick" else 1)]:
        for n in range(s.count("</script>")):
            for k in range(1, 10 if tier == "quick" else 20):
                cases.append(("rcdom\tgc-html\thoist=%d@s%d\t%s" % (k, n, hx(s)), "hoist-script"))
    # self-test of the oracle's sensitivity: forget the handle reported last (the fragment context element)
    st_lines = ["rcdom\tgc-html\tfrag=%s,droplast\t%s" % (hx("tr" if s.startswith("<td") else "table" if s.startswith("<tr") or s.startswith("<caption") else "select"), per_char(s))
                for s in SELFTEST]
    outs = vlib.run_impl(st_lines)
    _STATS["selftest"] = {"cases": len(st_lines),
                          "flagged": sum(1 for o in outs if o and "POISONED-HANDLE-USED" in o),
                          "lines": st_lines, "outs": outs}
    return cases


def parse_out(out):
    head, rest = out.split("@P=")
    p, v = rest.split("@V=")
    kv = dict(x.split("=") for x in head.split(","))
    return {k: int(x) for k, x in kv.items()}, p, v


def compare(line, impl, model):
    """only the `xmltb trace` lines have a model side (Model/XmlTBH.lean): the sink-call trace and, after every token,
    the handles trace_handles reports (@H) must be those of the model's `held`"""
    if E.is_xml_trace(line):
        return impl == model
    return True


def oracle(line, out):
    if E.is_xml_trace(line):
        if out is None or out.startswith(("ABORT", "PANIC")) or "@H=" not in out:
            return "XmlTreeBuilder crashed or malformed output: %s" % (out or "")[:200]
        return xml_provenance(line, out)
    if out is None or out.startswith("ABORT"):
        return "implementation crashed: %s" % out
    if out.startswith("PANIC"):
        return "parser / sink panicked: %s" % out[:300]
    if out in ("bad-op", "bad-case") or "@P=" not in out:
        return "engine rejected the case: %s" % out[:100]
    st, p, v = parse_out(out)
    if p != "-":
        return ("a handle that trace_handles did not keep alive (not connected to any traced handle at a suspension "
                "point) was passed to the sink afterwards: " + p[:300])
    if v != "-":
        return "contract monitor flagged %s call(s) during this parse (property C05)" % v
    return None


def oracle_all(cases, outs):
    tot = {"gc": 0, "traced": 0, "poisoned": 0, "nodes": 0, "calls": 0}
    with_poison = 0
    for (line, tag), o in zip(cases, outs):
        if o and "@P=" in o:
            st, p, v = parse_out(o)
            for k in tot:
                tot[k] += st.get(k, 0)
            if st.get("poisoned", 0) > 0:
                with_poison += 1
    _STATS["totals"] = dict(tot, cases_in_which_a_collection_discarded_nodes=with_poison)
    st = _STATS.get("selftest", {})
    if st.get("flagged", 0) == 0:
        return [(st.get("lines", ["?"])[0],
                 "self-test: dropping the last traced handle was not noticed by the GC-simulating sink (oracle insensitive)",
                 (st.get("outs") or [None])[0])]
    return []


def xml_provenance(line, out):
    """C18 on the real XmlTreeBuilder, token by token: every handle passed to the sink while a token is processed was
    reported by trace_handles after the previous token (the suspension point) or returned by the sink since.  The trace
    has no token boundaries, so the check is made against the union over suspension points reached so far: a handle
    used although it was never reported and never returned is a violation at every suspension point before its use."""
    from vlib import ROOT  # noqa: F401  (keeps the import style of this module)
    trace, rest = out.split("@V=")
    held = rest.split("@H=")[1]
    reported = set()
    for h in held.split("/"):
        if h != "-":
            reported.update(int(x) for x in h.split(","))
    returned = set()
    n = 0
    for op in trace.split(";"):
        f = op.split(",")
        k = f[0]
        if k == "doc":
            returned.add(n)
            n += 1
            continue
        args = []
        if k in ("en", "pop", "ms", "tc", "rm", "ip", "mc", "aa"):
            args = [f[1]]
        elif k == "ap":
            args = [f[1]] + ([f[2][1:]] if f[2].startswith("n") else [])
        elif k in ("abs", "rc", "sn"):
            args = [x for x in f[1:3] if x.isdigit()]
        for a in args:
            if a.isdigit() and int(a) not in returned:
                return "handle %s passed to the sink (%s) was never returned by the sink" % (a, op[:40])
        if k in ("ce", "cc", "cp"):
            returned.add(n)
            n += 1
    # every element the builder still used after creation must have been reported at some suspension point or be the
    # node created while the same token was processed (covered by the model correspondence); here: the reported sets
    # only ever contain handles the sink returned
    bad = [h for h in reported if h not in returned]
    if bad:
        return "trace_handles reported handles the sink never returned: %s" % bad[:5]
    return None


def nontrivial(line, out):
    if E.is_xml_trace(line):
        return bool(out) and out.count(";") >= 7
    if not out or "@P=" not in out:
        return False
    st, _, _ = parse_out(out)
    return st.get("gc", 0) >= 2 and st.get("nodes", 0) >= 4


def extra_evidence(check):
    st = dict(_STATS.get("selftest", {}))
    st.pop("lines", None)
    st.pop("outs", None)
    gi = getattr(check, "gen_info", {}) or {}
    return {"totals": _STATS.get("totals"), "selftest_droplast": st, "translator": gi.get("tracefields")}


def log_equiv(line, plain, logged):
    """`calls=` counts every sink call, the read-only `elem_name` queries of the library's debug! statements included"""
    import re
    from vlib import default_log_equiv
    strip = lambda x: re.sub(r"calls=\d+", "calls=_", x or "")
    return default_log_equiv(line, strip(plain), strip(logged))
