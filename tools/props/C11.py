"""C11 — tendrils behave as independent owned strings under every operation.

Also hosts the case generators and the Python reference shared with C12 (same engine `tendril`)."""
PROP = "C11"
ENGINE = "tendril"
LEAN_TARGETS = ["H5V.Props.C11", "H5V.Lemmas.TendrilUtf8", "H5V.Lemmas.TendrilWtf8"]
AUDIT_IMPORTS = ["H5V.Props.C11", "H5V.Lemmas.TendrilUtf8", "H5V.Lemmas.TendrilWtf8"]
THEOREMS = ["H5V.Props.C11." + t for t in [
    "C11_step_refines", "C11_run_refines", "C11_reachable_wf", "C11_independent",
    "C11_checked_pop_front", "C11_checked_pop_back", "C11_checked_subtendril", "C11_push_checked",
    "C11_format_valid", "C11_no_ub", "C11_no_spurious_panic",
    "C11_witness_oflow_2gib", "C11_wtf8_validate_rejects_stray", "C11_witness_wtf8_validate_pinned",
    "laws_bytes", "laws_ascii", "laws_latin1",
]] + ["H5V.Lemmas.Tendril.Utf8." + t for t in [
    "laws_utf8", "C11_utf8_valid", "utf8_valid_append", "utf8_suffix_exact", "utf8_prefix_exact",
    "utf8_subseq_exact", "utf8_encode_valid", "utf8_chars_cut", "whole0_eq", "validUtf8_iff"]] + [
    "H5V.Lemmas.Tendril.Wtf8." + t for t in [
        "laws_wtf8_partial", "not_laws_wtf8", "wtf8Validate_iff", "wtf8_push_valid", "wtf8_fixup_trivial",
        "wtf8_suffix_exact", "wtf8_prefix_exact", "wtf8_subseq_exact", "wtf8_fixup_ok", "wtf8_join_encode"]] + [
    "H5V.Props.C11.Laws.toFx"]
TRUSTED = [
    "Lean 4 kernel; axioms ⊆ {propext, Classical.choice, Quot.sound} (audited per run)",
    "hand-written model lean/H5V/Model/Tendril.lean of tendril/src/{tendril,buf32,fmt,futf,util}.rs, tied by the "
    "`tendril` correspondence (harness/src/engines/tendril.rs vs h5vdriver) on the cases of this run: result code, "
    "bytes, representation kind (inline/owned/shared via the Debug impl), buffer-sharing groups (is_shared_with) "
    "and allocation events with capacities (global-allocator ledger) after every operation",
    "modelled, not verified: pointer provenance and the transmutes between formats/atomicities (identity in the "
    "model), Vec/allocator internals (with_capacity exact, reserve_exact = realloc), size_of::<Header>() = 16 "
    "(64-bit), str::from_utf8 (as Unicode Table 3-7 `validUtf8`), str::char_indices (same table decoder)",
    "panics are modelled as leaving the pool unchanged; the only panic after a mutation in the Rust is OFLOW in "
    "Buf32::grow after make_owned (> 2 GiB, not exercised)",
]
ASSUMPTIONS = [
    "lengths are natural numbers with the crate's checked u32 arithmetic as explicit panic branches; below 2^30 bytes "
    "the model panics only where the owned-string specification does (C11_no_spurious_panic); at 2^31 a push that "
    "needs growth panics with OFLOW although the documented limit is 4 GB (C11_witness_oflow_2gib, confirmed on the "
    "real code outside the protocol) — outside the tested range",
    "the refinement theorems are proved for Bytes, ASCII, Latin1 and UTF8 (Laws instances). WTF-8 is not an instance "
    "of Laws (not_laws_wtf8: its concatenation has the surrogate fix-up, the specification of Laws is plain append); "
    "its format laws with fix-up are proved (laws_wtf8_partial : LawsFx — validation exact on parts of valid "
    "strings, push with fix-up keeps validity, no fix-up inside a valid string) but the refinement theorem is not "
    "yet re-stated over LawsFx (needs a buffer-level validity invariant for the zero-copy merge of adjacent views); "
    "until then WTF-8 is covered by C12's safety theorems, the correspondence and the Python reference. The defect this check found in "
    "WTF8::validate (stray continuation byte accepted; C11_witness_wtf8_validate_pinned) is fixed in /repo "
    "(218f57f) and the model follows the fix (C11_wtf8_validate_rejects_stray); corpus/C11/wtf8_validate.case is "
    "the regression corpus",
    "refcount overflow (2^64 clones; Atomic::increment does not check) is out of scope",
]
RULE = ("op histories over a pool of 4 tendrils, 5 formats × {NonAtomic, Atomic}: exhaustive cover = every op "
        "(push/try_push/push_slice/push_char/push_tendril/pop_front/pop_back/try_*/subtendril/clone/clear/drop/"
        "pop_front_char/pop_front_char_run/into_send round trip/reserve/with_capacity/DerefMut store) from every "
        "representation (inline, owned, owned with small length, shared refcount 2, shared sole owner, shared with "
        "offset, shared-adjacent / non-adjacent / other-buffer / clone operands for push_tendril) at lengths "
        "0,1,7,8,9,15,16,17,31,32,33 with boundary arguments, followed by a mutation of every slot; UTF-8 / WTF-8 "
        "contents put every cut position in every phase of 1–4-byte characters; validation at every edge of the "
        "well-formed UTF-8 byte ranges, stray continuation bytes, all lead × trail surrogate joins in every "
        "representation (thorough: every pair of leading bytes × 6 tails); exhaustive push_tendril grid over one shared "
        "64-byte buffer (receiver and argument views with offsets 0,1,5,8,9,16,20,31 × lengths 0,1,8,9,10,16, produced "
        "by subtendril and by pop_front/pop_back, both orders); then seeded random histories. "
        "non-trivial = some op changed a tendril or returned a character / error; distinct = distinct (case, output)")
EXPLANATION = ("theorems: every op of the model refines the byte-list spec on its own slot and leaves abs of every "
               "other slot unchanged, for all heaps/pools satisfying WF, WF is preserved, lifted to all histories")

import re

FORMATS = ["bytes", "utf8", "ascii", "latin1", "wtf8"]
LENS = [0, 1, 7, 8, 9, 15, 16, 17, 31, 32, 33]
CHARFMT = {"utf8", "ascii", "latin1"}
SLICEFMT = {"bytes", "utf8"}


def hx(b):
    return " ".join("%x" % x for x in b) if b else "-"


def unhx(s):
    s = s.strip()
    return b"" if s in ("-", "") else bytes(int(x, 16) for x in s.split(" "))


# ----------------------------------------------------------------------------- contents

UTF8_UNITS = [b"a", "é".encode(), "€".encode(), "😀".encode(), b"b", "ß".encode(), b"c", "語".encode()]
WTF8_UNITS = [b"a", b"\xed\xa0\xbd", b"b", b"\xed\xb8\x80", "😀".encode(), b"\xed\xa0\x80", b"c"]


def content(fmt, n, phase=0):
    """exactly n bytes, valid for fmt; `phase` rotates the character pattern"""
    if fmt == "bytes":
        return bytes((0x61 + (i * 7 + phase) % 26) if i % 5 else (0x80 + (i + phase) % 0x7f) for i in range(n))
    if fmt == "latin1":
        return bytes((0xa0 + (i + phase) % 0x5f) if i % 3 == 0 else (0x41 + (i + phase) % 26) for i in range(n))
    if fmt == "ascii":
        return bytes(0x41 + (i * 3 + phase) % 26 for i in range(n))
    units = UTF8_UNITS if fmt == "utf8" else WTF8_UNITS
    out = b""
    k = phase
    while len(out) < n:
        u = units[k % len(units)]
        if len(out) + len(u) > n:
            u = b"z"
        # WTF-8: never put a trail surrogate right after a lead surrogate
        if fmt == "wtf8" and out[-3:-2] == b"\xed" and 0xa0 <= out[-2] <= 0xaf and u[:1] == b"\xed" and 0xb0 <= u[1] <= 0xbf:
            u = b"z"
        out += u
        k += 1
    return out


def valid(fmt, b):
    if fmt in ("bytes", "latin1"):
        return True
    if fmt == "ascii":
        return all(x < 0x80 for x in b)
    if fmt == "utf8":
        try:
            b.decode("utf-8")
            return True
        except UnicodeDecodeError:
            return False
    try:
        s = b.decode("utf-8", "surrogatepass")
    except UnicodeDecodeError:
        return False
    for x, y in zip(s, s[1:]):
        if 0xD800 <= ord(x) <= 0xDBFF and 0xDC00 <= ord(y) <= 0xDFFF:
            return False
    return True


def concat(fmt, a, b):
    if fmt == "wtf8" and len(a) >= 3 and len(b) >= 3:
        x = a[-3:].decode("utf-8", "surrogatepass") if valid("wtf8", a[-3:]) else ""
        y = b[:3].decode("utf-8", "surrogatepass") if valid("wtf8", b[:3]) else ""
        if len(x) == 1 and len(y) == 1 and 0xD800 <= ord(x) <= 0xDBFF and 0xDC00 <= ord(y) <= 0xDFFF:
            c = 0x10000 + ((ord(x) - 0xD800) << 10) + (ord(y) - 0xDC00)
            return a[:-3] + chr(c).encode("utf-8") + b[3:]
    return a + b


def chars(fmt, b):
    """[(byte index, code point)]"""
    if fmt == "utf8":
        s = b.decode("utf-8")
        out, i = [], 0
        for ch in s:
            out.append((i, ord(ch)))
            i += len(ch.encode("utf-8"))
        return out
    return list(enumerate(b))


def classifier(k, c):
    if k == 0:
        return int(c in (0x20, 0x0A, 0x09))
    if k == 1:
        return int(c < 0x80)
    return c % 2


# ----------------------------------------------------------------------------- reference model

def reference(fmt, ops):
    """independent bytes model: yields (expected result, pool snapshot) per op"""
    pool = [None] * 4
    out = []

    def live(i):
        return 0 <= i < 4 and pool[i] is not None

    for op in ops:
        f = op.strip().split(" ")
        r = "bad-op"
        try:
            k = f[0]
            if k == "new" and len(f) == 2 and 0 <= int(f[1]) < 4:
                pool[int(f[1])] = b""
                r = "ok"
            elif k in ("from", "slice") and 0 <= int(f[1]) < 4 and (k == "from" or fmt in SLICEFMT):
                b = unhx(" ".join(f[2:]))
                if valid(fmt, b):
                    pool[int(f[1])] = b
                    r = "ok"
                else:
                    r = "err" if k == "from" else "inv"
            elif k in ("push", "pushs") and live(int(f[1])) and (k == "push" or fmt in SLICEFMT):
                b = unhx(" ".join(f[2:]))
                if valid(fmt, b):
                    pool[int(f[1])] = concat(fmt, pool[int(f[1])], b)
                    r = "ok"
                else:
                    r = "err" if k == "push" else "inv"
            elif k == "pushc" and len(f) == 3 and live(int(f[1])) and fmt in CHARFMT:
                c = int(f[2], 16)
                lim = {"ascii": 0x7F, "latin1": 0xFF, "utf8": 0x10FFFF}[fmt]
                if c <= lim and not (0xD800 <= c <= 0xDFFF):
                    pool[int(f[1])] += chr(c).encode("utf-8") if fmt == "utf8" else bytes([c])
                    r = "ok"
                else:
                    r = "err"
            elif k == "pusht" and len(f) == 3 and live(int(f[1])) and live(int(f[2])) and f[1] != f[2]:
                pool[int(f[1])] = concat(fmt, pool[int(f[1])], pool[int(f[2])])
                r = "ok"
            elif k in ("popf", "popb", "tpopf", "tpopb") and len(f) == 3 and live(int(f[1])):
                i, n = int(f[1]), int(f[2])
                v = pool[i]
                if n == 0:
                    e = "ok"
                elif n > len(v):
                    e = "oob"
                else:
                    rest = v[n:] if k.endswith("f") else v[:len(v) - n]
                    e = "ok" if valid(fmt, rest) else "inv"
                    if e == "ok":
                        pool[i] = rest
                r = e if (k[0] == "t" or e == "ok") else "panic"
            elif k in ("sub", "tsub") and len(f) == 5 and live(int(f[1])) and 0 <= int(f[2]) < 4:
                i, j, off, ln = int(f[1]), int(f[2]), int(f[3]), int(f[4])
                v = pool[i]
                if off > len(v) or ln > len(v) - off:
                    e = "oob"
                elif valid(fmt, v[off:off + ln]):
                    e = "ok"
                    pool[j] = v[off:off + ln]
                else:
                    e = "inv"
                r = e if (k == "tsub" or e == "ok") else "panic"
            elif k == "clone" and len(f) == 3 and live(int(f[1])) and 0 <= int(f[2]) < 4:
                pool[int(f[2])] = pool[int(f[1])]
                r = "ok"
            elif k == "clear" and len(f) == 2 and live(int(f[1])):
                pool[int(f[1])] = b""
                r = "ok"
            elif k == "drop" and len(f) == 2 and live(int(f[1])):
                pool[int(f[1])] = None
                r = "ok"
            elif k == "popc" and len(f) == 2 and live(int(f[1])) and fmt in CHARFMT:
                v = pool[int(f[1])]
                cs = chars(fmt, v)
                if not cs:
                    r = "c=-"
                else:
                    r = "c=%x" % cs[0][1]
                    pool[int(f[1])] = v[cs[1][0]:] if len(cs) > 1 else b""
            elif k == "popr" and len(f) == 4 and live(int(f[1])) and 0 <= int(f[2]) < 4 and f[1] != f[2] \
                    and int(f[3]) < 3 and fmt in CHARFMT:
                i, j, kk = int(f[1]), int(f[2]), int(f[3])
                v = pool[i]
                cs = chars(fmt, v)
                if not cs:
                    r = "r=-"
                else:
                    cls = classifier(kk, cs[0][1])
                    cut = next((ix for ix, c in cs if classifier(kk, c) != cls), len(v))
                    pool[j] = v[:cut]
                    pool[i] = v[cut:]
                    r = "r=%d" % cls
            elif k == "send" and len(f) == 2 and live(int(f[1])):
                r = "ok"
            elif k == "reserve" and len(f) == 3 and live(int(f[1])):
                int(f[2])
                r = "ok"
            elif k == "withcap" and len(f) == 3 and 0 <= int(f[1]) < 4:
                int(f[2])
                pool[int(f[1])] = b""
                r = "ok"
            elif k == "setb" and len(f) == 4 and live(int(f[1])) and fmt == "bytes":
                i, kk, v = int(f[1]), int(f[2]), int(f[3], 16)
                if kk < len(pool[i]):
                    b = bytearray(pool[i])
                    b[kk] = v
                    pool[i] = bytes(b)
                    r = "ok"
                else:
                    r = "panic"
        except (ValueError, IndexError):
            r = "bad-op"
        out.append((r, list(pool)))
    return out


SLOT_RE = re.compile(r"^(-|i:|o:|s([0-3]):)(.*)$")


def parse_out(out):
    """-> ([(result, events, [slot (kind, group, bytes) | None])], end string) or None"""
    parts = out.split(";")
    if not parts or not parts[-1].startswith("end|"):
        return None
    steps = []
    for p in parts[:-1]:
        f = p.split("|")
        if len(f) != 6:
            return None
        slots = []
        for s in f[2:]:
            if s == "-":
                slots.append(None)
                continue
            m = SLOT_RE.match(s)
            if not m:
                return None
            kind = m.group(1)[0]
            try:
                slots.append((kind, int(m.group(2)) if m.group(2) else None, unhx(m.group(3))))
            except ValueError:
                return None
        steps.append((f[0], f[1], slots))
    return steps, parts[-1]


def split_line(line):
    f = line.split("\t")
    return f[1], f[2], f[3].split(";")


def oracle_bytes(line, out):
    """the property itself on the implementation's output (independent of the Lean model)"""
    if out is None or out.startswith("PANIC") or out.startswith("ABORT"):
        return "implementation crashed: %s" % out
    fmt, atom, ops = split_line(line)
    if atom == "T":
        return None
    mismatch = "ORACLE-MISMATCH" in out
    out = strip_annot(out)
    po = parse_out(out)
    if po is None:
        return "malformed output: %s" % out[:200]
    steps, _ = po
    if len(steps) != len(ops):
        return "malformed output (op count)"
    ref = reference(fmt, ops)
    for n, ((r, _ev, slots), (er, epool), op) in enumerate(zip(steps, ref, ops)):
        if r != er:
            if fmt == "wtf8" and r == "ok" and er in ("err", "inv") and op.split(" ")[0] in ("from", "push", "slice", "pushs"):
                return WTF8_DEFECT + "; the bytes after it are skipped): op #%d %r accepted" % (n, op)
            return "op #%d %r: result %s, an independent owned-string model says %s" % (n, op, r, er)
        for k in range(4):
            got = None if slots[k] is None else slots[k][2]
            if got != epool[k]:
                return "op #%d %r: slot %d holds %r, an independent owned-string model holds %r" % (
                    n, op, k, got, epool[k])
            if slots[k] is not None:
                if slots[k][0] == "i" and len(slots[k][2]) > 8:
                    return "op #%d: inline tendril longer than 8 bytes" % n
                if fmt in ("utf8", "ascii", "wtf8") and not valid(fmt, slots[k][2]):
                    return "op #%d %r: slot %d holds bytes invalid for %s: %r" % (n, op, k, fmt, slots[k][2])
    if mismatch:
        return "the harness-internal Vec<u8> oracle diverged although the Python reference agrees (harness bug?)"
    return None


# ----------------------------------------------------------------------------- case generation

def mk(fmt, atom, ops):
    return "tendril\t%s\t%s\t%s" % (fmt, atom, ";".join(ops))


def setups(fmt, L, phase=0):
    """recipes leaving slot 0 with exactly L bytes in a given representation (name, ops)"""
    c = content(fmt, L, phase)
    out = []
    # inline / owned as produced by from
    out.append(("from", ["from 0 " + hx(c)]))
    if L <= 8:
        # owned with a small length (reserve on inline), then shared views of it
        out.append(("owned-small", ["from 0 " + hx(c), "reserve 0 12"]))
        out.append(("shared-small", ["from 0 " + hx(c), "reserve 0 12", "clone 0 3"]))
        out.append(("send-small", ["from 0 " + hx(c), "send 0"]))
    else:
        out.append(("shared2", ["from 0 " + hx(c), "clone 0 3"]))
        # views with an offset / a tail cut off: find cut points that keep validity
        pre = None
        for k in range(1, 7):
            b2 = content(fmt, L + k, phase)
            if valid(fmt, b2[k:]) and b2[k:] != b"" and pre is None:
                pre = (k, b2)
        if pre:
            k, b2 = pre
            out.append(("shared-off", ["from 0 " + hx(b2), "popf 0 %d" % k]))
        post = None
        for k in range(1, 7):
            b2 = content(fmt, L + k, phase)
            if valid(fmt, b2[:L]) and post is None:
                post = (k, b2)
        if post:
            k, b2 = post
            out.append(("shared-sole", ["from 0 " + hx(b2), "popb 0 %d" % k]))
            out.append(("shared-sub", ["from 3 " + hx(b2), "tsub 3 0 0 %d" % L]))
        out.append(("owned-grown", ["from 0 " + hx(c[:1] if valid(fmt, c[:1]) else b""), "reserve 0 40",
                                    "push 0 " + hx(c[1:] if valid(fmt, c[:1]) and valid(fmt, c[1:]) else c)]
                    if valid(fmt, c[:1]) and valid(fmt, c[1:]) else ["withcap 0 40", "push 0 " + hx(c)]))
    if L == 0:
        out.append(("new", ["new 0"]))
        out.append(("owned-cleared", ["from 0 " + hx(content(fmt, 20, phase)), "clear 0"]))
        out.append(("shared-cleared", ["from 0 " + hx(content(fmt, 20, phase)), "clear 0", "clone 0 3"]))
        out.append(("withcap", ["withcap 0 33"]))
    return out


def probes(fmt, L):
    """single ops applied to slot 0 (other operands in slots 1,2), boundary arguments"""
    P = []
    pieces = [content(fmt, n, 3) for n in (0, 1, 7, 8, 9, 16, 17)]
    for p in pieces:
        P.append(["push 0 " + hx(p)])
    if fmt in SLICEFMT:
        P.append(["pushs 0 " + hx(content(fmt, 9, 1))])
        P.append(["pushs 0 " + hx(content(fmt, 2, 1))])
    bad = {"utf8": [b"\xc3", b"\x80", b"\xed\xa0\x80", b"a\xff", b"\xf0\x9f\x98"],
           "ascii": [b"\x80", b"a\xff"], "wtf8": [b"\xc3", b"\x80", b"\xed\xa0\x80\xed\xb0\x80", b"\xf8"]}.get(fmt, [])
    for b in bad:
        P.append(["push 0 " + hx(b)])
    if fmt in SLICEFMT:
        for b in bad[:2]:
            P.append(["pushs 0 " + hx(b)])
    if fmt in CHARFMT:
        for c in (0x41, 0x7f, 0x80, 0xff, 0x100, 0x7ff, 0x800, 0xd7ff, 0xd800, 0xdfff, 0xe000, 0xffff, 0x10000,
                  0x10ffff, 0x110000):
            P.append(["pushc 0 %x" % c])
        P.append(["popc 0"])
        P.append(["popc 0", "popc 0"])
        for k in (0, 1, 2):
            P.append(["popr 0 1 %d" % k])
    ns = sorted(set(n for n in (0, 1, 2, 3, 4, L - 10, L - 9, L - 8, L - 7, L - 2, L - 1, L, L + 1, L + 100,
                                4294967295) if n >= 0))
    for n in ns:
        for k in ("popf", "popb", "tpopf", "tpopb"):
            P.append(["%s 0 %d" % (k, n)])
    subs = set()
    for off in (0, 1, 2, 3, L - 9, L - 8, L - 1, L, L + 1):
        for ln in (0, 1, 7, 8, 9, 10, L - off - 1, L - off, L - off + 1, L, 4294967295):
            if off >= 0 and ln >= 0:
                subs.add((off, ln))
    for off, ln in sorted(subs):
        P.append(["tsub 0 1 %d %d" % (off, ln)])
    for off, ln in sorted(subs)[::3]:
        P.append(["sub 0 1 %d %d" % (off, ln)])
        P.append(["tsub 0 0 %d %d" % (off, ln)])
    P += [["clone 0 1"], ["clone 0 0"], ["clear 0"], ["drop 0"], ["send 0"], ["new 0"],
          ["clear 0", "push 0 " + hx(content(fmt, 3))], ["clear 0", "push 0 " + hx(content(fmt, 12))],
          ["clone 0 1", "clone 1 2", "drop 0", "drop 1"], ["clone 0 1", "drop 1"],
          ["send 0", "send 0"], ["clone 0 1", "send 0"], ["withcap 0 9"], ["withcap 0 0"], ["withcap 0 17"]]
    for n in (0, 1, 8 - L if L <= 8 else 0, 9 - L if L <= 9 else 1, 16 - L if L <= 16 else 2,
              17 - L if L <= 17 else 3, 100):
        if n >= 0:
            P.append(["reserve 0 %d" % n])
    if fmt == "bytes":
        for k in sorted(set(x for x in (0, 1, L - 1, L, L + 5) if x >= 0)):
            P.append(["setb 0 %d ee" % k])
    # push_tendril: other operand in every representation
    o9, o3, o20 = content(fmt, 9, 5), content(fmt, 3, 5), content(fmt, 20, 5)
    P.append(["from 1 " + hx(o3), "pusht 0 1"])
    P.append(["from 1 " + hx(o9), "pusht 0 1"])
    P.append(["from 1 " + hx(o20), "clone 1 2", "pusht 0 1"])
    P.append(["from 1 " + hx(o20), "popf 1 %d" % first_cut(fmt, o20), "pusht 0 1"])
    P.append(["clone 0 1", "pusht 0 1"])
    P.append(["clone 0 1", "pusht 1 0"])
    P.append(["new 1", "pusht 0 1"])
    P.append(["new 1", "pusht 1 0"])
    P.append(["from 1 " + hx(o20), "pusht 1 0"])
    P.append(["from 1 " + hx(o20), "clone 1 2", "pusht 1 0"])
    return P


def first_cut(fmt, b):
    for k in range(1, len(b)):
        if valid(fmt, b[k:]) and valid(fmt, b[:k]):
            return k
    return 0


def adjacency_cases(fmt, atom):
    """push_tendril on views of one buffer: adjacent, overlapping, gapped, reversed, with tails"""
    cases = []
    for A in (9, 15, 16, 17, 31):
        for B in (9, 16, 17):
            for phase in (0, 1):
                whole = content(fmt, A + B + 9, phase)
                cuts = [k for k in range(len(whole) + 1) if valid(fmt, whole[:k]) and valid(fmt, whole[k:])]
                a = min((k for k in cuts if k >= A), default=None)
                if a is None:
                    continue
                b = min((k for k in cuts if k >= a + B), default=None)
                if b is None:
                    continue
                base = ["from 0 " + hx(whole)]
                adj = base + ["tsub 0 1 0 %d" % a, "tsub 0 2 %d %d" % (a, b - a)]
                tails = [[], ["push 1 " + hx(content(fmt, 1))], ["push 2 " + hx(content(fmt, 1))],
                         ["drop 0", "drop 2"], ["popb 1 1"] if valid(fmt, whole[:b - 1]) else [],
                         ["clear 2", "push 1 " + hx(content(fmt, 2))]]
                for tail in tails:
                    cases.append((mk(fmt, atom, adj + ["pusht 1 2"] + tail), "cover-adjacent"))
                cases.append((mk(fmt, atom, adj + ["pusht 2 1"]), "cover-adjacent"))
                cases.append((mk(fmt, atom, adj + ["pusht 1 2", "pusht 1 2"]), "cover-adjacent"))
                cases.append((mk(fmt, atom, adj + ["pusht 1 0"]), "cover-adjacent"))
                cases.append((mk(fmt, atom, adj + ["pusht 0 2"]), "cover-adjacent"))
                # gapped / overlapping second view
                for d in (-1, 1, 2):
                    a2 = a + d
                    if a2 in cuts and b > a2 and b - a2 > 8:
                        cases.append((mk(fmt, atom, base + ["tsub 0 1 0 %d" % a, "tsub 0 2 %d %d" % (a2, b - a2),
                                                            "pusht 1 2", "push 2 " + hx(content(fmt, 1))]),
                                      "cover-adjacent"))
                # adjacent but in different buffers (same offsets)
                cases.append((mk(fmt, atom, base + ["from 3 " + hx(whole), "tsub 0 1 0 %d" % a,
                                                    "tsub 3 2 %d %d" % (a, b - a), "pusht 1 2"]), "cover-adjacent"))
                # views produced by pops (offset arithmetic)
                cases.append((mk(fmt, atom, base + ["clone 0 1", "clone 0 2", "popb 1 %d" % (len(whole) - a),
                                                    "popf 2 %d" % a, "pusht 1 2", "pusht 1 2"]), "cover-adjacent"))
    return cases


EDGE_SEQS = [
    "7f", "80", "bf", "c0 80", "c1 bf", "c2 80", "c2 7f", "c2 c0", "df bf", "df", "e0 9f bf", "e0 a0 80", "e0 a0",
    "e0 80 80", "e1 80 80", "ec bf bf", "ed 9f bf", "ed a0 80", "ed af bf", "ed b0 80", "ed bf bf", "ee 80 80",
    "ef bf bf", "ef bf", "f0 8f bf bf", "f0 90 80 80", "f0 90 80", "f0 90", "f0", "f3 bf bf bf", "f4 8f bf bf",
    "f4 90 80 80", "f5 80 80 80", "f7 bf bf bf", "f8 88 80 80 80", "fe", "ff", "e2 82 ac", "e2 82 7f", "e2 28 a1",
    "f0 9f 98 80", "f0 9f 98 7f", "f0 28 8c bc", "c3 28", "a0 a1",
    # a complete character followed by a stray continuation byte (and bytes that a skipping validator would miss)
    "c2 80 80", "c2 80 80 ff", "df bf bf", "e2 82 ac 80", "e2 82 ac 80 ff ff", "f0 9f 98 80 80", "ed a0 80 80",
]
LEADS = ["ed a0 80", "ed a0 bd", "ed af bf"]
TRAILS = ["ed b0 80", "ed b8 80", "ed bf bf"]


def validate_cases(fmt, atom, tier):
    """format validation at the edges of the well-formed byte ranges (and surrogate joins for WTF-8)"""
    cases = []
    pre6 = "61 62 63 64 65 66"
    for s in EDGE_SEQS:
        for ctx in (s, "61 " + s, s + " 62", pre6 + " " + s + " 7a 7a 7a"):
            cases.append((mk(fmt, atom, ["from 0 " + ctx, "new 1", "push 1 " + ctx, "from 2 " + pre6 + " 67 68 69",
                                         "push 2 " + ctx, "tpopb 2 1", "tpopb 2 2", "tpopf 2 9", "tpopf 2 1"]),
                          "cover-validate"))
        n = len(s.split(" "))
        cases.append((mk(fmt, atom, ["from 0 " + pre6 + " 67 68 " + s + " 7a", "tsub 0 1 8 %d" % n,
                                     "tsub 0 2 8 %d" % (n - 1 if n > 1 else 1), "tsub 0 3 9 %d" % n,
                                     "tpopf 0 8", "tpopb 0 1", "tpopb 0 1"]), "cover-validate"))
    if fmt == "wtf8":
        for l in LEADS:
            for t in TRAILS:
                for pre in ("", pre6, pre6 + " 67 68 69"):
                    for post in ("", " 7a", " 7a 7a 7a 7a 7a 7a 7a 7a 7a"):
                        a = (pre + " " + l).strip()
                        b = (t + post).strip()
                        cases.append((mk(fmt, atom, ["from 0 " + a, "push 0 " + b, "from 1 " + a, "from 2 " + b,
                                                     "pusht 1 2", "clone 1 3", "tpopb 1 1", "tpopb 1 4", "tpopf 3 1",
                                                     "from 2 " + a + " " + b]), "cover-validate"))
                        cases.append((mk(fmt, atom, ["from 0 " + a, "clone 0 1", "from 2 " + b, "clone 2 3",
                                                     "pusht 0 2", "pusht 1 3", "push 3 " + l, "push 3 " + t]),
                                      "cover-validate"))
    if tier == "thorough" and fmt in ("utf8", "wtf8") and atom == "N":
        # every pair of leading bytes, with representative third / fourth bytes
        for a in range(0x80, 0x100):
            for b in range(0x100):
                for tail in ("", " 80", " bf", " 80 80", " 7f", " bf bf"):
                    cases.append((mk(fmt, atom, ["from 0 %x %x%s" % (a, b, tail)]), "cover-validate-pairs"))
    return cases


GRID_OFFS = [0, 1, 5, 8, 9, 16, 20, 31]
GRID_LENS = [0, 1, 8, 9, 10, 16]


def pusht_grid_cases(fmt, atom):
    """exhaustive push_tendril grid over one shared 64-byte buffer: receiver = view (o1, l1), argument = view
    (o2, l2) for all offsets / lengths of the grid (adjacent, overlapping, gapped, reversed, argument at
    2*o1 + l1, …), the views produced by subtendril and by pop_front / pop_back; afterwards every slot is mutated
    and observed.  The 64 bytes are distinct ASCII, so every cut is valid in every format."""
    whole = bytes(0x30 + i for i in range(64))
    base = "from 0 " + hx(whole)
    tail = ["push 1 7e", "push 2 7d", "push 0 7c"]
    cases = []
    for o1 in GRID_OFFS:
        for l1 in GRID_LENS:
            for o2 in GRID_OFFS:
                for l2 in GRID_LENS:
                    if o1 + l1 > 64 or o2 + l2 > 64:
                        continue
                    cases.append((mk(fmt, atom, [base, "tsub 0 1 %d %d" % (o1, l1), "tsub 0 2 %d %d" % (o2, l2),
                                                 "pusht 1 2"] + tail), "cover-pusht-grid"))
                    cases.append((mk(fmt, atom, [base, "clone 0 1", "clone 0 2",
                                                 "popf 1 %d" % o1, "popb 1 %d" % (64 - o1 - l1),
                                                 "popb 2 %d" % (64 - o2 - l2), "popf 2 %d" % o2,
                                                 "pusht 1 2", "pusht 2 1"] + tail), "cover-pusht-grid"))
    return cases


def cover_cases(fmt, atom, lens=LENS, phases=(0,)):
    cases = []
    for L in lens:
        for phase in phases:
            for sname, sops in setups(fmt, L, phase):
                for p in probes(fmt, L):
                    # afterwards mutate every live slot to expose aliasing, observe, drop
                    tail = ["push 0 " + hx(content(fmt, 1, 9)), "push 1 " + hx(content(fmt, 1, 8)),
                            "push 3 " + hx(content(fmt, 1, 7))]
                    cases.append((mk(fmt, atom, sops + p + tail), "cover-" + sname))
    return cases


OPS_W = [("push", 18), ("pushs", 4), ("pushc", 5), ("pusht", 12), ("popf", 5), ("popb", 5), ("tpopf", 8),
         ("tpopb", 8), ("sub", 3), ("tsub", 12), ("clone", 12), ("clear", 4), ("drop", 5), ("popc", 5),
         ("popr", 4), ("send", 4), ("reserve", 3), ("withcap", 1), ("setb", 4), ("new", 2), ("from", 8),
         ("slice", 2)]


def rand_len(rng):
    r = rng.random()
    if r < 0.6:
        return rng.choice(LENS)
    if r < 0.9:
        return rng.randint(0, 40)
    return rng.randint(0, 200)


def random_case(fmt, atom, rng, nops=None):
    ops = []
    lens = [None] * 4
    names = [o for o, _ in OPS_W]
    weights = [w for _, w in OPS_W]
    # start with two tendrils
    for i in (0, 1):
        ops.append("from %d %s" % (i, hx(content(fmt, rand_len(rng), rng.randint(0, 7)))))
    for _ in range(nops or rng.randint(3, 16)):
        o = rng.choices(names, weights)[0]
        i, j = rng.randint(0, 3), rng.randint(0, 3)
        if o in ("push", "pushs"):
            b = content(fmt, rng.choice([0, 1, 1, 2, 3, 7, 8, 9, 16, 17, 30]), rng.randint(0, 7))
            if rng.random() < 0.1:
                b = bytes(rng.getrandbits(8) for _ in range(rng.randint(1, 4)))
            ops.append("%s %d %s" % (o, i, hx(b)))
        elif o in ("from", "slice"):
            b = content(fmt, rand_len(rng), rng.randint(0, 7))
            if rng.random() < 0.1:
                b = bytes(rng.getrandbits(8) for _ in range(rng.randint(1, 12)))
            ops.append("%s %d %s" % (o, i, hx(b)))
        elif o == "pushc":
            ops.append("pushc %d %x" % (i, rng.choice([0x41, 0x20, 0xe9, 0x20ac, 0x1f600, 0x7f, 0x80, 0xd800, 0x110000])))
        elif o in ("pusht", "clone"):
            ops.append("%s %d %d" % (o, i, j))
        elif o in ("popf", "popb", "tpopf", "tpopb"):
            ops.append("%s %d %d" % (o, i, rng.choice([0, 1, 1, 2, 3, 4, 7, 8, 9, 16, 17, rng.randint(0, 40)])))
        elif o in ("sub", "tsub"):
            ops.append("%s %d %d %d %d" % (o, i, j, rng.choice([0, 0, 1, 2, 3, 8, 9, rng.randint(0, 40)]),
                                           rng.choice([0, 1, 7, 8, 9, 10, 16, 17, rng.randint(0, 40)])))
        elif o == "popr":
            ops.append("popr %d %d %d" % (i, j, rng.randint(0, 2)))
        elif o in ("reserve", "withcap"):
            ops.append("%s %d %d" % (o, i, rng.choice([0, 1, 8, 9, 16, 17, 33, 100])))
        elif o == "setb":
            ops.append("setb %d %d %x" % (i, rng.choice([0, 1, 7, 8, 9, 20]), rng.getrandbits(8)))
        else:
            ops.append("%s %d" % (o, i))
    return mk(fmt, atom, ops)


def gen_cases(tier, rng):
    cases = []
    for fmt in FORMATS:
        phases = (0, 1, 2, 3) if (fmt in ("utf8", "wtf8") and tier == "thorough") else (0,)
        for atom in ("N", "A"):
            if tier == "quick" and atom == "A":
                # quick tier: the Atomic instantiation runs the cover at the representation boundaries only
                cases += cover_cases(fmt, atom, lens=[0, 8, 9, 17], phases=(0,))
            else:
                cases += cover_cases(fmt, atom, phases=phases)
            cases += adjacency_cases(fmt, atom)
            if tier == "thorough" or atom == "N" or fmt == "bytes":
                cases += pusht_grid_cases(fmt, atom)
            if fmt in ("utf8", "wtf8", "ascii"):
                cases += validate_cases(fmt, atom, tier)
    n = 4000 if tier == "quick" else 400000
    for k in range(n):
        fmt = FORMATS[k % 5]
        atom = "NA"[(k // 5) % 2]
        cases.append((random_case(fmt, atom, rng), "random"))
    return cases


ANNOT = re.compile(r" ORACLE-MISMATCH\([^)]*\)")


def strip_annot(out):
    return ANNOT.sub("", out) if out else out


def compare(line, impl, model):
    # the harness-internal Vec<u8> oracle annotates the output; the Lean model is compared without it
    return strip_annot(impl) == model


WTF8_DEFECT = "WTF8::validate accepts ill-formed WTF-8 (stray continuation byte after a 2-/3-byte character"


def oracle(line, out):
    return oracle_bytes(line, out)


# finding ids the main session may put into known_findings.json (kind "known") for the defect above
KNOWN_MATCHERS = {
    "F22": lambda f: f.kind == "oracle" and (f.detail or "").startswith(WTF8_DEFECT),
    "F-C11-WTF8-VALIDATE": lambda f: f.kind == "oracle" and (f.detail or "").startswith(WTF8_DEFECT),
}


def nontrivial(line, out):
    if out is None:
        return False
    po = parse_out(out)
    if po is None:
        return False
    steps, _ = po
    prev = None
    for r, _ev, slots in steps:
        if r not in ("ok", "bad-op"):
            return True
        if prev is not None and slots != prev:
            return True
        prev = slots
    return False


def neighbourhood(line):
    """shorter prefixes of a disagreeing history"""
    fmt, atom, ops = split_line(line)
    return [mk(fmt, atom, ops[:k]) for k in range(1, len(ops))][-12:]


def extra_evidence(check):
    return {"formats": FORMATS, "boundary_lengths": LENS,
            "families": "cover-<representation> × probes, cover-adjacent (push_tendril fast path), "
                        "cover-validate (edges of the well-formed UTF-8 ranges, surrogate joins), cover-pusht-grid (all receiver × "
                        "argument views (offset, length) of one shared 64-byte buffer, via subtendril and via pops), random"}
