"""C11 — tendrils behave as independent owned strings under every operation.

Also hosts the case generators and the Python reference shared with C12 (same engine `tendril`)."""
PROP = "C11"
ENGINE = "tendril"
LEAN_TARGETS = ["H5V.Props.C11", "H5V.Lemmas.TendrilUtf8", "H5V.Lemmas.TendrilWtf8", "H5V.Props.C11Wtf8"]
AUDIT_IMPORTS = ["H5V.Props.C11", "H5V.Lemmas.TendrilUtf8", "H5V.Lemmas.TendrilWtf8", "H5V.Props.C11Wtf8"]
THEOREMS = ["H5V.Props.C11." + t for t in [
    "C11_step_refines", "C11_run_refines", "C11_reachable_wf", "C11_independent",
    "C11_checked_pop_front", "C11_checked_pop_back", "C11_checked_subtendril", "C11_push_checked",
    "C11_format_valid", "C11_no_ub", "C11_no_spurious_panic",
    "C11_witness_oflow_2gib", "C11_wtf8_validate_rejects_stray", "C11_witness_wtf8_validate_pinned",
    "laws_bytes", "laws_ascii", "laws_latin1",
]] + ["H5V.Lemmas.Tendril.Utf8." + t for t in [
    "laws_utf8", "C11_utf8_valid", "utf8_valid_append", "utf8_suffix_exact", "utf8_prefix_exact",
    "utf8_subseq_exact", "utf8_encode_valid", "utf8_chars_cut", "whole0_eq", "validUtf8_iff"]] + [
    "H5V.Lemmas.Tendril.Wtf8." + t for t in [
        "laws_wtf8_partial", "not_laws_wtf8", "wtf8Validate_iff", "wtf8_push_valid", "wtf8_fixup_trivial",
        "wtf8_suffix_exact", "wtf8_prefix_exact", "wtf8_subseq_exact", "wtf8_fixup_ok", "wtf8_join_encode"]] + [
    "H5V.Props.C11.Laws.toFx"] + ["H5V.Props.C11." + t for t in [
    # WTF-8 (Props/C11Wtf8.lean): the refinement with the fix-up, against a spec written from the WTF-8 document
    "lawsFx_wtf8", "C11_wtf8_fixup_agrees", "C11_step_refines_wtf8", "C11_spec_valid_wtf8", "C11_step_valid_wtf8",
    "C11_run_refines_wtf8", "C11_wtf8_valid", "C11_independent_wtf8", "C11_no_ub_wtf8", "C11_push_checked_wtf8",
    "C11_no_spurious_panic_wtf8", "C11_step_refines_of_laws", "C11_step_refines_fx", "C11_run_refines_fx"]]
TRUSTED = [
    "Lean 4 kernel; axioms ⊆ {propext, Classical.choice, Quot.sound} (audited per run)",
    "hand-written model lean/H5V/Model/Tendril.lean of tendril/src/{tendril,buf32,fmt,futf,util}.rs, tied by the "
    "`tendril` correspondence (harness/src/engines/tendril.rs vs h5vdriver) on the cases of this run: result code, "
    "bytes, representation kind (inline/owned/shared via the Debug impl), buffer-sharing groups (is_shared_with) "
    "and allocation events with capacities (global-allocator ledger) after every operation",
    "modelled, not verified: pointer provenance and the transmutes between formats/atomicities (identity in the "
    "model), Vec/allocator internals (with_capacity exact, reserve_exact = realloc), size_of::<Header>() = 16 "
    "(64-bit), str::from_utf8 (as Unicode Table 3-7 `validUtf8`), str::char_indices (same table decoder)",
    "panics are modelled as leaving the pool unchanged; the only panic after a mutation in the Rust is OFLOW in "
    "Buf32::grow after make_owned (> 2 GiB, not exercised)",
]
ASSUMPTIONS = [
    "lengths are natural numbers with the crate's checked u32 arithmetic as explicit panic branches; below 2^30 bytes "
    "the model panics only where the owned-string specification does (C11_no_spurious_panic); at 2^31 a push that "
    "needs growth panics with OFLOW although the documented limit is 4 GB (C11_witness_oflow_2gib, confirmed on the "
    "real code outside the protocol) — outside the tested range",
    "the refinement theorems are proved for Bytes, ASCII, Latin1 and UTF8 (Laws instances). WTF-8 is not an instance "
    "of Laws (not_laws_wtf8: its concatenation has the surrogate fix-up, the specification of Laws is plain append); "
    "its format laws with fix-up are proved (laws_wtf8_partial : LawsFx — validation exact on parts of valid "
    "strings, push with fix-up keeps validity, no fix-up inside a valid string) but the refinement theorem is not "
    "yet re-stated over LawsFx (needs a buffer-level validity invariant for the zero-copy merge of adjacent views); "
    "until then WTF-8 is covered by C12's safety theorems, the correspondence and the Python reference. The defect this check found in "
    "WTF8::validate (stray continuation byte accepted; C11_witness_wtf8_validate_pinned) is fixed in /repo "
    "(218f57f) and the model follows the fix (C11_wtf8_validate_rejects_stray); corpus/C11/wtf8_validate.case is "
    "the regression corpus",
    "refcount overflow (2^64 clones; Atomic::increment does not check) is out of scope",
]
RULE = ("op histories over a pool of 4 tendrils, 5 formats × {NonAtomic, Atomic}: exhaustive cover = every op "
        "(push/try_push/push_slice/push_char/push_tendril/pop_front/pop_back/try_*/subtendril/clone/clear/drop/"
        "pop_front_char/pop_front_char_run/into_send round trip/reserve/with_capacity/DerefMut store) from every "
        "representation (inline, owned, owned with small length, shared refcount 2, shared sole owner, shared with "
        "offset, shared-adjacent / non-adjacent / other-buffer / clone operands for push_tendril) at lengths "
        "0,1,7,8,9,15,16,17,31,32,33 with boundary arguments, followed by a mutation of every slot; UTF-8 / WTF-8 "
        "contents put every cut position in every phase of 1–4-byte characters; validation at every edge of the "
        "well-formed UTF-8 byte ranges, stray continuation bytes, all lead × trail surrogate joins in every "
        "representation (thorough: every pair of leading bytes × 6 tails); exhaustive push_tendril grid over one shared "
        "64-byte buffer (receiver and argument views with offsets 0,1,5,8,9,16,20,31 × lengths 0,1,8,9,10,16, produced "
        "by subtendril and by pop_front/pop_back, both orders); then seeded random histories; family api2 (engine "
        "tendril2, oracle-only, no Lean model): the rest of the public API as one-call cases over operands in 5 "
        "representations (inline / owned / shared / shared with offset / sole owner with offset) x lengths "
        "0,1,7,8,9,16,17,33,100 + boundary contents x 5 formats x 2 atomicities: into_bytes, try_reinterpret(_view) "
        "and the unchecked variants to every format (incl. every ill-formed edge sequence from every laxer format), "
        "as/into_superset, try_as/into_subset, ==, Hash (equal across representations, equal to the [u8] hash), "
        "Ord/PartialOrd, PartialEq<str>, Borrow/AsRef/Deref + HashMap lookup by &[u8], Debug, Display with width / "
        "precision, String <-> tendril conversions, FromStr, From<&slice>, to_tendril, fmt::Write, Tendril::format / "
        "format_tendril!, io::Write, read_to_tendril from chunked / interrupted / failing readers (growth steps up to "
        "the 64 KiB cap), extend_with_byte, every Extend / FromIterator impl, SendTendril::from round trips, "
        "TendrilSink::one / from_iter / read_from; expected values from a Python bytes / str reference. "
        "non-trivial = some op changed a tendril or returned a character / error; distinct = distinct (case, output)")
EXPLANATION = ("theorems: every op of the model refines the byte-list spec on its own slot and leaves abs of every "
               "other slot unchanged, for all heaps/pools satisfying WF, WF is preserved, lifted to all histories")

import re

FORMATS = ["bytes", "utf8", "ascii", "latin1", "wtf8"]
LENS = [0, 1, 7, 8, 9, 15, 16, 17, 31, 32, 33]
CHARFMT = {"utf8", "ascii", "latin1"}
SLICEFMT = {"bytes", "utf8"}


def hx(b):
    return " ".join("%x" % x for x in b) if b else "-"


def unhx(s):
    s = s.strip()
    return b"" if s in ("-", "") else bytes(int(x, 16) for x in s.split(" "))


# ----------------------------------------------------------------------------- contents

UTF8_UNITS = [b"a", "é".encode(), "€".encode(), "😀".encode(), b"b", "ß".encode(), b"c", "語".encode()]
WTF8_UNITS = [b"a", b"\xed\xa0\xbd", b"b", b"\xed\xb8\x80", "😀".encode(), b"\xed\xa0\x80", b"c"]


def content(fmt, n, phase=0):
    """exactly n bytes, valid for fmt; `phase` rotates the character pattern"""
    if fmt == "bytes":
        return bytes((0x61 + (i * 7 + phase) % 26) if i % 5 else (0x80 + (i + phase) % 0x7f) for i in range(n))
    if fmt == "latin1":
        return bytes((0xa0 + (i + phase) % 0x5f) if i % 3 == 0 else (0x41 + (i + phase) % 26) for i in range(n))
    if fmt == "ascii":
        return bytes(0x41 + (i * 3 + phase) % 26 for i in range(n))
    units = UTF8_UNITS if fmt == "utf8" else WTF8_UNITS
    out = b""
    k = phase
    while len(out) < n:
        u = units[k % len(units)]
        if len(out) + len(u) > n:
            u = b"z"
        # WTF-8: never put a trail surrogate right after a lead surrogate
        if fmt == "wtf8" and out[-3:-2] == b"\xed" and 0xa0 <= out[-2] <= 0xaf and u[:1] == b"\xed" and 0xb0 <= u[1] <= 0xbf:
            u = b"z"
        out += u
        k += 1
    return out


def valid(fmt, b):
    if fmt in ("bytes", "latin1"):
        return True
    if fmt == "ascii":
        return all(x < 0x80 for x in b)
    if fmt == "utf8":
        try:
            b.decode("utf-8")
            return True
        except UnicodeDecodeError:
            return False
    try:
        s = b.decode("utf-8", "surrogatepass")
    except UnicodeDecodeError:
        return False
    for x, y in zip(s, s[1:]):
        if 0xD800 <= ord(x) <= 0xDBFF and 0xDC00 <= ord(y) <= 0xDFFF:
            return False
    return True


def concat(fmt, a, b):
    if fmt == "wtf8" and len(a) >= 3 and len(b) >= 3:
        x = a[-3:].decode("utf-8", "surrogatepass") if valid("wtf8", a[-3:]) else ""
        y = b[:3].decode("utf-8", "surrogatepass") if valid("wtf8", b[:3]) else ""
        if len(x) == 1 and len(y) == 1 and 0xD800 <= ord(x) <= 0xDBFF and 0xDC00 <= ord(y) <= 0xDFFF:
            c = 0x10000 + ((ord(x) - 0xD800) << 10) + (ord(y) - 0xDC00)
            return a[:-3] + chr(c).encode("utf-8") + b[3:]
    return a + b


def chars(fmt, b):
    """[(byte index, code point)]"""
    if fmt == "utf8":
        s = b.decode("utf-8")
        out, i = [], 0
        for ch in s:
            out.append((i, ord(ch)))
            i += len(ch.encode("utf-8"))
        return out
    return list(enumerate(b))


def classifier(k, c):
    if k == 0:
        return int(c in (0x20, 0x0A, 0x09))
    if k == 1:
        return int(c < 0x80)
    return c % 2


# ----------------------------------------------------------------------------- reference model

def reference(fmt, ops):
    """independent bytes model: yields (expected result, pool snapshot) per op"""
    pool = [None] * 4
    out = []

    def live(i):
        return 0 <= i < 4 and pool[i] is not None

    for op in ops:
        f = op.strip().split(" ")
        r = "bad-op"
        try:
            k = f[0]
            if k == "new" and len(f) == 2 and 0 <= int(f[1]) < 4:
                pool[int(f[1])] = b""
                r = "ok"
            elif k in ("from", "slice") and 0 <= int(f[1]) < 4 and (k == "from" or fmt in SLICEFMT):
                b = unhx(" ".join(f[2:]))
                if valid(fmt, b):
                    pool[int(f[1])] = b
                    r = "ok"
                else:
                    r = "err" if k == "from" else "inv"
            elif k in ("push", "pushs") and live(int(f[1])) and (k == "push" or fmt in SLICEFMT):
                b = unhx(" ".join(f[2:]))
                if valid(fmt, b):
                    pool[int(f[1])] = concat(fmt, pool[int(f[1])], b)
                    r = "ok"
                else:
                    r = "err" if k == "push" else "inv"
            elif k == "pushc" and len(f) == 3 and live(int(f[1])) and fmt in CHARFMT:
                c = int(f[2], 16)
                lim = {"ascii": 0x7F, "latin1": 0xFF, "utf8": 0x10FFFF}[fmt]
                if c <= lim and not (0xD800 <= c <= 0xDFFF):
                    pool[int(f[1])] += chr(c).encode("utf-8") if fmt == "utf8" else bytes([c])
                    r = "ok"
                else:
                    r = "err"
            elif k == "pusht" and len(f) == 3 and live(int(f[1])) and live(int(f[2])) and f[1] != f[2]:
                pool[int(f[1])] = concat(fmt, pool[int(f[1])], pool[int(f[2])])
                r = "ok"
            elif k in ("popf", "popb", "tpopf", "tpopb") and len(f) == 3 and live(int(f[1])):
                i, n = int(f[1]), int(f[2])
                v = pool[i]
                if n == 0:
                    e = "ok"
                elif n > len(v):
                    e = "oob"
                else:
                    rest = v[n:] if k.endswith("f") else v[:len(v) - n]
                    e = "ok" if valid(fmt, rest) else "inv"
                    if e == "ok":
                        pool[i] = rest
                r = e if (k[0] == "t" or e == "ok") else "panic"
            elif k in ("sub", "tsub") and len(f) == 5 and live(int(f[1])) and 0 <= int(f[2]) < 4:
                i, j, off, ln = int(f[1]), int(f[2]), int(f[3]), int(f[4])
                v = pool[i]
                if off > len(v) or ln > len(v) - off:
                    e = "oob"
                elif valid(fmt, v[off:off + ln]):
                    e = "ok"
                    pool[j] = v[off:off + ln]
                else:
                    e = "inv"
                r = e if (k == "tsub" or e == "ok") else "panic"
            elif k == "clone" and len(f) == 3 and live(int(f[1])) and 0 <= int(f[2]) < 4:
                pool[int(f[2])] = pool[int(f[1])]
                r = "ok"
            elif k == "clear" and len(f) == 2 and live(int(f[1])):
                pool[int(f[1])] = b""
                r = "ok"
            elif k == "drop" and len(f) == 2 and live(int(f[1])):
                pool[int(f[1])] = None
                r = "ok"
            elif k == "popc" and len(f) == 2 and live(int(f[1])) and fmt in CHARFMT:
                v = pool[int(f[1])]
                cs = chars(fmt, v)
                if not cs:
                    r = "c=-"
                else:
                    r = "c=%x" % cs[0][1]
                    pool[int(f[1])] = v[cs[1][0]:] if len(cs) > 1 else b""
            elif k == "popr" and len(f) == 4 and live(int(f[1])) and 0 <= int(f[2]) < 4 and f[1] != f[2] \
                    and int(f[3]) < 3 and fmt in CHARFMT:
                i, j, kk = int(f[1]), int(f[2]), int(f[3])
                v = pool[i]
                cs = chars(fmt, v)
                if not cs:
                    r = "r=-"
                else:
                    cls = classifier(kk, cs[0][1])
                    cut = next((ix for ix, c in cs if classifier(kk, c) != cls), len(v))
                    pool[j] = v[:cut]
                    pool[i] = v[cut:]
                    r = "r=%d" % cls
            elif k == "send" and len(f) == 2 and live(int(f[1])):
                r = "ok"
            elif k == "reserve" and len(f) == 3 and live(int(f[1])):
                int(f[2])
                r = "ok"
            elif k == "withcap" and len(f) == 3 and 0 <= int(f[1]) < 4:
                int(f[2])
                pool[int(f[1])] = b""
                r = "ok"
            elif k == "setb" and len(f) == 4 and live(int(f[1])) and fmt == "bytes":
                i, kk, v = int(f[1]), int(f[2]), int(f[3], 16)
                if kk < len(pool[i]):
                    b = bytearray(pool[i])
                    b[kk] = v
                    pool[i] = bytes(b)
                    r = "ok"
                else:
                    r = "panic"
        except (ValueError, IndexError):
            r = "bad-op"
        out.append((r, list(pool)))
    return out


SLOT_RE = re.compile(r"^(-|i:|o:|s([0-3]):)(.*)$")


def parse_out(out):
    """-> ([(result, events, [slot (kind, group, bytes) | None])], end string) or None"""
    parts = out.split(";")
    if not parts or not parts[-1].startswith("end|"):
        return None
    steps = []
    for p in parts[:-1]:
        f = p.split("|")
        if len(f) != 6:
            return None
        slots = []
        for s in f[2:]:
            if s == "-":
                slots.append(None)
                continue
            m = SLOT_RE.match(s)
            if not m:
                return None
            kind = m.group(1)[0]
            try:
                slots.append((kind, int(m.group(2)) if m.group(2) else None, unhx(m.group(3))))
            except ValueError:
                return None
        steps.append((f[0], f[1], slots))
    return steps, parts[-1]


def split_line(line):
    f = line.split("\t")
    return f[1], f[2], f[3].split(";")


def oracle_bytes(line, out):
    """the property itself on the implementation's output (independent of the Lean model)"""
    if out is None or out.startswith("PANIC") or out.startswith("ABORT"):
        return "implementation crashed: %s" % out
    fmt, atom, ops = split_line(line)
    if atom == "T":
        return None
    mismatch = "ORACLE-MISMATCH" in out
    out = strip_annot(out)
    po = parse_out(out)
    if po is None:
        return "malformed output: %s" % out[:200]
    steps, _ = po
    if len(steps) != len(ops):
        return "malformed output (op count)"
    ref = reference(fmt, ops)
    for n, ((r, _ev, slots), (er, epool), op) in enumerate(zip(steps, ref, ops)):
        if r != er:
            if fmt == "wtf8" and r == "ok" and er in ("err", "inv") and op.split(" ")[0] in ("from", "push", "slice", "pushs"):
                return WTF8_DEFECT + "; the bytes after it are skipped): op #%d %r accepted" % (n, op)
            return "op #%d %r: result %s, an independent owned-string model says %s" % (n, op, r, er)
        for k in range(4):
            got = None if slots[k] is None else slots[k][2]
            if got != epool[k]:
                return "op #%d %r: slot %d holds %r, an independent owned-string model holds %r" % (
                    n, op, k, got, epool[k])
            if slots[k] is not None:
                if slots[k][0] == "i" and len(slots[k][2]) > 8:
                    return "op #%d: inline tendril longer than 8 bytes" % n
                if fmt in ("utf8", "ascii", "wtf8") and not valid(fmt, slots[k][2]):
                    return "op #%d %r: slot %d holds bytes invalid for %s: %r" % (n, op, k, fmt, slots[k][2])
    if mismatch:
        return "the harness-internal Vec<u8> oracle diverged although the Python reference agrees (harness bug?)"
    return None


# ----------------------------------------------------------------------------- case generation

def mk(fmt, atom, ops):
    return "tendril\t%s\t%s\t%s" % (fmt, atom, ";".join(ops))


def setups(fmt, L, phase=0):
    """recipes leaving slot 0 with exactly L bytes in a given representation (name, ops)"""
    c = content(fmt, L, phase)
    out = []
    # inline / owned as produced by from
    out.append(("from", ["from 0 " + hx(c)]))
    if L <= 8:
        # owned with a small length (reserve on inline), then shared views of it
        out.append(("owned-small", ["from 0 " + hx(c), "reserve 0 12"]))
        out.append(("shared-small", ["from 0 " + hx(c), "reserve 0 12", "clone 0 3"]))
        out.append(("send-small", ["from 0 " + hx(c), "send 0"]))
    else:
        out.append(("shared2", ["from 0 " + hx(c), "clone 0 3"]))
        # views with an offset / a tail cut off: find cut points that keep validity
        pre = None
        for k in range(1, 7):
            b2 = content(fmt, L + k, phase)
            if valid(fmt, b2[k:]) and b2[k:] != b"" and pre is None:
                pre = (k, b2)
        if pre:
            k, b2 = pre
            out.append(("shared-off", ["from 0 " + hx(b2), "popf 0 %d" % k]))
        post = None
        for k in range(1, 7):
            b2 = content(fmt, L + k, phase)
            if valid(fmt, b2[:L]) and post is None:
                post = (k, b2)
        if post:
            k, b2 = post
            out.append(("shared-sole", ["from 0 " + hx(b2), "popb 0 %d" % k]))
            out.append(("shared-sub", ["from 3 " + hx(b2), "tsub 3 0 0 %d" % L]))
        out.append(("owned-grown", ["from 0 " + hx(c[:1] if valid(fmt, c[:1]) else b""), "reserve 0 40",
                                    "push 0 " + hx(c[1:] if valid(fmt, c[:1]) and valid(fmt, c[1:]) else c)]
                    if valid(fmt, c[:1]) and valid(fmt, c[1:]) else ["withcap 0 40", "push 0 " + hx(c)]))
    if L == 0:
        out.append(("new", ["new 0"]))
        out.append(("owned-cleared", ["from 0 " + hx(content(fmt, 20, phase)), "clear 0"]))
        out.append(("shared-cleared", ["from 0 " + hx(content(fmt, 20, phase)), "clear 0", "clone 0 3"]))
        out.append(("withcap", ["withcap 0 33"]))
    return out


def probes(fmt, L):
    """single ops applied to slot 0 (other operands in slots 1,2), boundary arguments"""
    P = []
    pieces = [content(fmt, n, 3) for n in (0, 1, 7, 8, 9, 16, 17)]
    for p in pieces:
        P.append(["push 0 " + hx(p)])
    if fmt in SLICEFMT:
        P.append(["pushs 0 " + hx(content(fmt, 9, 1))])
        P.append(["pushs 0 " + hx(content(fmt, 2, 1))])
    bad = {"utf8": [b"\xc3", b"\x80", b"\xed\xa0\x80", b"a\xff", b"\xf0\x9f\x98"],
           "ascii": [b"\x80", b"a\xff"], "wtf8": [b"\xc3", b"\x80", b"\xed\xa0\x80\xed\xb0\x80", b"\xf8"]}.get(fmt, [])
    for b in bad:
        P.append(["push 0 " + hx(b)])
    if fmt in SLICEFMT:
        for b in bad[:2]:
            P.append(["pushs 0 " + hx(b)])
    if fmt in CHARFMT:
        for c in (0x41, 0x7f, 0x80, 0xff, 0x100, 0x7ff, 0x800, 0xd7ff, 0xd800, 0xdfff, 0xe000, 0xffff, 0x10000,
                  0x10ffff, 0x110000):
            P.append(["pushc 0 %x" % c])
        P.append(["popc 0"])
        P.append(["popc 0", "popc 0"])
        for k in (0, 1, 2):
            P.append(["popr 0 1 %d" % k])
    ns = sorted(set(n for n in (0, 1, 2, 3, 4, L - 10, L - 9, L - 8, L - 7, L - 2, L - 1, L, L + 1, L + 100,
                                4294967295) if n >= 0))
    for n in ns:
        for k in ("popf", "popb", "tpopf", "tpopb"):
            P.append(["%s 0 %d" % (k, n)])
    subs = set()
    for off in (0, 1, 2, 3, L - 9, L - 8, L - 1, L, L + 1):
        for ln in (0, 1, 7, 8, 9, 10, L - off - 1, L - off, L - off + 1, L, 4294967295):
            if off >= 0 and ln >= 0:
                subs.add((off, ln))
    for off, ln in sorted(subs):
        P.append(["tsub 0 1 %d %d" % (off, ln)])
    for off, ln in sorted(subs)[::3]:
        P.append(["sub 0 1 %d %d" % (off, ln)])
        P.append(["tsub 0 0 %d %d" % (off, ln)])
    P += [["clone 0 1"], ["clone 0 0"], ["clear 0"], ["drop 0"], ["send 0"], ["new 0"],
          ["clear 0", "push 0 " + hx(content(fmt, 3))], ["clear 0", "push 0 " + hx(content(fmt, 12))],
          ["clone 0 1", "clone 1 2", "drop 0", "drop 1"], ["clone 0 1", "drop 1"],
          ["send 0", "send 0"], ["clone 0 1", "send 0"], ["withcap 0 9"], ["withcap 0 0"], ["withcap 0 17"]]
    for n in (0, 1, 8 - L if L <= 8 else 0, 9 - L if L <= 9 else 1, 16 - L if L <= 16 else 2,
              17 - L if L <= 17 else 3, 100):
        if n >= 0:
            P.append(["reserve 0 %d" % n])
    if fmt == "bytes":
        for k in sorted(set(x for x in (0, 1, L - 1, L, L + 5) if x >= 0)):
            P.append(["setb 0 %d ee" % k])
    # push_tendril: other operand in every representation
    o9, o3, o20 = content(fmt, 9, 5), content(fmt, 3, 5), content(fmt, 20, 5)
    P.append(["from 1 " + hx(o3), "pusht 0 1"])
    P.append(["from 1 " + hx(o9), "pusht 0 1"])
    P.append(["from 1 " + hx(o20), "clone 1 2", "pusht 0 1"])
    P.append(["from 1 " + hx(o20), "popf 1 %d" % first_cut(fmt, o20), "pusht 0 1"])
    P.append(["clone 0 1", "pusht 0 1"])
    P.append(["clone 0 1", "pusht 1 0"])
    P.append(["new 1", "pusht 0 1"])
    P.append(["new 1", "pusht 1 0"])
    P.append(["from 1 " + hx(o20), "pusht 1 0"])
    P.append(["from 1 " + hx(o20), "clone 1 2", "pusht 1 0"])
    return P


def first_cut(fmt, b):
    for k in range(1, len(b)):
        if valid(fmt, b[k:]) and valid(fmt, b[:k]):
            return k
    return 0


def adjacency_cases(fmt, atom):
    """push_tendril on views of one buffer: adjacent, overlapping, gapped, reversed, with tails"""
    cases = []
    for A in (9, 15, 16, 17, 31):
        for B in (9, 16, 17):
            for phase in (0, 1):
                whole = content(fmt, A + B + 9, phase)
                cuts = [k for k in range(len(whole) + 1) if valid(fmt, whole[:k]) and valid(fmt, whole[k:])]
                a = min((k for k in cuts if k >= A), default=None)
                if a is None:
                    continue
                b = min((k for k in cuts if k >= a + B), default=None)
                if b is None:
                    continue
                base = ["from 0 " + hx(whole)]
                adj = base + ["tsub 0 1 0 %d" % a, "tsub 0 2 %d %d" % (a, b - a)]
                tails = [[], ["push 1 " + hx(content(fmt, 1))], ["push 2 " + hx(content(fmt, 1))],
                         ["drop 0", "drop 2"], ["popb 1 1"] if valid(fmt, whole[:b - 1]) else [],
                         ["clear 2", "push 1 " + hx(content(fmt, 2))]]
                for tail in tails:
                    cases.append((mk(fmt, atom, adj + ["pusht 1 2"] + tail), "cover-adjacent"))
                cases.append((mk(fmt, atom, adj + ["pusht 2 1"]), "cover-adjacent"))
                cases.append((mk(fmt, atom, adj + ["pusht 1 2", "pusht 1 2"]), "cover-adjacent"))
                cases.append((mk(fmt, atom, adj + ["pusht 1 0"]), "cover-adjacent"))
                cases.append((mk(fmt, atom, adj + ["pusht 0 2"]), "cover-adjacent"))
                # gapped / overlapping second view
                for d in (-1, 1, 2):
                    a2 = a + d
                    if a2 in cuts and b > a2 and b - a2 > 8:
                        cases.append((mk(fmt, atom, base + ["tsub 0 1 0 %d" % a, "tsub 0 2 %d %d" % (a2, b - a2),
                                                            "pusht 1 2", "push 2 " + hx(content(fmt, 1))]),
                                      "cover-adjacent"))
                # adjacent but in different buffers (same offsets)
                cases.append((mk(fmt, atom, base + ["from 3 " + hx(whole), "tsub 0 1 0 %d" % a,
                                                    "tsub 3 2 %d %d" % (a, b - a), "pusht 1 2"]), "cover-adjacent"))
                # views produced by pops (offset arithmetic)
                cases.append((mk(fmt, atom, base + ["clone 0 1", "clone 0 2", "popb 1 %d" % (len(whole) - a),
                                                    "popf 2 %d" % a, "pusht 1 2", "pusht 1 2"]), "cover-adjacent"))
    return cases


EDGE_SEQS = [
    "7f", "80", "bf", "c0 80", "c1 bf", "c2 80", "c2 7f", "c2 c0", "df bf", "df", "e0 9f bf", "e0 a0 80", "e0 a0",
    "e0 80 80", "e1 80 80", "ec bf bf", "ed 9f bf", "ed a0 80", "ed af bf", "ed b0 80", "ed bf bf", "ee 80 80",
    "ef bf bf", "ef bf", "f0 8f bf bf", "f0 90 80 80", "f0 90 80", "f0 90", "f0", "f3 bf bf bf", "f4 8f bf bf",
    "f4 90 80 80", "f5 80 80 80", "f7 bf bf bf", "f8 88 80 80 80", "fe", "ff", "e2 82 ac", "e2 82 7f", "e2 28 a1",
    "f0 9f 98 80", "f0 9f 98 7f", "f0 28 8c bc", "c3 28", "a0 a1",
    # a complete character followed by a stray continuation byte (and bytes that a skipping validator would miss)
    "c2 80 80", "c2 80 80 ff", "df bf bf", "e2 82 ac 80", "e2 82 ac 80 ff ff", "f0 9f 98 80 80", "ed a0 80 80",
]
LEADS = ["ed a0 80", "ed a0 bd", "ed af bf"]
TRAILS = ["ed b0 80", "ed b8 80", "ed bf bf"]


def validate_cases(fmt, atom, tier):
    """format validation at the edges of the well-formed byte ranges (and surrogate joins for WTF-8)"""
    cases = []
    pre6 = "61 62 63 64 65 66"
    for s in EDGE_SEQS:
        for ctx in (s, "61 " + s, s + " 62", pre6 + " " + s + " 7a 7a 7a"):
            cases.append((mk(fmt, atom, ["from 0 " + ctx, "new 1", "push 1 " + ctx, "from 2 " + pre6 + " 67 68 69",
                                         "push 2 " + ctx, "tpopb 2 1", "tpopb 2 2", "tpopf 2 9", "tpopf 2 1"]),
                          "cover-validate"))
        n = len(s.split(" "))
        cases.append((mk(fmt, atom, ["from 0 " + pre6 + " 67 68 " + s + " 7a", "tsub 0 1 8 %d" % n,
                                     "tsub 0 2 8 %d" % (n - 1 if n > 1 else 1), "tsub 0 3 9 %d" % n,
                                     "tpopf 0 8", "tpopb 0 1", "tpopb 0 1"]), "cover-validate"))
    if fmt == "wtf8":
        for l in LEADS:
            for t in TRAILS:
                for pre in ("", pre6, pre6 + " 67 68 69"):
                    for post in ("", " 7a", " 7a 7a 7a 7a 7a 7a 7a 7a 7a"):
                        a = (pre + " " + l).strip()
                        b = (t + post).strip()
                        cases.append((mk(fmt, atom, ["from 0 " + a, "push 0 " + b, "from 1 " + a, "from 2 " + b,
                                                     "pusht 1 2", "clone 1 3", "tpopb 1 1", "tpopb 1 4", "tpopf 3 1",
                                                     "from 2 " + a + " " + b]), "cover-validate"))
                        cases.append((mk(fmt, atom, ["from 0 " + a, "clone 0 1", "from 2 " + b, "clone 2 3",
                                                     "pusht 0 2", "pusht 1 3", "push 3 " + l, "push 3 " + t]),
                                      "cover-validate"))
    if tier == "thorough" and fmt in ("utf8", "wtf8") and atom == "N":
        # every pair of leading bytes, with representative third / fourth bytes
        for a in range(0x80, 0x100):
            for b in range(0x100):
                for tail in ("", " 80", " bf", " 80 80", " 7f", " bf bf"):
                    cases.append((mk(fmt, atom, ["from 0 %x %x%s" % (a, b, tail)]), "cover-validate-pairs"))
    return cases


GRID_OFFS = [0, 1, 5, 8, 9, 16, 20, 31]
GRID_LENS = [0, 1, 8, 9, 10, 16]


def pusht_grid_cases(fmt, atom):
    """exhaustive push_tendril grid over one shared 64-byte buffer: receiver = view (o1, l1), argument = view
    (o2, l2) for all offsets / lengths of the grid (adjacent, overlapping, gapped, reversed, argument at
    2*o1 + l1, …), the views produced by subtendril and by pop_front / pop_back; afterwards every slot is mutated
    and observed.  The 64 bytes are distinct ASCII, so every cut is valid in every format."""
    whole = bytes(0x30 + i for i in range(64))
    base = "from 0 " + hx(whole)
    tail = ["push 1 7e", "push 2 7d", "push 0 7c"]
    cases = []
    for o1 in GRID_OFFS:
        for l1 in GRID_LENS:
            for o2 in GRID_OFFS:
                for l2 in GRID_LENS:
                    if o1 + l1 > 64 or o2 + l2 > 64:
                        continue
                    cases.append((mk(fmt, atom, [base, "tsub 0 1 %d %d" % (o1, l1), "tsub 0 2 %d %d" % (o2, l2),
                                                 "pusht 1 2"] + tail), "cover-pusht-grid"))
                    cases.append((mk(fmt, atom, [base, "clone 0 1", "clone 0 2",
                                                 "popf 1 %d" % o1, "popb 1 %d" % (64 - o1 - l1),
                                                 "popb 2 %d" % (64 - o2 - l2), "popf 2 %d" % o2,
                                                 "pusht 1 2", "pusht 2 1"] + tail), "cover-pusht-grid"))
    return cases


def cover_cases(fmt, atom, lens=LENS, phases=(0,)):
    cases = []
    for L in lens:
        for phase in phases:
            for sname, sops in setups(fmt, L, phase):
                for p in probes(fmt, L):
                    # afterwards mutate every live slot to expose aliasing, observe, drop
                    tail = ["push 0 " + hx(content(fmt, 1, 9)), "push 1 " + hx(content(fmt, 1, 8)),
                            "push 3 " + hx(content(fmt, 1, 7))]
                    cases.append((mk(fmt, atom, sops + p + tail), "cover-" + sname))
    return cases


OPS_W = [("push", 18), ("pushs", 4), ("pushc", 5), ("pusht", 12), ("popf", 5), ("popb", 5), ("tpopf", 8),
         ("tpopb", 8), ("sub", 3), ("tsub", 12), ("clone", 12), ("clear", 4), ("drop", 5), ("popc", 5),
         ("popr", 4), ("send", 4), ("reserve", 3), ("withcap", 1), ("setb", 4), ("new", 2), ("from", 8),
         ("slice", 2)]


def rand_len(rng):
    r = rng.random()
    if r < 0.6:
        return rng.choice(LENS)
    if r < 0.9:
        return rng.randint(0, 40)
    return rng.randint(0, 200)


def random_case(fmt, atom, rng, nops=None):
    ops = []
    lens = [None] * 4
    names = [o for o, _ in OPS_W]
    weights = [w for _, w in OPS_W]
    # start with two tendrils
    for i in (0, 1):
        ops.append("from %d %s" % (i, hx(content(fmt, rand_len(rng), rng.randint(0, 7)))))
    for _ in range(nops or rng.randint(3, 16)):
        o = rng.choices(names, weights)[0]
        i, j = rng.randint(0, 3), rng.randint(0, 3)
        if o in ("push", "pushs"):
            b = content(fmt, rng.choice([0, 1, 1, 2, 3, 7, 8, 9, 16, 17, 30]), rng.randint(0, 7))
            if rng.random() < 0.1:
                b = bytes(rng.getrandbits(8) for _ in range(rng.randint(1, 4)))
            ops.append("%s %d %s" % (o, i, hx(b)))
        elif o in ("from", "slice"):
            b = content(fmt, rand_len(rng), rng.randint(0, 7))
            if rng.random() < 0.1:
                b = bytes(rng.getrandbits(8) for _ in range(rng.randint(1, 12)))
            ops.append("%s %d %s" % (o, i, hx(b)))
        elif o == "pushc":
            ops.append("pushc %d %x" % (i, rng.choice([0x41, 0x20, 0xe9, 0x20ac, 0x1f600, 0x7f, 0x80, 0xd800, 0x110000])))
        elif o in ("pusht", "clone"):
            ops.append("%s %d %d" % (o, i, j))
        elif o in ("popf", "popb", "tpopf", "tpopb"):
            ops.append("%s %d %d" % (o, i, rng.choice([0, 1, 1, 2, 3, 4, 7, 8, 9, 16, 17, rng.randint(0, 40)])))
        elif o in ("sub", "tsub"):
            ops.append("%s %d %d %d %d" % (o, i, j, rng.choice([0, 0, 1, 2, 3, 8, 9, rng.randint(0, 40)]),
                                           rng.choice([0, 1, 7, 8, 9, 10, 16, 17, rng.randint(0, 40)])))
        elif o == "popr":
            ops.append("popr %d %d %d" % (i, j, rng.randint(0, 2)))
        elif o in ("reserve", "withcap"):
            ops.append("%s %d %d" % (o, i, rng.choice([0, 1, 8, 9, 16, 17, 33, 100])))
        elif o == "setb":
            ops.append("setb %d %d %x" % (i, rng.choice([0, 1, 7, 8, 9, 20]), rng.getrandbits(8)))
        else:
            ops.append("%s %d" % (o, i))
    return mk(fmt, atom, ops)


def gen_cases(tier, rng):
    cases = []
    for fmt in FORMATS:
        phases = (0, 1, 2, 3) if (fmt in ("utf8", "wtf8") and tier == "thorough") else (0,)
        for atom in ("N", "A"):
            if tier == "quick" and atom == "A":
                # quick tier: the Atomic instantiation runs the cover at the representation boundaries only
                cases += cover_cases(fmt, atom, lens=[0, 8, 9, 17], phases=(0,))
            else:
                cases += cover_cases(fmt, atom, phases=phases)
            cases += adjacency_cases(fmt, atom)
            if tier == "thorough" or atom == "N" or fmt == "bytes":
                cases += pusht_grid_cases(fmt, atom)
            if fmt in ("utf8", "wtf8", "ascii"):
                cases += validate_cases(fmt, atom, tier)
    n = 4000 if tier == "quick" else 400000
    for k in range(n):
        fmt = FORMATS[k % 5]
        atom = "NA"[(k // 5) % 2]
        cases.append((random_case(fmt, atom, rng), "random"))
    cases += api2_cases(tier, rng)
    return cases


ANNOT = re.compile(r" ORACLE-MISMATCH\([^)]*\)")


def strip_annot(out):
    return ANNOT.sub("", out) if out else out


def compare(line, impl, model):
    if line.startswith("tendril2\t"):
        # family api2 is oracle-only: the Lean driver has no such engine and must say so
        return model == "bad-engine"
    # the harness-internal Vec<u8> oracle annotates the output; the Lean model is compared without it
    return strip_annot(impl) == model


WTF8_DEFECT = "WTF8::validate accepts ill-formed WTF-8 (stray continuation byte after a 2-/3-byte character"


def oracle(line, out):
    if line.startswith("tendril2\t"):
        return api2_oracle(line, out)
    return oracle_bytes(line, out)


# finding ids the main session may put into known_findings.json (kind "known") for the defect above
KNOWN_MATCHERS = {
    "F22": lambda f: f.kind == "oracle" and (f.detail or "").startswith(WTF8_DEFECT),
    "F-C11-WTF8-VALIDATE": lambda f: f.kind == "oracle" and (f.detail or "").startswith(WTF8_DEFECT),
}


def nontrivial(line, out):
    if out is None:
        return False
    if line.startswith("tendril2\t"):
        return "=" in out.split("@")[0]
    po = parse_out(out)
    if po is None:
        return False
    steps, _ = po
    prev = None
    for r, _ev, slots in steps:
        if r not in ("ok", "bad-op"):
            return True
        if prev is not None and slots != prev:
            return True
        prev = slots
    return False


def neighbourhood(line):
    """shorter prefixes of a disagreeing history"""
    if line.startswith("tendril2\t"):
        return []
    fmt, atom, ops = split_line(line)
    return [mk(fmt, atom, ops[:k]) for k in range(1, len(ops))][-12:]


def extra_evidence(check):
    return {"formats": FORMATS, "boundary_lengths": LENS,
            "families": "cover-<representation> × probes, cover-adjacent (push_tendril fast path), "
                        "cover-validate (edges of the well-formed UTF-8 ranges, surrogate joins), cover-pusht-grid (all receiver × "
                        "argument views (offset, length) of one shared 64-byte buffer, via subtendril and via pops), random, "
                        "api2-<op> (engine tendril2, oracle-only; ops: %s)" % " ".join(API2_OPS),
            "api2_shapes": "i as built, o owned, s shared, x shared with offset, p sole owner with offset",
            "api2_lengths": API2_LENS}


# ============================================================================= family api2
# engine `tendril2` (harness/src/engines/tendril2.rs): the rest of tendril's public API — conversions
# between formats, comparison / hashing, std trait impls, io / fmt writers, read_to_tendril, Extend /
# FromIterator, TendrilSink helpers.  One case = one pure function of its inputs; there is no Lean model
# for these (compare() only demands that the Lean driver answers `bad-engine`), the judge is the Python
# reference below: what an owned byte string / a Python str gives.

API2_LENS = [0, 1, 7, 8, 9, 16, 17, 33, 100]
SHAPES = "iosxp"
SUPERS = {"ascii": ["utf8", "latin1"], "utf8": ["wtf8"]}
SUBS = {"utf8": ["ascii"], "latin1": ["ascii"], "wtf8": ["utf8"]}
API2_ANY = ("bytes", "reint", "eq", "extt", "send", "views")
API2_SLICE = ("cmp", "borrow", "debug", "from", "exts")
API2_UTF8 = ("display", "tostring", "fromstr", "wstr", "format", "extc")
API2_BYTES = ("iowrite", "read", "extb", "extu8", "sink")
API2_OPS = API2_ANY + ("super", "sub", "eqstr") + API2_SLICE + API2_UTF8 + API2_BYTES
DIGEST_OVER = 600
MASK64 = (1 << 64) - 1


def fnv64(b):
    h = 0xcbf29ce484222325
    for x in b:
        h = ((h ^ x) * 0x100000001b3) & MASK64
    return h


def hexs(b):
    """as the engine prints byte strings: long ones as length + FNV-1a digest"""
    if len(b) > DIGEST_OVER:
        return "#%d:%x" % (len(b), fnv64(b))
    return hx(b)


def opnd(shape, b):
    """operand field; long periodic contents are written as *n*pattern"""
    if len(b) > 64:
        for plen in (1, 2, 3, 4, 5, 7):
            pat = b[:plen]
            if all(b[i] == pat[i % plen] for i in range(len(b))):
                return "%s:*%d*%s" % (shape, len(b), hx(pat))
    return "%s:%s" % (shape, hx(b))


def parse_opnd(f):
    """-> (shape, bytes) for a byte operand, (None, word) otherwise"""
    if len(f) >= 2 and f[1] == ":" and f[0] in "iosxpr":
        spec = f[2:]
        if spec.startswith("*"):
            n, pat = spec[1:].split("*", 1)
            p = unhx(pat)
            return f[0], bytes(p[i % len(p)] for i in range(int(n)))
        return f[0], unhx(spec)
    return None, f


def kind_of(shape, n):
    """representation the Debug impl must report for an operand of n bytes built in `shape`"""
    if shape == "o":
        return "o"
    if shape == "s":
        return "s"
    if shape == "i":
        return "i" if n <= 8 else "o"
    return "i" if n <= 8 else "s"       # x, p: views of a longer buffer; short results are inline


def fresh_kind(n):
    """a tendril built by copying n bytes / by pushing onto an empty one"""
    return "i" if n <= 8 else "o"


def sound_as(fmt, b):
    """may the bytes be looked at as `fmt` without validation (the engine's own, conservative rule)"""
    if fmt in ("bytes", "latin1"):
        return True
    if fmt == "ascii":
        return all(x < 0x80 for x in b)
    return valid("utf8", b)


PRINTABLE_NON_ASCII = set("\u00e9\u20ac\U0001f600\u00df\u8a9e\u00e1")   # é € 😀 ß 語 á: printable in every Unicode version


def rust_debug_str(s):
    """<str as Debug>::fmt for the characters whose class is certain; None if some character's is not"""
    out = ['"']
    for ch in s:
        c = ord(ch)
        if ch == '"':
            out.append('\\"')
        elif ch == "\\":
            out.append("\\\\")
        elif ch == "\n":
            out.append("\\n")
        elif ch == "\r":
            out.append("\\r")
        elif ch == "\t":
            out.append("\\t")
        elif c == 0:
            out.append("\\0")
        elif c < 0x20 or c == 0x7f or 0x80 <= c <= 0x9f:
            out.append("\\u{%x}" % c)
        elif c < 0x7f or ch in PRINTABLE_NON_ASCII:
            out.append(ch)
        else:
            return None
    out.append('"')
    return "".join(out)


def sim_reader(data, chunks, intr, errat, buflens):
    """the engine's chunked reader: `buflens(k)` = size of the buffer offered at the k-th successful read.
    -> (pieces delivered, failed?)"""
    pos, k, call, pieces = 0, 0, 0, []
    while True:
        call += 1
        if intr and call % intr == 0:
            continue
        if errat is not None and pos >= errat:
            return pieces, True
        n = min(chunks[k % len(chunks)], buflens(len(pieces)), len(data) - pos)
        k += 1
        if errat is not None:
            n = min(n, errat - pos)
        if n == 0:
            return pieces, False
        pieces.append(data[pos:pos + n])
        pos += n


def show_pieces(ps):
    return "%s;%s" % (",".join(str(len(p)) for p in ps) if ps else "-", hexs(b"".join(ps)))


def api2_expected(line):
    """the value part the engine must print, from the inputs alone"""
    f = line.split("\t")
    if len(f) < 5 or f[0] != "tendril2":
        return "bad-case"
    op, fmt, atom = f[1], f[2], f[3]
    args = [parse_opnd(x) for x in f[4:]]
    if atom not in "NA" or fmt not in FORMATS:
        return "bad-case"
    ok_fmt = (op in API2_ANY or (op == "super" and len(args) == 2 and args[1][1] in SUPERS.get(fmt, []))
              or (op == "sub" and len(args) == 2 and args[1][1] in SUBS.get(fmt, []))
              or (op == "eqstr" and fmt in ("ascii", "utf8")) or (op in API2_SLICE and fmt in SLICEFMT)
              or (op in API2_UTF8 and fmt == "utf8") or (op in API2_BYTES and fmt == "bytes"))
    if not ok_fmt:
        return "bad-op"

    def T(k):
        sh, b = args[k]
        if sh is None or sh == "r":
            raise KeyError("bad-case")
        if not valid(fmt, b):
            raise KeyError("invalid-input")
        return sh, b

    def kb(k, b):
        return "%s:%s" % (k, hexs(b))

    def raw(k, as_fmt=None):
        sh, b = args[k]
        if sh != "r":
            raise KeyError("bad-case")
        if as_fmt and not valid(as_fmt, b):
            raise KeyError("invalid-input")
        return b

    def num(k):
        sh, w = args[k]
        if sh is not None:
            raise KeyError("bad-case")
        return int(w)

    try:
        if op == "bytes":
            sh, b = T(0)
            k = kind_of(sh, len(b))
            out = "as=%s into=%s k=%s%s" % (hexs(b), hexs(b), k, k)
        elif op == "reint":
            sh, b = T(0)
            tgt = args[1][1]
            k = kind_of(sh, len(b))
            v = valid(tgt, b)
            snd = sound_as(tgt, b)
            out = "view=%s into=%s raw=%s rawinto=%s k=%s" % (
                "ok:" + hexs(b) if v else "err", ("ok:" if v else "err:") + kb(k, b),
                kb(k, b) if snd else "n/a", kb(k, b) if snd else "n/a", k)
        elif op == "eq":
            (_, a), (_, b) = T(0), T(1)
            e = int(a == b)
            out = "eq=%d ne=%d hasheq=%d hslice=1" % (e, 1 - e, e)
        elif op == "views":
            b = raw(0, fmt)
            if any(x >= 0x80 for x in b):
                return "bad-case"      # the expected count below is for contents every cut of which is valid
            n = len(b)
            cnt = 2 * sum(1 for off in range(n + 1) for ln in (0, 1, 7, 8, 9, 12, 16, 20, n) if off + ln <= n)
            out = "views=%d pairs=%d bad=-" % (cnt, cnt * cnt)
        elif op == "extt":
            sh, acc = T(0)
            for k in range(1, len(args)):
                acc = concat(fmt, acc, T(k)[1])
            out = "ext=%s from=%s args=ok" % (hexs(acc), hexs(acc))
        elif op == "send":
            sh, b = T(0)
            out = "from=%s into=%s c=%s m=%s n=%s" % (kb("o", b), kb("o", b), kb("s", b),
                                                      kb(fresh_kind(len(b) + 1), b + b"!"), kb("s", b))
        elif op == "super":
            sh, b = T(0)
            k = kind_of(sh, len(b))
            out = "view=%s into=%s" % (kb(k, b), kb(k, b))
        elif op == "sub":
            sh, b = T(0)
            k = kind_of(sh, len(b))
            v = valid(args[1][1], b)
            out = "view=%s into=%s" % ("ok:" + kb(k, b) if v else "err", ("ok:" if v else "err:") + kb(k, b))
        elif op == "eqstr":
            sh, b = T(0)
            e = int(b == raw(1, "utf8"))
            out = "eq=%d ne=%d" % (e, 1 - e)
        elif op == "cmp":
            (_, a), (_, b) = T(0), T(1)
            c = (a > b) - (a < b)           # byte-wise lexicographic (= str order for UTF-8)
            nm = {-1: "lt", 0: "eq", 1: "gt"}
            out = "cmp=%s pcmp=%s lt=%d le=%d gt=%d ge=%d rev=%s" % (nm[c], nm[c], c < 0, c <= 0, c > 0, c >= 0, nm[-c])
        elif op == "borrow":
            sh, b = T(0)
            key = raw(1)
            # map = {tendril: 7, empty tendril: 1} looked up by the key bytes
            got = (1 if b == b"" else 7) if key == b else (1 if key == b"" else None)
            out = "borrow=%s asref=%s deref=%s map=%s" % (hexs(b), hexs(b), hexs(b), "-" if got is None else got)
        elif op == "debug":
            sh, b = T(0)
            k = {"i": "inline", "o": "owned", "s": "shared"}[kind_of(sh, len(b))]
            if fmt == "bytes":
                body = "[%s]" % ", ".join(str(x) for x in b)
            else:
                body = rust_debug_str(b.decode("utf-8"))
                if body is None:
                    return ("debug-prefix", ("Tendril<UTF8>(%s: \"" % k).encode(), b'")')
            out = "dbg=%s" % hexs(("Tendril<%s>(%s: %s)" % ("Bytes" if fmt == "bytes" else "UTF8", k, body)).encode())
        elif op == "from":
            b = raw(0, fmt)
            x = kb(fresh_kind(len(b)), b)
            out = "from=%s slice=%s tot=%s default=i:-" % (x, x, x)
        elif op == "exts":
            sh, b = T(0)
            ps = b"".join(raw(k, fmt) for k in range(1, len(args)))
            out = "ext=%s from=%s" % (hexs(b + ps), hexs(ps))
        elif op == "display":
            sh, b = T(0)
            s = b.decode("utf-8")
            out = "disp=%s" % hexs(("%s|%s|%s|%s|" % (s, s.rjust(12), s.ljust(5), s[:3])).encode("utf-8"))
        elif op == "tostring":
            sh, b = T(0)
            out = "ref=%s tos=%s own=%s k=%s" % (hexs(b), hexs(b), hexs(b), kind_of(sh, len(b)))
        elif op == "fromstr":
            b = raw(0, "utf8")
            x = kb(fresh_kind(len(b)), b)
            out = "string=%s parse=%s" % (x, x)
        elif op == "wstr":
            sh, b = T(0)
            s, n = raw(1, "utf8"), num(2)
            out = "ws=1 mid=%s wf=1 wc=1 b=%s" % (hexs(b + s), hexs(b + s + s + ("-%03d" % n).encode() + b"!"))
        elif op == "format":
            s, n = raw(0, "utf8").decode("utf-8"), num(1)
            a = ("%s:%d:%x" % (s, n, n)).encode("utf-8")
            m = ("[%s]%d" % (s.rjust(6), n)).encode("utf-8")
            out = "fmt=%s mac=%s" % (kb(fresh_kind(len(a)), a), kb(fresh_kind(len(m)), m))
        elif op == "extc":
            sh, b = T(0)
            s = raw(1, "utf8")
            fc = kb("i", s.decode("utf-8")[0].encode("utf-8")) if s else "none"
            out = "ext=%s from=%s fc=%s" % (hexs(b + s), hexs(s), fc)
        elif op == "iowrite":
            sh, b = T(0)
            a, c = raw(1), raw(2)
            out = "n=%d mid=%s all=1 flush=1 wf=1 b=%s" % (len(a), hexs(b + a), hexs(b + a + c + str(len(a)).encode()))
        elif op in ("read", "sink"):
            sh, b = T(0)
            data = raw(1)
            chunks = [int(x) for x in args[2][1].split(",")]
            intr, errat = num(3), num(4)
            if any(c <= 0 for c in chunks) or intr == 1 or intr < 0:
                return "bad-case"
            errat = None if errat < 0 else errat
            if op == "read":
                # whatever the buffer sizes: everything delivered before the end / the error is appended
                fail = errat is not None and errat <= len(data)
                got = data[:errat] if fail else data
                out = "r=%s b=%s s=ok:%d b2=%s" % ("err" if fail else "ok:%d" % len(got), hexs(b + got), len(data),
                                                   hexs(b + data))
            else:
                cs = max(5, len(data) // 6 + 1)
                it = [data[i:i + cs] for i in range(0, len(data), cs)]
                ps, fail = sim_reader(data, chunks, intr, errat, lambda k: 4096)
                out = "one=1/%s iter=%d/%s read=%s/%s fin=%d" % (show_pieces([b]), len(it), show_pieces(it),
                                                                "err" if fail else len(ps), show_pieces(ps), 2 + (not fail))
        elif op == "extb":
            sh, b = T(0)
            n, v = num(1), num(2)
            if not (0 <= n <= 1 << 20 and 0 <= v < 256):
                return "bad-case"
            out = "b=%s" % hexs(b + bytes([v]) * n)
        elif op == "extu8":
            sh, b = T(0)
            a = raw(1)
            out = "ext=%s extref=%s from=%s fromref=%s" % (hexs(b + a), hexs(b + a), hexs(a), hexs(a))
        else:
            return "bad-op"
    except KeyError as e:
        return e.args[0]
    except (ValueError, IndexError, TypeError, UnicodeDecodeError):
        return "bad-case"
    return out + " keep=ok"


def api2_oracle(line, out):
    if out is None or out.startswith("PANIC") or out.startswith("ABORT") or out.startswith("HANG"):
        return "implementation crashed: %s" % out
    if "@ledger=" not in out:
        return "malformed output: %s" % out[:200]
    value = out.rsplit("@ledger=", 1)[0]
    want = api2_expected(line)
    if isinstance(want, tuple):
        # Debug of a str with characters whose escape class this reference does not know: frame only
        _, pre, post = want
        if not value.startswith("dbg=") or not value.endswith(" keep=ok"):
            return "api2 %s: got %s" % (line.split("\t")[1], value[:200])
        got = unhx(value[4:-8]) if not value[4:].startswith("#") else None
        if got is not None and not (got.startswith(pre) and got.endswith(post)):
            return "api2 debug: %r does not have the form %r…%r" % (got, pre, post)
        return None
    if value != want:
        return "api2 %s: the real code gives [%s], an owned byte string / Python str gives [%s]" % (
            line.split("\t")[1], value[:300], want[:300])
    return None


def api2_ledger_oracle(line, out):
    """C12's half: the allocation ledger over the whole case"""
    if out is None or out.startswith("PANIC") or out.startswith("ABORT") or out.startswith("HANG"):
        return "implementation crashed: %s" % out
    if "@ledger=" not in out:
        return "malformed output: %s" % out[:200]
    value, led = out.rsplit("@ledger=", 1)
    if value == "panic":
        return "api2 %s: panicked" % line.split("\t")[1]
    if led != "ok":
        return "api2 %s: allocation ledger not balanced at the end of the case: %s" % (line.split("\t")[1], led)
    return None


# ----------------------------------------------------------------------------- api2 case generation

def api2_contents(fmt):
    cs = [content(fmt, n) for n in API2_LENS]
    cs += {
        "bytes": [b"\x00", b"\xff\x00\x80", bytes(range(250, 256)) + bytes(range(6)), b"abc", b"\xc3\xa9t\xc3\xa9"],
        "ascii": [b"\x00\x7f", b"\x7f" * 9, b"abc"],
        "latin1": [b"\x80\xff\xa0", b"\xff" * 9, b"abc", b"\xc3\xa9"],
        "utf8": ["\x7f\x80\u07ff\u0800\uffff\U00010000\U0010ffff".encode(), "\ud7ff\ue000".encode("utf-8", "surrogatepass"),
                 b"\x00", b"abc", "\U0001f600\U0001f600\U0001f600".encode(), "\u00e9".encode()],
        "wtf8": [b"\xed\xa0\x80", b"\xed\xb0\x80", b"\xed\xb0\x80\xed\xa0\x80", b"\xed\xa0\x80a\xed\xb0\x80",
                 "\x7f\x80\u07ff\u0800\uffff\U00010000\U0010ffff".encode(), b"abc", b"abcdefg\xed\xa0\xbd",
                 b"\xed\xb8\x80abcdefgh"],
    }[fmt]
    return cs


def api2_variants(fmt, b):
    """contents to compare b with: longer / shorter / same length, smaller / greater, empty"""
    cand = [b, b + content(fmt, 1, 5), b"", b"z", b"A", b"\x00", b + b"\x00"]
    for k in range(len(b) - 1, 0, -1):
        if valid(fmt, b[:k]):
            cand.append(b[:k])
            break
    if b:
        cand.append(b[:-1] + bytes([b[-1] ^ 1]))
        cand.append(bytes([b[0] ^ 1]) + b[1:])
        cand.append(bytes([b[0] ^ 0x20]) + b[1:])
        cand.append(b[1:] + b[:1])
    out = []
    for c in cand:
        if valid(fmt, c) and c not in out:
            out.append(c)
    return out


API2_INVALID = [unhx(s) for s in EDGE_SEQS]
# first / last scalar value of every UTF-8 length
UTF8_BOUNDS = "\x00\x7f\x80\u07ff\u0800\ud7ff\ue000\uffff\U00010000\U0010ffff".encode("utf-8", "surrogatepass")


def api2_cases(tier, rng):
    thorough = tier == "thorough"
    cases = []

    def add(op, fmt, atom, *args):
        cases.append(("tendril2\t%s\t%s\t%s\t%s" % (op, fmt, atom, "\t".join(args)), "api2-" + op))

    # every pair of views of one buffer (equal length at different offsets, equal and different contents)
    for fmt in FORMATS:
        for ci, b in enumerate([bytes(97 + ((i * 7 + i // 5) % 26) for i in range(48)), b"0123456789ab" * 4, b"a" * 40,
                                b"id=0123456789ab,id=0123456789ac,id=0123456789ab", b"", b"x", b"12345678", b"123456789"]):
            for atom in ("NA" if thorough else "NA"[ci % 2]):
                add("views", fmt, atom, opnd("r", b))
    for fmt in FORMATS:
        conts = api2_contents(fmt)
        for ci, b in enumerate(conts):
            for si, sh in enumerate(SHAPES):
                # quick: the atomicity alternates over (content, shape) instead of the full product
                for atom in ("NA" if thorough else "NA"[(ci + si) % 2]):
                    t1 = opnd(sh, b)
                    add("bytes", fmt, atom, t1)
                    add("send", fmt, atom, t1)
                    for tgt in FORMATS:
                        add("reint", fmt, atom, t1, tgt)
                    for tgt in SUPERS.get(fmt, []):
                        add("super", fmt, atom, t1, tgt)
                    for tgt in SUBS.get(fmt, []):
                        add("sub", fmt, atom, t1, tgt)
                    vs = api2_variants(fmt, b)
                    for vi, v in enumerate(vs):
                        sh2 = SHAPES[(si + 1 + vi) % 5]
                        add("eq", fmt, atom, t1, opnd(sh2, v))
                        if fmt in SLICEFMT:
                            add("cmp", fmt, atom, t1, opnd(sh2, v))
                            if vi < 4:
                                add("borrow", fmt, atom, t1, opnd("r", v))
                        if fmt in ("ascii", "utf8") and valid("utf8", v):
                            add("eqstr", fmt, atom, t1, opnd("r", v))
                    if fmt == "ascii":
                        add("eqstr", fmt, atom, t1, opnd("r", "é".encode()))
                    # Extend<&Tendril> / FromIterator<&Tendril>
                    c1, c9, c17 = content(fmt, 1, 3), content(fmt, 9, 3), content(fmt, 17, 3)
                    add("extt", fmt, atom, t1)
                    add("extt", fmt, atom, t1, opnd("i", c1))
                    add("extt", fmt, atom, t1, opnd("s", c9), opnd("x", c17), opnd("i", b""), opnd("o", c1))
                    add("extt", fmt, atom, t1, opnd(SHAPES[(si + 2) % 5], b))
                    if fmt == "wtf8":
                        for other in (b"\xed\xb0\x80", b"\xed\xb8\x80abcdefgh", b"\xed\xa0\x80"):
                            for sh2 in "isx":
                                add("extt", fmt, atom, t1, opnd(sh2, other))
                                add("extt", fmt, atom, t1, opnd("i", b""), opnd(sh2, other), opnd(sh2, other))
                    if fmt in SLICEFMT:
                        add("debug", fmt, atom, t1)
                        p1, p8, p9 = content(fmt, 1, 3), content(fmt, 8, 3), content(fmt, 9, 3)
                        for ps in ([], [p1], [p1, b"", p8], [p9, p8, p1], [b""]):
                            add("exts", fmt, atom, t1, *[opnd("r", p) for p in ps])
                    if fmt == "utf8":
                        add("display", fmt, atom, t1)
                        add("tostring", fmt, atom, t1)
                        for n in (0, 1, 8, 9):
                            add("wstr", fmt, atom, t1, opnd("r", content("utf8", n, 2)), str((7, 0, 1234, 56)[n % 4]))
                        for s in (b"", b"a", "\u00e9\u20ac".encode(), "\U0001f600\U0001f600\U0001f600".encode(), content("utf8", 9, 1),
                                  content("utf8", 17, 2), b"abcdefgh" * 5, UTF8_BOUNDS):
                            add("extc", fmt, atom, t1, opnd("r", s))
                        add("wstr", fmt, atom, t1, opnd("r", UTF8_BOUNDS), "1000")
                        add("exts", fmt, atom, t1, opnd("r", UTF8_BOUNDS), opnd("r", UTF8_BOUNDS[:1]))
                    if fmt == "bytes":
                        for a in (0, 1, 8, 9, 17):
                            add("iowrite", fmt, atom, t1, opnd("r", content("bytes", a, 1)),
                                opnd("r", content("bytes", (a * 5 + 3) % 19, 2)))
                            add("extu8", fmt, atom, t1, opnd("r", content("bytes", a, 4)))
                        # every byte value goes through the byte-wise paths
                        for extra in (b"\xff", b"\xff\x00\x80\x7f", bytes(range(256))):
                            add("extu8", fmt, atom, t1, opnd("r", extra))
                            add("iowrite", fmt, atom, t1, opnd("r", extra), opnd("r", extra[::-1]))
                            add("exts", fmt, atom, t1, opnd("r", extra), opnd("r", extra[:1]))
                        add("read", fmt, atom, t1, opnd("r", bytes(range(256))), "7,1", "3", "-1")
                        add("sink", fmt, atom, t1, opnd("r", bytes(range(256))), "100", "0", "-1")
                        for n in sorted(set([0, 1, 7, 8, 9, 100, max(0, 8 - len(b)), max(0, 9 - len(b))])):
                            add("extb", fmt, atom, t1, str(n), str((0, 0x61, 0xff)[n % 3]))
        # operand-free constructors
        if fmt in SLICEFMT:
            for atom in "NA":
                for b in conts:
                    add("from", fmt, atom, opnd("r", b))
                    if fmt == "utf8":
                        add("fromstr", fmt, atom, opnd("r", b))
    # debug escapes
    for atom in "NA":
        for sh in SHAPES:
            for s in (b"a\"b\\c\n\t\r\x00'", b"\x01\x7f", "\u0080\u009f".encode(), "á".encode(), b"'"):
                add("debug", "utf8", atom, opnd(sh, s))
        for s in (b"", b"x", "\u00e9".encode(), b"1234567", b"12345678", b"0123456789abcdef", UTF8_BOUNDS):
            for n in (0, 5, 255, 123456):
                add("format", "utf8", atom, opnd("r", s), str(n))
    # validation: ill-formed bytes looked at as the stricter formats, from every less strict source
    pre6 = b"abcdef"
    for src in ("bytes", "latin1", "wtf8", "utf8", "ascii"):
        for bad in API2_INVALID:
            for ci, ctx in enumerate((bad, b"a" + bad, bad + b"b", pre6 + bad + b"zzz")):
                if not valid(src, ctx):
                    continue
                for si, sh in enumerate(SHAPES if thorough else SHAPES[ci % 5] + SHAPES[(ci + 2) % 5]):
                    atom = "NA"[(ci + si) % 2]
                    for tgt in FORMATS:
                        if tgt != src:
                            add("reint", src, atom, opnd(sh, ctx), tgt)
                    for tgt in SUBS.get(src, []):
                        add("sub", src, atom, opnd(sh, ctx), tgt)
    # read_to_tendril / TendrilSink::read_from: chunked readers with interruptions and failures
    pat = b"abc"
    stride = 0
    for atom in "NA":
        for L0, sh in ((0, "i"), (3, "i"), (5, "o"), (9, "s"), (20, "x"), (40, "p")):
            init = content("bytes", L0, 2)
            for n in (0, 1, 15, 16, 17, 31, 32, 33, 95, 96, 97, 223, 224, 225, 1000):
                data = bytes(pat[i % 3] for i in range(n))
                for chunks in ("1", "7,1", "16", "32", "1000"):
                    if chunks == "1" and n > 300:
                        continue
                    for intr in (0, 2, 3):
                        for errat in (-1, 0, 5, n, n + 1):
                            stride += 1
                            if not thorough and stride % 4:
                                continue
                            add("read", "bytes", atom, opnd(sh, init), opnd("r", data), chunks, str(intr), str(errat))
            for n, chunks in ((70000, "100000"), (70000, "4096,1"), (200000, "65536"), (200000, "100000,3")):
                data = bytes(pat[i % 3] for i in range(n))
                for errat in (-1, 66000):
                    add("read", "bytes", atom, opnd(sh, init), opnd("r", data), chunks, "0", str(errat))
            for n in (0, 1, 5, 100, 4095, 4096, 4097, 10000):
                data = bytes(pat[i % 3] for i in range(n))
                for chunks in ("5000", "4096", "7,5000", "1"):
                    if chunks == "1" and n > 100:
                        continue
                    for intr in (0, 2):
                        for errat in (-1, 0, 50, n):
                            stride += 1
                            if not thorough and stride % 2:
                                continue
                            add("sink", "bytes", atom, opnd(sh, init), opnd("r", data), chunks, str(intr), str(errat))
            add("extb", "bytes", atom, opnd(sh, init), "70000", "97")
    # seeded random cases
    n = 1500 if not thorough else 60000
    for _ in range(n):
        cases.append((api2_random(rng), "api2-random"))
    return cases


def api2_rand_content(fmt, rng):
    n = rng.choice(API2_LENS) if rng.random() < 0.6 else rng.randint(0, 60)
    if fmt in ("bytes", "latin1") and rng.random() < 0.4:
        return bytes(rng.getrandbits(8) for _ in range(n))
    if fmt == "bytes" and rng.random() < 0.3:
        return content(rng.choice(["utf8", "wtf8", "ascii"]), n, rng.randint(0, 7))
    if fmt == "wtf8" and rng.random() < 0.3:
        b = content("wtf8", n, rng.randint(0, 7)) + rng.choice([b"\xed\xa0\x80", b"\xed\xaf\xbf", b""])
        return b
    return content(fmt, n, rng.randint(0, 7))


def api2_random(rng):
    fmt = rng.choice(FORMATS)
    atom = rng.choice("NA")
    ops = list(API2_ANY) + ["super", "sub"]
    if fmt in SLICEFMT:
        ops += list(API2_SLICE)
    if fmt in ("ascii", "utf8"):
        ops.append("eqstr")
    if fmt == "utf8":
        ops += list(API2_UTF8)
    if fmt == "bytes":
        ops += list(API2_BYTES)
    op = rng.choice(ops)

    def t():
        return opnd(rng.choice(SHAPES), api2_rand_content(fmt, rng))

    def r(f=None):
        return opnd("r", api2_rand_content(f or fmt, rng))

    if op in ("bytes", "send", "debug", "display", "tostring"):
        a = [t()]
    elif op == "reint":
        a = [t(), rng.choice(FORMATS)]
    elif op in ("super", "sub"):
        tg = (SUPERS if op == "super" else SUBS).get(fmt)
        if not tg:
            op, a = "bytes", [t()]
        else:
            a = [t(), rng.choice(tg)]
    elif op in ("eq", "cmp"):
        b = api2_rand_content(fmt, rng)
        v = rng.choice(api2_variants(fmt, b))
        a = [opnd(rng.choice(SHAPES), b), opnd(rng.choice(SHAPES), v)]
    elif op == "eqstr":
        b = api2_rand_content(fmt, rng)
        a = [opnd(rng.choice(SHAPES), b), opnd("r", rng.choice([v for v in api2_variants(fmt, b) if valid("utf8", v)]))]
    elif op == "borrow":
        b = api2_rand_content(fmt, rng)
        a = [opnd(rng.choice(SHAPES), b), opnd("r", rng.choice(api2_variants(fmt, b)))]
    elif op == "extt":
        a = [t() for _ in range(rng.randint(1, 5))]
    elif op == "exts":
        a = [t()] + [r() for _ in range(rng.randint(0, 4))]
    elif op in ("from", "fromstr"):
        a = [r()]
    elif op == "wstr":
        a = [t(), r(), str(rng.choice([0, 9, 10, 999, 1000, 4294967296]))]
    elif op == "format":
        a = [r(), str(rng.choice([0, 9, 255, 65536, 4294967296]))]
    elif op in ("extc", "extu8"):
        a = [t(), r()]
    elif op == "iowrite":
        a = [t(), r(), r()]
    elif op == "extb":
        a = [t(), str(rng.choice([0, 1, 7, 8, 9, 16, 17, 100, 601, 5000])), str(rng.getrandbits(8))]
    else:  # read, sink
        n = rng.choice([0, 1, 31, 32, 33, 100, 500, 4096, 5000, 9000])
        data = bytes(rng.getrandbits(8) for _ in range(n)) if n <= 500 else bytes(b"xyz"[i % 3] for i in range(n))
        if op == "sink":
            chunks = ",".join(str(rng.choice([64, 1000, 4096, 5000])) for _ in range(rng.randint(1, 3)))
        else:
            chunks = ",".join(str(rng.choice([1, 2, 7, 16, 31, 32, 33, 64, 1000, 5000])) for _ in range(rng.randint(1, 3)))
            if "1" in chunks.split(",") and n > 500:
                chunks = "64"
        a = [t(), opnd("r", data), chunks, str(rng.choice([0, 0, 2, 3, 5])),
             str(rng.choice([-1, -1, 0, n // 2, n, n + 1]))]
    return "tendril2\t%s\t%s\t%s\t%s" % (op, fmt, atom, "\t".join(a))
