"""C17 — XML serializer output re-parses to the same namespaced tree."""
import itertools

from props import xmlcommon as X

PROP = "C17"
ENGINE = "xmlser"
LEAN_TARGETS = ["H5V.Props.C17", "H5V.Props.C17RT", "H5V.Props.C17Shape"]
AUDIT_IMPORTS = ["H5V.Props.C17Shape"]
THEOREMS = ["H5V.Props.C17." + t for t in [
    "C17_unescape_escape", "C17_escape_delimiters", "C17_text_roundtrip_partial", "C17_attr_roundtrip_partial",
    "C17_witness_cr", "C17_roundtrip_partial", "C17_witness_attr_prefix", "C17_witness_default_undeclared",
    "C17_witness_sibling_leak", "C17_witness_item14", "C17_witness_uri_unescaped", "C17_fixed_examples",
    "C17_okEvs_fixed", "C17_roundtrip_fixed",
    # with the XML tokenizer model in the loop (Props/C17RT.lean): no abstract lexer left; hypothesis nodesLex + witnesses
    "C17_tok_events", "C17_roundtrip_tok", "C17_roundtrip_tok_one_piece", "checkParse_sound", "checkRT_sound",
    "C17_witness_lexical", "C17_witness_attr_leading_colon", "C17_witness_prefix_eq", "C17_witness_pi_blank",
    "C17_side_finding_stale_attr_value", "C17_chars_split_main", "render_starts_lt",
    # every document the parser models build is in the class of the round-trip theorems (Props/C17Shape.lean), the class
    # widened to treesOKW; tokens outside the lexical class are exactly the Corner tokens
    "C17_okEvs_fixedW", "C17_roundtrip_fixedW", "C17_roundtrip_tokW", "C17_witness_class_gap", "C17_parsed_shape",
    "tokShape_of_source", "C17_roundtrip_noroot", "C17_roundtrip_parsed", "C17_roundtrip_parsed_source", "C17_tok_always",
    "C17_tok_lex_or_corner", "C17_parsed_lex", "C17_roundtrip_tok_noroot", "C17_roundtrip_source", "C17_roundtrip_source_eval",
    "C17_known_corners", "C17_witness_attr_prefix_eq"]]
TRUSTED = [
    "Lean 4 kernel; axioms ⊆ {propext, Classical.choice, Quot.sound} (audited per run)",
    "hand-written model lean/H5V/Model/XmlSer.lean of xml5ever/src/serialize/mod.rs + rcdom's Serialize impl, tied "
    "by the `xmlser` correspondence (harness/src/engines/xmlser.rs vs h5vdriver): serialized text compared byte for byte",
    "`lexEv` (lean/H5V/Model/XmlSer.lean): the ASSUMED tokenization of serializer output (names split at the "
    "colon, the five references decoded, CR/CRLF→LF in character data, declarations and attributes through the "
    "tokenizer's attribute step) — not proved against a tokenizer model (xmltok package); validated on every case "
    "of this run: model re-parse (tree-builder model on lexEv tokens) = real re-parse of the real bytes",
    "lean/H5V/Model/XmlTB.lean (tree-builder model, see C16)",
]
ASSUMPTIONS = [
    "trees reachable by parsing are characterised by document shape (misc* root misc*), `nodesOK` (no doctype / empty / "
    "adjacent text inside elements) and `treesOK` (lean/H5V/Lemmas/XmlSerFixed.lean: names re-split to themselves, "
    "xml/xmlns prefixes with their fixed URIs, no declaration attributes, unprefixed attributes in no namespace, "
    "distinct attribute names and expanded names, one URI per prefix within a tag); that every tree the tree-builder "
    "model produces satisfies them is argued from the C16 theorems and tested, not proved as one theorem; "
    "comment / PI / doctype content is assumed to lex back to itself",
    "doctype public/system ids are outside the serializer API and ignored by the comparison",
]
RULE = ("xmlser cases: (tree p) RcDom trees built node by node from structurally generated, parsed-by-construction "
        "documents (namespaces computed by the independent resolver of tools/props/xmlcommon.py) → real serialize → "
        "real re-parse, oracle: re-parsed tree = tree (doctype ids ignored); (src) the same documents as XML text → "
        "real parse → serialize → re-parse, oracle: second tree = first tree; (tree n) arbitrary trees (names no parser "
        "produces, empty/adjacent text, …) for the correspondence only. Families: cover = all 2-level nestings over "
        "(element prefix × declaration set × attribute set) with a following sibling and a nested child re-using the "
        "bindings, 3-level reduced alphabet; cover-text = every text / attribute value over an alphabet of "
        "escaping-relevant characters up to length 3 (incl. CR, CRLF, quotes, & < >); cover-uri = namespace URIs with "
        "quote / & / < (compare on bytes only); random = seeded random documents. non-trivial = serialized text "
        "contains a tag; distinct = distinct (case, output)")
EXPLANATION = ("model configuration SerCfg.current = fixed (= /repo since commits eeda1d4, 4808426), pre-fix behaviour kept "
               "as SerCfg.code with decided witnesses; the serializer model (namespace stack, declarations, escaping) is run against the tree-builder model; "
               "theorems: escaping is reversible; C17_roundtrip_fixed: the round trip holds for the fixed serializer on every "
               "parsed-shape tree (C17_okEvs_fixed: every prefix of every tag is declared); C17_roundtrip_partial for any "
               "configuration under the decidable check okEvs; witnesses for every pre-fix defect")

U, V, W = "urn:u", "urn:v", "urn:w"

DECLS = [
    [],
    [("xmlns", U)],
    [("xmlns", "")],
    [("xmlns:p", U)],
    [("xmlns:p", V)],
    [("xmlns:p", "")],
    [("xmlns", V), ("xmlns:p", U), ("xmlns:q", U)],
    [("xmlns:q", W), ("xmlns", "")],
]
ATTRS = [
    [],
    [("x", "1")],
    [("p:x", "2")],
    [("x", "1"), ("q:y", "3"), ("xml:lang", "en")],
]
PREFIXES = [None, "p", "q"]


# ---------------------------------------------------------------- structural documents
# spec node: ("el", rawname, [(rawattr, value)...], [children]) | ("t", s) | ("c", s) | ("p", target, data) | ("d", name)

def to_tree(env, spec):
    """parsed-by-construction tree of a spec node (namespaces by the reference resolver)"""
    k = spec[0]
    if k == "el":
        name = X.split_qname(spec[1])
        attrs = [(X.split_qname(n), v) for n, v in spec[2]]
        frame, en, ras = X.resolve_tag(env, name, attrs)
        out = []
        seen = set()
        for an, v, isdecl in ras:
            if isdecl:
                continue
            key = (an[1], an[2])
            if key in seen:
                continue
            seen.add(key)
            out.append((an, v))
        kids = []
        for c in spec[3]:
            t = to_tree([frame] + env, c)
            if not isinstance(t, X.Elem) and t[0] == "t" and kids and not isinstance(kids[-1], X.Elem) and kids[-1][0] == "t":
                kids[-1] = ("t", kids[-1][1] + t[1])
            else:
                kids.append(t)
        return X.Elem(en[0], en[1], en[2], out, kids)
    if k == "d":
        return ("d", spec[1], "", "")
    return spec


def to_source(spec):
    k = spec[0]
    if k == "el":
        s = "<" + spec[1] + "".join(' %s="%s"' % (n, X.esc_attr(v)) for n, v in spec[2]) + ">"
        return s + "".join(to_source(c) for c in spec[3]) + "</" + spec[1] + ">"
    if k == "t":
        return X.esc_text(spec[1]).replace("\r", "&#13;")
    if k == "c":
        return "<!--%s-->" % spec[1]
    if k == "p":
        return "<?%s %s?>" % (spec[1], spec[2])
    if k == "d":
        return "<!DOCTYPE %s>" % spec[1]
    raise ValueError(k)


def doc_cases(doc, tag, cases, src=True):
    tree = [to_tree([], n) for n in doc]
    # the parser appends at most one doctype (/repo commit b61995b): a tree with two is not parser-produced
    flag = "p" if sum(1 for n in doc if n[0] == "d") <= 1 else "n"
    cases.append(("xmlser\ttree\t%s\t%s" % (X.dump_nodes(tree) or "-", flag), tag))
    if src:
        text = "".join(to_source(n) for n in doc).replace("\r", "&#13;")
        cases.append(("xmlser\tsrc\t%s" % X.hx(text), tag + "-src"))


def nm(prefix, local):
    return local if prefix is None else prefix + ":" + local


def gen_cover(cases):
    full = [(p, d, a) for p in PREFIXES for d in DECLS for a in ATTRS]
    small = [(p, d, a) for p in (None, "p") for d in DECLS[:6] for a in (ATTRS[0], ATTRS[2])]

    def el(local, spec, kids):
        p, d, a = spec
        return ("el", nm(p, local), list(d) + list(a), kids)

    for l1 in full:
        for l2 in full:
            inner = el("c", (l2[0], [], []), [])            # child re-using the binding of l2
            sib = el("s", (l2[0], l2[1], []), [])            # following sibling needing the same declaration
            doc = [el("a", l1, [el("b", l2, [inner]), sib, ("t", "x")])]
            doc_cases(doc, "cover", cases, src=(l1[2] != ATTRS[3]))
    for l1 in small:
        for l2 in small:
            for l3 in small:
                doc = [el("a", l1, [el("b", l2, [el("c", l3, [])]), el("d", (l3[0], [], l3[2]), [])])]
                doc_cases(doc, "cover3", cases, src=False)


TEXT_ALPHA = ["a", "&", "<", ">", '"', "'", "\r", "\n", " ", "\t", ";", "#", "é"]
# characters beyond U+00FF whose LOW BYTE is the code of a character the serializer escapes (& < > " ' CR LF TAB) or NUL
LOWBYTE_ALPHA = ["\u2026", "\u0126", "\u203c", "\u013c", "\u203e", "\u013e", "\u2022", "\u0122", "\u2027", "\u0127",
                 "\u010d", "\u200d", "\u010a", "\u0109", "\u0100", "\U0001f626", "\U0001f600", "\uff06", "\u263c"]


def gen_cover_text(cases):
    for n in (1, 2, 3):
        for tup in itertools.product(TEXT_ALPHA, repeat=n):
            s = "".join(tup)
            if n == 3 and not any(c in "&<>\"'\r\n" for c in tup):
                continue
            tree = [X.Elem(None, "", "a", [((None, "", "v"), s)], [("t", s)])]
            cases.append(("xmlser\ttree\t%s\tp" % X.dump_nodes(tree), "cover-text"))
    for c in LOWBYTE_ALPHA:
        for s in (c, "a" + c + "b", c + c, "&" + c, c + "<"):
            tree = [X.Elem(None, "", "a", [((None, "", "v"), s)], [("t", s)])]
            cases.append(("xmlser\ttree\t%s\tp" % X.dump_nodes(tree), "cover-text"))
        tree = [X.Elem("p", "urn:" + c, "a", [(("p", "urn:" + c, "v"), c)], [("c", c), ("t", c)])]
        cases.append(("xmlser\ttree\t%s\tp" % X.dump_nodes(tree), "cover-text"))
    # references spelled out in the data
    for s in ["&amp;", "&lt;x", "a&#13;b", "&quot;", "&#x26;", "&&", "]]>", "&amp;amp;"]:
        tree = [X.Elem(None, "", "a", [((None, "", "v"), s)], [("t", s)])]
        cases.append(("xmlser\ttree\t%s\tp" % X.dump_nodes(tree), "cover-text"))


def gen_cover_misc(cases):
    # document level: doctype / comments / PIs around the root, no root, text-free
    docs = [
        [],
        [("c", "x")],
        [("d", "a"), ("el", "a", [], [])],
        [("d", "a"), ("d", "b"), ("c", "1"), ("p", "t", "d"), ("el", "a", [], [("c", "in"), ("p", "t", "")]), ("c", "2"), ("p", "u", "v")],
        [("el", "script", [("xmlns", U)], [("el", "script", [], [])])],
        [("el", "xml:a", [], [("el", "xmlns:b", [], [])])],
        [("el", "r:a", [("r:x", "1")], [("el", "r:b", [], [])])],
        [("el", "a", [("xmlns:p", X.XML_URI), ("p:x", "1")], [])],
        # attributes that merely look like declarations (local name xmlns under another prefix) are ordinary attributes
        [("el", "a", [("xmlns:a", U), ("a:xmlns", "v")], [("el", "b", [("a:xmlns", "w"), ("x", "1")], [])])],
        [("el", "a", [("xml:xmlns", "v"), ("xmlnsx", "1")], [])],
        [("el", "a", [("p:xmlns", "v")], [("el", "a:xmlns", [], [])])],
        # three levels on one prefix / the default namespace: A, then B (or undeclared), then A again
        [("el", "p:a", [("xmlns:p", U)], [("el", "p:b", [("xmlns:p", V)], [("el", "p:c", [("xmlns:p", U), ("p:x", "1")], [])])])],
        [("el", "a", [("xmlns", U)], [("el", "b", [("xmlns", "")], [("el", "c", [("xmlns", U)], [("el", "d", [], [])])])])],
        [("el", "a", [("xmlns", U)], [("el", "b", [("xmlns", V)], [("el", "c", [("xmlns", U)], [])])])],
    ]
    for d in docs:
        doc_cases(d, "cover-misc", cases)
    # arbitrary trees no parser produces: correspondence only (flag n)
    E = X.Elem
    weird = [
        [E(None, "", "a", [], [("t", ""), ("t", "x"), ("t", "y")])],
        [E(None, "", "a", [((None, U, "x"), "1")], [])],
        [E("p", U, "a", [(("p", V, "x"), "1")], [E("p", V, "b", [], [])])],
        [E(None, U, "a", [], []), E(None, V, "b", [], [])],
        [("t", "top"), E("", "", "a", [], [])],
        [E("p", "", "a", [], [E("p", U, "b", [], [E("p", "", "c", [], [])])])],
        [E("xml", U, "a", [(("xmlns", V, "p"), "1")], [])],
        [E(None, "", "a", [((None, "", "xmlns"), U)], [E(None, "", "b", [], [])])],
    ]
    for t in weird:
        cases.append(("xmlser\ttree\t%s\tn" % X.dump_nodes(t), "cover-nonparsed"))


def gen_cover_uri(cases):
    for uri in ['x"y', "x&y", "x<y", "x>y", "x'y", "a b", "x\ty", "x&amp;y", "x\ry"]:
        for shape in (0, 1):
            if shape == 0:
                tree = [X.Elem(None, uri, "a", [], [])]
            else:
                tree = [X.Elem("p", uri, "a", [(("p", uri, "x"), "1")], [])]
            cases.append(("xmlser\ttree\t%s\tp" % X.dump_nodes(tree), "cover-uri"))


def rand_spec(rng, depth):
    r = rng.random()
    if depth > 0 and r < 0.55:
        p = rng.choice([None, None, "p", "q", "r", "xml"])
        attrs = []
        for _ in range(rng.choice([0, 0, 1, 1, 2, 3])):
            x = rng.random()
            if x < 0.5:
                pre = rng.choice(["", "", ":p", ":q", ":r"])
                attrs.append(("xmlns" + pre, rng.choice([U, V, W, "", ""])))
            else:
                ap = rng.choice([None, None, "p", "q", "r", "xml"])
                attrs.append((nm(ap, rng.choice(["x", "y", "p"])), rng.choice(["1", "a&b", "\"q'", "", "<>"])))
        # no two attributes with one raw name
        seen = set()
        attrs = [a for a in attrs if not (a[0] in seen or seen.add(a[0]))]
        kids = []
        for _ in range(rng.choice([0, 1, 1, 2, 3])):
            k = rand_spec(rng, depth - 1)
            if k[0] == "t" and kids and kids[-1][0] == "t":
                continue
            kids.append(k)
        return ("el", nm(p, rng.choice(["a", "b", "script"])), attrs, kids)
    if r < 0.8:
        return ("t", rng.choice(["x", " ", "a&b", "<y>", "l1\nl2", "q\"'", "é"]))
    if r < 0.9:
        return ("c", rng.choice(["c", "", " - "]))
    return ("p", rng.choice(["pi", "x"]), rng.choice(["d", "", "a b"]))


def gen_random(cases, rng, n):
    for _ in range(n):
        root = rand_spec(rng, 4)
        while root[0] != "el":
            root = rand_spec(rng, 4)
        doc = [root]
        if rng.random() < 0.2:
            doc.insert(0, ("d", "a"))
        if rng.random() < 0.2:
            doc.append(("c", "end"))
        doc_cases(doc, "random", cases)


# names the error-tolerant XML5 tokenizer accepts but no serialization can spell (known findings C17-lex-*): an
# attribute name that starts with ':' (only reachable after a value-less attribute), a name containing '=', processing-
# instruction data that starts with a blank (reachable through a '?' not followed by '>'); plus controls that round-trip
LEX_SRC = ["<r a :b='1'/>", "<r a  :b/>", "<r x='1' a :b='2' :c='3'/>", "<=a:b/>", "<r><=p:x y='1'/></r>", "<a=b:c/>",
           "<?t? x?><r/>", "<r><?t? x?></r>", "<?t?  y z?><r/>",
           # controls (round-trip today)
           "<r a b:='2' :c/>", "<a:/>", "<r a:='1'/>", "<?t?x?><r/>", "<?t ?x?><r/>", "<r x =y/>", "<r><a/ b='1'/></r>",
           "<r><t/x><s a='1'/></r>", "<r :a='1'/>", "<r a='1':b='2'/>"]


def gen_lex_src(cases):
    for t in LEX_SRC:
        cases.append(("xmlser\tsrc\t%s" % X.hx(t), "lex-src"))
        cases.append(("xmlser\tsrc\t%s" % "|".join(X.hx(c) for c in t), "lex-src"))


def gen_cases(tier, rng):
    cases = []
    gen_lex_src(cases)
    gen_cover_misc(cases)
    gen_cover_uri(cases)
    gen_cover_text(cases)
    gen_cover(cases)
    gen_random(cases, rng, 3000 if tier == "quick" else 300000)
    return cases


# ---------------------------------------------------------------- oracle

def strip_ids(nodes):
    out = []
    for n in nodes:
        if isinstance(n, X.Elem):
            out.append(X.Elem(n.prefix, n.ns, n.local, n.attrs, strip_ids(n.kids)))
        elif n[0] == "d":
            out.append(("d", n[1], "", ""))
        else:
            out.append(n)
    return out


def keyed(nodes):
    return tuple(n.key() if isinstance(n, X.Elem) else n for n in nodes)


FAM_ATTR = "[item 15a] a prefix used only by an attribute is never declared (start_elem registers attribute names after the declarations were written) — "
FAM_DEFAULT = "[item 15b] un-declaration of the default namespace (xmlns=\"\") is never emitted — "
FAM_SIBLING = "[item 15d] end_elem registers the closed element's binding in the PARENT's map: a following sibling gets no declaration — "
FAM_CR = "[item 15c] U+000D is written raw and comes back as U+000A (or is lost after a reference) — "
FAM_URI = "[item 15e] namespace URI written unescaped — "
FAM_ITEM14 = "[item 14] the re-parse drops an attribute whose raw name equals the local part of an earlier attribute or declaration — "
FAM_OTHER = "[round trip] "


def walk(nodes, anc=()):
    for n in nodes:
        if isinstance(n, X.Elem):
            yield n, anc
            for x in walk(n.kids, anc + (n,)):
                yield x


def all_text(nodes):
    for n in nodes:
        if isinstance(n, X.Elem):
            for _, v in n.attrs:
                yield v, True
            for x in all_text(n.kids):
                yield x
        elif n[0] == "t":
            yield n[1], False


FAM_LEX_COLON = "[lex-colon] an attribute whose name starts with ':' (tag-attribute-name-after state accepts it, tag-attribute-name-before drops the colon on re-parse) — "
FAM_LEX_EQ = "[lex-eq] a name containing '=' cannot be written as an attribute / declaration name — "
FAM_LEX_PI = "[lex-pi] processing-instruction data starting with white space is read back without it — "


def family(tree):
    for e, anc in walk(tree):
        names = [(e.prefix, e.ns, e.local)] + [an for an, _ in e.attrs]
        if any("=" in (p or "") or "=" in l for p, ns, l in names):
            return FAM_LEX_EQ
        if any(an[2].startswith(":") for an, _ in e.attrs):
            return FAM_LEX_COLON

    def pis(nodes):
        for n in nodes:
            if isinstance(n, X.Elem):
                yield from pis(n.kids)
            elif n[0] == "p":
                yield n
    if any(n[2][:1] in (" ", "\t", "\n") for n in pis(tree)):
        return FAM_LEX_PI
    if any("\r" in s for s, isattr in all_text(tree)):
        return FAM_CR
    for e, anc in walk(tree):
        if any(c in e.ns for c in "\"&<\r") or any(any(c in an[1] for c in "\"&<\r") for an, _ in e.attrs):
            return FAM_URI
    for e, anc in walk(tree):
        # item 14: an unprefixed attribute named like a prefix that gets declared on this tag, or like the local
        # part of an earlier prefixed attribute
        locs = []
        decl_pref = [e.prefix] + [an[0] for an, _ in e.attrs if an[0] is not None]
        for an, _ in e.attrs:
            if an[0] is None and (an[2] in locs or an[2] in decl_pref):
                return FAM_ITEM14
            locs.append(an[2])
    for e, anc in walk(tree):
        if e.prefix is None and e.ns == "" and any(a.prefix is None and a.ns != "" for a in anc):
            return FAM_DEFAULT
    for e, anc in walk(tree):
        for an, _ in e.attrs:
            if an[0] is not None and an[0] != "xml":
                chain = (e,) + tuple(reversed(anc))
                bound = [a for a in chain if a.prefix == an[0]]
                if not bound or bound[0].ns != an[1]:
                    return FAM_ATTR
    return FAM_SIBLING


def oracle(line, out):
    if out is None or out.startswith("PANIC") or out.startswith("ABORT"):
        return "implementation crashed: %s" % out
    if out.startswith("bad-") or out.startswith("io-"):
        return "harness rejected the case: %s" % out
    f = line.split("\t")
    o = X.parse_out(out)
    if "tree" not in o or "ser" not in o or (f[1] == "src" and "in" not in o):
        return "malformed harness output: %s" % out[:200]
    if f[1] == "tree":
        if len(f) > 3 and f[3] == "n":
            return None
        tree = X.parse_dump(f[2])
    else:
        tree = X.parse_dump(o["in"])
    re = X.parse_dump(o["tree"])
    if keyed(strip_ids(tree)) != keyed(strip_ids(re)):
        return family(tree) + "re-parsed tree %s differs from %s (serialized: %r)" % (
            pretty(re), pretty(tree), X.undh(o["ser"]))
    return None


def pretty(nodes):
    out = []
    for n in nodes:
        if isinstance(n, X.Elem):
            a = "".join(" %s=%r" % (X.show_name(an), v) for an, v in n.attrs)
            out.append("<%s%s>%s</>" % (X.show_name((n.prefix, n.ns, n.local)), a, pretty(n.kids)))
        elif n[0] == "t":
            out.append(repr(n[1]))
        elif n[0] == "c":
            out.append("<!--%s-->" % n[1])
        elif n[0] == "p":
            out.append("<?%s %s?>" % (n[1], n[2]))
        else:
            out.append("<!DOCTYPE %s>" % n[1])
    return "".join(out)


def nontrivial(line, out):
    return out is not None and "ser=3c" in out


NAME_OK = set("abcdefghijklmnopqrstuvwxyz0123456789")


def lex_safe(line):
    """may the model's assumed lexing be compared with the real re-parse?  Not when a namespace URI contains
    characters the tokenizer treats specially in a way `lexEv` does not model (whitespace, `&`, `<`, quotes — since
    the fix they are escaped, but named-reference decoding of e.g. `&amp;amp;` is the tokenizer's business), when a
    name is not a plain name, or when there is text outside the root"""
    f = line.split("\t")
    if f[1] != "tree":
        return False
    tree = X.parse_dump(f[2])
    if any(not isinstance(n, X.Elem) and n[0] == "t" for n in tree):
        return False
    for e, _ in walk(tree):
        for p, ns, l in [(e.prefix, e.ns, e.local)] + [an for an, _ in e.attrs]:
            if any(c in ns for c in "\"&<\r\n\t "):
                return False
            if not l or not set(l) <= NAME_OK or (p is not None and (not p or not set(p) <= NAME_OK)):
                return False
    return True


def compare(line, a, b):
    if b == "no-model":
        return True
    if a is None or b is None:
        return a == b
    if a == b:
        return True
    if not lex_safe(line):
        return a.split(";")[0] == b.split(";")[0]
    return False


def _detail_starts(prefix):
    return lambda f: (f.detail or "").startswith(prefix)


# ids the main session may enter into known_findings.json (kind "known") until the fixes land
KNOWN_MATCHERS = {
    "F15a-attr-prefix": _detail_starts("[item 15a]"),
    "F15b-default-undecl": _detail_starts("[item 15b]"),
    "F15c-cr": _detail_starts("[item 15c]"),
    "F15d-sibling-leak": _detail_starts("[item 15d]"),
    "F15e-uri-escape": _detail_starts("[item 15e]"),
    "F14-reparse": _detail_starts("[item 14]"),
    "C17-lex-colon": _detail_starts("[lex-colon]"),
    "C17-lex-eq": _detail_starts("[lex-eq]"),
    "C17-lex-pi": _detail_starts("[lex-pi]"),
}
