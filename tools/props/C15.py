"""C15 — XML5 parse result is independent of chunking and diagnostic options."""
import re

PROP = "C15"
ENGINE = "xmltok"
USES_TRANSLATOR = True
LEAN_TARGETS = ["H5V.Props.C15", "H5V.Props.C15Run", "H5V.Props.C15Clean", "H5V.Props.C15Tree", "H5V.Props.C15Joint"]
AUDIT_IMPORTS = ["H5V.Props.C15Run", "H5V.Props.C15Clean", "H5V.Props.C15Tree", "H5V.Props.C15Joint"]
THEOREMS = ["H5V.Props.C15." + t for t in [
    "xmlTokSets_match", "C15_sets_cover", "C15_fast_eq_slow",
    "C15_step_mono", "C15_step_resume", "C15_step_good", "C15_step_sim",
    "C15_chunking", "C15_chunking_tokens", "C15_feedAll", "C15_finish_sim", "C15_bom_once",
    "run_done_runsTo", "runsTo_run_done", "feedAll_session", "good_initial",
    # whole-run independence of exact_errors (Props/C15Run.lean)
    "E_iff", "C15_step_optE", "C15_run_optE", "C15_feed_optE", "C15_finish_optE", "C15_session_optE",
    "C15_exact_errors_tokens", "C15_exact_errors_on_off",
    # no raw CR / NUL reaches the sink (Props/C15Clean.lean)
    "C15_preprocessed", "C15_get_char_clean", "C15_fast_path_clean", "C15_ref_no_nul", "C15_initial_clean", "C15_step_clean",
    "C15_run_clean", "C15_feed_clean", "C15_finish_clean", "C15_session_clean", "C15_no_raw_cr_nul", "C15_clean_no_refs",
    "C15_step_provenance", "C15_ref_can_deliver_cr",
    # the XML tree-builder model is insensitive to how text is cut into character tokens (Props/C15Tree.lean)
    "C15_tb_char_split", "C15_tb_sim_step", "C15_tb_errors_write_only", "C15_tree_resplit", "C15_tree_obs",
    "C15_tree_same_document", "C15_resplit_of_merge_eq", "C15_tree_merge_obs", "C15_tree_error_count_depends_on_cut",
    # END TO END (Props/C15Joint.lean): the joint parse tokenizer model -> tree-builder model (`xmlParseChunks`, executed by
    # the driver as `xmltok jtree` against the real parse_document) is independent of chunking and of exact_errors
    "C15_joint_tokens_chunk_independence", "C15_joint_chunk_independence_state", "C15_joint_chunk_independence",
    "C15_joint_total", "C15_joint_tokens_exact_errors", "C15_joint_exact_errors_state", "C15_joint_exact_errors",
    "C15_joint_exact_errors_on_off", "C15_joint_end_to_end_state", "C15_joint_end_to_end", "C15_joint_any_two",
    "C15_joint_run_boundaries", "C15_joint_canon_obs", "xj_driverFeed_ok", "xj_feedChunks_ok",
]] + ["H5V.Model.XmlTok." + t for t in [
    "step_mono", "step_resume", "step_good", "step_sim", "runsTo_chunk", "session_flatten", "step_discardBom",
    "setOf_cover", "transSet_dead",
]]
TRUSTED = [
    "Lean 4 kernel; axioms ⊆ {propext, Classical.choice, Quot.sound} (audited per run)",
    "hand-written model lean/H5V/Model/XmlTok.lean of xml5ever/src/tokenizer/{mod.rs,char_ref/mod.rs,qname.rs}, tied by the "
    "`xmltok tok` correspondence (token stream incl. parse-error messages, every state startable through "
    "XmlTokenizerOpts.initial_state) on the cases of this run",
    "bulk reads (NotFromSet runs) are modelled one character at a time; tokens are compared after merging adjacent "
    "character tokens; BufferQueue = flat stream by C13",
    "tools/extract.py (regenerates H5V.Gen.XmlTokSets from the small_char_set! invocations each run)",
    "tree level (tokenizer + XmlTreeBuilder + RcDom): code-vs-code oracles only (`xmltok tree`), no model here",
]
ASSUMPTIONS = [
    "the sink answers ProcessResult::Continue to every token (recording sink / XmlTreeBuilder)",
]
RULE = ("families: state-cover (every XmlState × character class (+EOF) × suffix), kw-cover (look-ahead keywords), "
        "pair-cover (every state × ordered pairs over a reduced alphabet), charref-cover (reference forms × terminators × "
        "contexts), soup (grammar-directed random XML with mutations). Each base case also runs as: every 2-partition / "
        "all singletons / random partitions (chunk independence, tokens and tree), exact_errors on (equality modulo error "
        "tokens), CR and CRLF spellings of every LF (equal to the LF spelling), NUL→U+FFFD twin, U+FEFF with discard_bom "
        "on/off. non-trivial = more than EOF was emitted; distinct = distinct (case, output)")
EXPLANATION = ("theorems: chunk independence of feed/end for all strings and all chunkings (C15_chunking, C15_finish_sim), BOM "
               "once, fast path = slow path under the proved side condition on the sets; model = code on exhaustive "
               "single-transition covers; exact_errors independence of the whole token stream incl. end() (C15_exact_errors_tokens); "
               "CR/NUL uniformity and the tree level are checked code-vs-code")

IDS = ["Public", "System"]
AVK = ["Unquoted", "SingleQuoted", "DoubleQuoted"]
STATES = (["Data", "TagState", "EndTagState", "EndTagName", "EndTagNameAfter", "Pi", "PiTarget", "PiTargetAfter", "PiData",
           "PiAfter", "MarkupDecl", "CommentStart", "CommentStartDash", "Comment", "CommentLessThan",
           "CommentLessThanBang", "CommentLessThanBangDash", "CommentLessThanBangDashDash", "CommentEnd",
           "CommentEndDash", "CommentEndBang", "Cdata", "CdataBracket", "CdataEnd", "TagName", "TagEmpty",
           "TagAttrNameBefore", "TagAttrName", "TagAttrNameAfter", "TagAttrValueBefore"]
          + ["TagAttrValue(%s)" % k for k in AVK]
          + ["Doctype", "BeforeDoctypeName", "DoctypeName", "AfterDoctypeName"]
          + ["AfterDoctypeKeyword(%s)" % k for k in IDS] + ["BeforeDoctypeIdentifier(%s)" % k for k in IDS]
          + ["DoctypeIdentifierDoubleQuoted(%s)" % k for k in IDS]
          + ["DoctypeIdentifierSingleQuoted(%s)" % k for k in IDS]
          + ["AfterDoctypeIdentifier(%s)" % k for k in IDS]
          + ["BetweenDoctypePublicAndSystemIdentifiers", "BogusDoctype", "BogusComment"])
assert len(STATES) == 50, len(STATES)

CHARS = ["\t", "\n", "\x0c", " ", "\r", "!", '"', "#", "&", "'", "-", "/", ":", "<", "=", ">", "?", "]", ";", "[",
         "0", "9", "a", "z", "A", "Z", "x", "X", "p", "P", "s", "D", "d", "\0", "﻿", "é", "\U0001F600",
         "\x01", "\x0b", "￾", "\x7f", "\x80", "﷐"]
SMALL = ["\n", "\r", " ", "!", '"', "&", "'", "-", "/", ":", "<", "=", ">", "?", "a", "A", "\0", ";", "#", "]"]
SUFFIXES = ["", "x", ">", " a='b'>z", "-->z", "?>z", "]]>z", "\nq", "\r\nq"]


def hx(s):
    return " ".join("%x" % ord(c) for c in s) if s else "-"


def unhx(s):
    s = s.strip()
    return "" if s in ("-", "") else "".join(chr(int(x, 16)) for x in s.split(" "))


def case(chunks, exact=0, bom=1, state="-"):
    return "\t".join(["xmltok", "tok", "exact=%d,bom=%d" % (exact, bom), state, "|".join(hx(c) for c in chunks)])


def tree_case(chunks, exact=0, bom=1):
    return "\t".join(["xmltok", "tree", "exact=%d,bom=%d" % (exact, bom), "|".join(hx(c) for c in chunks)])


def joint_case(chunks, exact=0, bom=1):
    return "\t".join(["xmltok", "jtree", "exact=%d,bom=%d" % (exact, bom), "|".join(hx(c) for c in chunks)])


def parse_case(line):
    f = line.split("\t")
    o = dict(p.split("=") for p in f[2].split(","))
    if f[1] == "jtree":
        return {"mode": "jtree", "exact": int(o["exact"]), "bom": int(o["bom"]), "state": "-",
                "chunks": [unhx(c) for c in f[3].split("|")]}
    if f[1] == "tok":
        return {"mode": "tok", "exact": int(o["exact"]), "bom": int(o["bom"]), "state": f[3],
                "chunks": [unhx(c) for c in f[4].split("|")]}
    return {"mode": "tree", "exact": int(o["exact"]), "bom": int(o["bom"]), "state": "-",
            "chunks": [unhx(c) for c in f[3].split("|")]}


def state_cover():
    out = []
    for st in STATES:
        out.append(("", st))
        for c in CHARS:
            for suf in SUFFIXES:
                out.append((c + suf, st))
    for st, kws in (("MarkupDecl", ["--", "-", "DOCTYPE", "doctype", "DocType", "DOCTYP", "[CDATA[", "[CDATA", "[cdata[", "[", "-x",
                                    "\n--", "\r--"]),
                    ("AfterDoctypeName", ["public", "PUBLIC", "publi", "system", "SyStEm", "syste", "\rpublic",
                                          "\r\nsystem", "\npublic", "\n\npublic", "\r\rsystem", "p", "s", "\nsystem"]),
                    ("DoctypeName", ["a\rpublic", "a\r\npublic", "a\npublic", "a\r\nsystem", "a\r\n\npublic", "a\r"])):
        for kw in kws:
            for suf in ["", "x", ">", " 'a'>", " \"b\" 'c'>z", "]]>z", "-->"]:
                out.append((kw + suf, st))
    return out


def pair_cover():
    out = []
    for st in STATES:
        for a in SMALL:
            for b in SMALL:
                out.append((a + b + ">", st))
    return out


REFS = ["&", "&amp;", "&amp", "&lt;", "&lt", "&notit;", "&notin;", "&noti", "&not", "&not=", "&nota", "&#65;", "&#65", "&#x41;",
        "&#x41", "&#X41;", "&#", "&#x", "&#;", "&#x;", "&#0;", "&#x0;", "&#xD800;", "&#x110000;", "&#99999999999;", "&#x80;",
        "&#x9f;", "&#x1;", "&#xFFFE;", "&#xFDD0;", "&#13;", "&bogus;", "&bogus", "&b0gus;", "&;", "&a;", "&a", "& ", "&<", "&&",
        "&é;", "&amp\r", "&a\r", "&\r", "&#\r", "&#x\r", "&#6\r", "&ampx;", "&AMP;", "&NotEqualTilde;", "&acE;"]
TERMS = ["", "x", "=", ";", " ", "\n", "\r", "\r\n", "\rX", "\r\nb", "<", "&", "\"", "'", ">", "\0", "é", "1"]
CTX = [("", "", "-"), ("<a b=\"", "\">", "-"), ("<a b='", "'/>", "-"), ("<a b=", " c>", "-"), ("", "", "Cdata"),
       ("", "", "TagAttrValue(DoubleQuoted)"), ("", "", "TagAttrValue(Unquoted)")]


def charref_cover():
    out = []
    for r in REFS:
        for t in TERMS:
            for pre, post, st in CTX:
                out.append((pre + r + t + post, st))
    return out


NAMES = ["a", "b", "a:b", "xml:lang", "xmlns", "xmlns:p", ":a", "a:", "a::b", "a:b:c", "é", "é:x", "A", "p:é", "x-y", "_", "::"]
AVALS = ["", "x", "a b", "1&amp;2", "&lt", "a'b", 'a"b', "x\ny", "x\r\ny", "x\ry", "&notit;", "&not=", "&#65;", "\0", "a\0b", "<", ">",
         "\t", "&#xD;", "é\r"]
TEXT = ["", "x", "hello", "a&amp;b", "&lt;", "&", "&#x41;", "&#0;", "&notin;", "&noti", "a\nb", "a\r\nb", "a\rb", "\0", "\r", "\r\r\n",
        ">", "&#x110000;", "&#", "&#x", "&bogus;", "﻿", "]]>", "--", "é\U0001F600", "&\rX", "&a\r\nb", "a\0\0b", "\x01", "￾"]


def random_soup(rng, n):
    out = []
    for _ in range(n):
        parts = []
        for _ in range(rng.randint(1, 6)):
            r = rng.random()
            if r < 0.3:
                t = rng.choice(NAMES)
                attrs = ""
                for _ in range(rng.randint(0, 3)):
                    q = rng.choice(['"', "'", ""])
                    v = rng.choice(AVALS)
                    if q == "":
                        v = v.replace(" ", "_")
                    sep = rng.choice(["=", " = ", "=\n", "=\r\n", "= ", "\r="])
                    attrs += rng.choice([" ", "\n", "\t", "\r\n", "\r"]) + rng.choice(NAMES) + (sep + q + v + q if rng.random() < 0.9 else "")
                parts.append("<" + t + attrs + rng.choice([">", "/>", " >", "\n>", "\r>", " / >"]))
            elif r < 0.42:
                parts.append("</" + rng.choice(NAMES + [""]) + rng.choice([">", " >", " x=y>", "/>", "\r\n>"]))
            elif r < 0.65:
                parts.append(rng.choice(TEXT))
            elif r < 0.73:
                parts.append("<!--" + rng.choice(["", "-", "x", "<!--", "--!", "a-b", "\0", "<!-", "x\ny", "x\r\ny", "\r"]) + rng.choice(["-->", "--!>", "->", ">", ""]))
            elif r < 0.81:
                parts.append("<!DOCTYPE" + rng.choice([" a", "a", " A PUBLIC \"x\" 'y'", " a SYSTEM 'z'", "\r\na\r\nPUBLIC\r\n'x'", " x y", "",
                                                       " a\rpublic 'x'", " a\r\nsystem \"s\"", " a public\r'p'\r\n\"s\"", " a\0 PUBLIC '\0\r'"]) + rng.choice([">", " >", "", "\r>"]))
            elif r < 0.88:
                parts.append("<?" + rng.choice(["", "p", "xml", "p d", "p  d?d", "p\r\nd\r", " p", "p?", "\0 \0", "p\rd"]) + rng.choice(["?>", "?", ">", "??>", ""]))
            elif r < 0.93:
                parts.append("<![CDATA[" + rng.choice(["", "x", "]", "]]", "a]b", "&amp;", "\r\n", "\0", "]]]", "<a>"]) + rng.choice(["]]>", "]>", "]]", ""]))
            else:
                parts.append("".join(rng.choice(SMALL + ["<", "<", "&"]) for _ in range(rng.randint(1, 8))))
        s = "".join(parts)
        if rng.random() < 0.2 and s:
            i = rng.randrange(len(s))
            s = s[:i] + (s[i] * 2 if rng.random() < 0.5 else "") + s[i + 1:]
        out.append((s, "-"))
    return out


def partitions2(s):
    return [[s[:i], s[i:]] for i in range(0, len(s) + 1)]


def random_partition(rng, s):
    if not s:
        return [""]
    cuts = sorted(set(rng.randrange(0, len(s) + 1) for _ in range(rng.randint(1, 4))))
    out, prev = [], 0
    for c in cuts:
        out.append(s[prev:c])
        prev = c
    out.append(s[prev:])
    return out


def lf_variants(s):
    """the CR and CRLF spellings of an input written with LF only (None if it has a CR already)"""
    if "\r" in s or "\n" not in s:
        return []
    return [s.replace("\n", "\r"), s.replace("\n", "\r\n")]


# ---------------------------------------------------------------- generation
# every generated line carries a group key; oracle_all compares the members of a group against the group's base case
def gen_cases(tier, rng):
    thorough = tier == "thorough"
    cases = []
    seen = set()

    def add(line, tag):
        if line not in seen:
            seen.add(line)
            cases.append((line, tag))
            f = line.split("\t")
            if f[1] == "tree":
                # the same case through the joint model (tokenizer model -> tree-builder model): model = code, and
                # (oracle) the result is independent of chunking and exact_errors
                f[1] = "jtree"
                cases.append(("\t".join(f), tag + "-joint"))

    def variants(s, st, fam, full_parts, tree):
        add(case([s], state=st), fam)
        add(case([s], state=st, exact=1), fam + "-exact")
        if full_parts:
            for p in partitions2(s):
                add(case(p, state=st), fam + "-part")
            if len(s) > 1:
                add(case(list(s), state=st), fam + "-part")
                add(case(list(s), state=st, exact=1), fam + "-part")
        else:
            for _ in range(2):
                add(case(random_partition(rng, s), state=st), fam + "-part")
        for v in lf_variants(s):
            add(case([v], state=st), fam + "-crlf")
            add(case([v], state=st, exact=1), fam + "-crlf")
            if full_parts:
                for p in partitions2(v):
                    add(case(p, state=st), fam + "-crlf")
        if "\0" in s:
            add(case([s.replace("\0", "�")], state=st), fam + "-nul")
        if tree and st == "-":
            add(tree_case([s]), fam + "-tree")
            add(tree_case([s], exact=1), fam + "-tree")
            parts = partitions2(s) if full_parts else [random_partition(rng, s) for _ in range(2)]
            for p in parts:
                add(tree_case(p), fam + "-tree")
            for v in lf_variants(s):
                add(tree_case([v]), fam + "-tree")
            if "\0" in s:
                add(tree_case([s.replace("\0", "�")]), fam + "-tree")

    for s, st in state_cover():
        variants(s, st, "state", len(s) <= 6, False)
    for s, st in charref_cover():
        variants(s, st, "charref", True, st == "-" and s.startswith("<"))
    pc = pair_cover()
    if not thorough:
        pc = [pc[i] for i in range(0, len(pc), 3)]
    for s, st in pc:
        variants(s, st, "pair", thorough, False)
    for s, st in random_soup(rng, 1500 if not thorough else 60000):
        variants(s, st, "soup", len(s) <= 40, True)
    # one case per code point, in every kind of position (data, the three attribute value kinds, names, comment, PI,
    # CDATA): the fast path (pop_except_from) and the slow path (get_preprocessed_char) must agree on every code point
    from props import tokcommon as _tc
    for cp in _tc.codepoints(tier):
        c = chr(cp)
        s = "a%sb<a d=t%su e='%s' f=\"%s\"><t%su><!--%s--><?p%sq %s?><![CDATA[%s]]></a%s>" % ((c,) * 10)
        add(case([s]), "cp")
        add(case([s], exact=1), "cp-exact")
        add(tree_case([s]), "cp-tree")
        add(tree_case([s], exact=1), "cp-tree")
        if cp in _tc.SPECIAL_CPS or cp < 0x100:
            add(case(list(s)), "cp-part")
            add(tree_case(list(s)), "cp-tree")
    # size only: wide tags (C16's family rendered as text)
    from props import C16 as _c16
    from props import xmlcommon as _X
    for toks in _c16.wide_token_lists():
        variants(_X.render(list(toks) + [("Z",)]), "-", "wide", False, True)
    # script elements: the tree builder answers Script at each </script>, the driver must resume until the chunk is used up
    for s in ["<a><script>x</script>y<b/>z</a>", "<script/>t<r/>", "<r><script></script><script>s</script>u</r>",
              "<script>1</script><script>2</script>w", "<a><script>x</script>", "<a><script>x</script>\r\n<!--c-->&amp;<c/></a>"]:
        variants(s, "-", "script", True, True)
    # BOM: only the first character of the stream, only with discard_bom
    for s in ["﻿", "﻿a", "a﻿", "﻿﻿a", "﻿<a/>", "<a>﻿</a>", "x﻿﻿", "﻿\r\n<a b='﻿'/>"]:
        for bom in (0, 1):
            for p in partitions2(s) + [list(s)]:
                add(case(p, bom=bom), "bom")
                add(tree_case(p, bom=bom), "bom")
        if s.startswith("\ufeff"):
            add(case([s[1:]], bom=0), "bom")
            add(tree_case([s[1:]], bom=0), "bom")
    return cases


# ---------------------------------------------------------------- oracle
BAD = ("PANIC", "ABORT", "bad-", "QUEUE", "OUT-OF")


def toks(out):
    return out.split(";") if out else []


def drop_errors(ts):
    res = []
    for t in ts:
        if t.startswith("E:"):
            continue
        if t.startswith("C:") and res and res[-1].startswith("C:"):
            a, b = res[-1][2:], t[2:]
            res[-1] = "C:" + ".".join(x for x in (a, b) if x != "-") if (a != "-" or b != "-") else "C:-"
        else:
            res.append(t)
    return res


def strings_of(ts):
    """all hex strings occurring in non-error tokens"""
    out = []
    for t in ts:
        if t.startswith("E:"):
            continue
        out += re.findall(r"[0-9a-f.]+", t.split(":", 1)[1] if ":" in t else "")
    return out


def oracle(line, out):
    if out is None or out.startswith(BAD):
        return "implementation crashed: %s" % out
    c = parse_case(line)
    if c["mode"] in ("tree", "jtree"):
        return None
    ts = toks(out)
    if not ts or ts[-1] != "EOF":
        return "token stream does not end with EOF"
    # no raw CR and no NUL ever reaches the sink (a numeric reference may legitimately produce a CR)
    whole = "".join(c["chunks"])
    for h in ([] if "&#" in whole else strings_of(ts)):
        cps = h.split(".")
        if "d" in cps:
            return "a raw CR reached the sink: %s" % out[:200]
        if "0" in cps:
            return "a NUL reached the sink: %s" % out[:200]
    return None


def key_of(c):
    return (c["mode"], c["state"], c["bom"], "".join(c["chunks"]))


def norm_lf(s):
    return s.replace("\r\n", "\n").replace("\r", "\n")


def oracle_all(cases, outs):
    """cross-case oracles, code vs code. Base of every group: one chunk, exact_errors off."""
    res = []
    by_key = {}
    parsed = []
    for (line, tag), out in zip(cases, outs):
        c = parse_case(line)
        parsed.append(c)
        if len(c["chunks"]) == 1 and c["exact"] == 0 and out is not None and not out.startswith(BAD):
            by_key[key_of(c)] = (line, out)

    def content(c, out):
        if c["mode"] in ("tree", "jtree"):
            return out
        return ";".join(drop_errors(toks(out)))

    for ((line, tag), out), c in zip(zip(cases, outs), parsed):
        if out is None or out.startswith(BAD):
            continue
        whole = "".join(c["chunks"])
        base = by_key.get(key_of(c))
        # 1. chunking and exact_errors
        if base is not None and base[0] != line:
            bl, bo = base
            if c["exact"] == 0 and c["mode"] == "tok":
                if out != bo:
                    res.append((line, "token stream depends on chunking: %s  vs one piece: %s" % (out[:300], bo[:300]), out))
                    continue
            if content(c, out) != content(c, bo):
                what = "exact_errors" if c["exact"] == 1 and len(c["chunks"]) == 1 else "chunking/options"
                res.append((line, "%s change the %s: %s  vs base: %s"
                            % (what, "tree" if c["mode"] in ("tree", "jtree") else "tokens (errors aside)", content(c, out)[:300], content(c, bo)[:300]), out))
                continue
        # 2. CR / CRLF spellings equal the LF spelling
        if "\r" in whole:
            k = (c["mode"], c["state"], c["bom"], norm_lf(whole))
            b2 = by_key.get(k)
            if b2 is not None and content(c, out) != content(c, b2[1]):
                res.append((line, "CR/CRLF spelling differs from the LF spelling: %s  vs: %s" % (content(c, out)[:300], content(c, b2[1])[:300]), out))
                continue
        # 3. NUL behaves as U+FFFD
        if "\0" in whole:
            k = (c["mode"], c["state"], c["bom"], whole.replace("\0", "�"))
            b3 = by_key.get(k)
            if b3 is not None and content(c, out) != content(c, b3[1]):
                res.append((line, "NUL is not treated as U+FFFD: %s  vs: %s" % (content(c, out)[:300], content(c, b3[1])[:300]), out))
                continue
        # 4. BOM: dropped only as the first character of the stream and only with discard_bom
        if tag == "bom" and c["bom"] == 1 and whole.startswith("﻿"):
            k = (c["mode"], c["state"], 0, whole[1:])
            b4 = by_key.get(k)
            if b4 is not None and content(c, out) != content(c, b4[1]):
                res.append((line, "discard_bom is not 'drop the first U+FEFF only': %s  vs: %s" % (content(c, out)[:300], content(c, b4[1])[:300]), out))
    return res


def compare(line, impl, model):
    if line.split("\t")[1] == "tree":
        return model == "no-model"
    return impl == model


def nontrivial(line, out):
    return out is not None and out not in ("EOF", "T=#doc", "J=err=-;tree=-") and not out.startswith(BAD)


def neighbourhood(line):
    c = parse_case(line)
    if c["mode"] != "tok":
        return []
    s = "".join(c["chunks"])
    return [case(p, exact=c["exact"], bom=c["bom"], state=c["state"]) for p in partitions2(s)][:100]


def extra_evidence(check):
    fams = {}
    for (line, tag) in check.cases:
        fams[tag] = fams.get(tag, 0) + 1
    return {"families": fams, "states": STATES, "chars": [hex(ord(c)) for c in CHARS]}
