"""C07 — HTML serializer output re-parses to the same tree; inner equals outer.

Defects of the pinned snapshot, all repaired in /repo (oracle detail prefixes, see KNOWN_MATCHERS):
  D1 write_escaped drops 0xC2 not followed by 0xA0          (fix 423f1bc, model switch Cfg.fixC2)
  D2 ChildrenOnly(Some(name)) ignores name.ns                (fix b9175dc, model switch Cfg.fixNs)
  D3 ChildrenOnly(Some(void)) does not set ignore_children   (fix f7b6360, model switch Cfg.fixVoid)
The oracle (python reference serializer below) always demands the fixed behaviour; the Lean model
follows `Cfg.current` in lean/H5V/Model/HtmlSer.lean (all switches on).  corpus/C07/defects.case holds
the former witnesses as regression cases.  If a fix is reverted the oracle reports Dn again and the
correspondence disagrees; section 6 of lean/H5V/Props/C07.lean is where the model would be switched.
"""
import os
import sys

sys.path.insert(0, os.path.dirname(os.path.dirname(os.path.abspath(__file__))))
import vlib  # noqa: E402

PROP = "C07"
ENGINE = "ser"
LEAN_TARGETS = ["H5V.Props.C07", "H5V.Props.C07RT"]
AUDIT_IMPORTS = ["H5V.Props.C07", "H5V.Props.C07RT"]
THEOREMS = ["H5V.Props.C07." + t for t in [
    # write_escaped: the byte loop with its index arithmetic = a structural byte function, never panics
    "C07_write_escaped_eq",
    # escaping: byte level = UTF-8 of the character-level spec
    "C07_escape_bytes_partial", "C07_escape_bytes_fixed", "C07_witness_c2_dropped",
    # reading back
    "C07_unescape_text", "C07_unescape_attr", "C07_escape_text_no_lt", "C07_escape_attr_no_quote",
    "C07_witness_cr", "C07_witness_nul",
    # serializer = pure renderer, no panic on document-free trees, rcdom op loop = recursion
    "C07_serialize_eq_render", "C07_no_panic", "C07_runOps_eq", "C07_serializeOps_eq",
    # inner = outer
    "C07_tags", "C07_inner_outer_partial", "C07_inner_outer_fixed", "C07_witness_ns_ignored",
    "C07_witness_void_children",
    # raw text only under HTML raw-text parents
    "C07_raw_only_html", "C07_scope_raw_partial",
    # full-strength statements about the code as it is (Cfg.current = all fixes in)
    "C07_current_write_escaped", "C07_current_inner_outer", "C07_current_scope_raw",
    # history: the pinned snapshot (Cfg.pinned) and its defects
    "C07_pinned_write_escaped", "C07_pinned_inner_outer", "C07_pinned_void_children",
    # the round trip through tokenizer and tree builder (Props/C07RT.lean), for every ordinary forest
    "C07_serialize_ordinary", "C07_tb_roundtrip", "C07_tb_roundtrip_whole", "C07_tok_roundtrip", "C07_tok_roundtrip_merged",
    "C07_roundtrip", "C07_witness_leading_bom", "exForest_ordinary", "exForest_noBom",
]]
TRUSTED = [
    "Lean 4 kernel; axioms ⊆ {propext, Classical.choice, Quot.sound} (audited per run)",
    "hand-written model lean/H5V/Model/HtmlSer.lean of html5ever/src/serialize/mod.rs and of rcdom's "
    "SerializableHandle traversal, tied by the `ser` correspondence (harness/src/engines/ser.rs vs h5vdriver)",
    "str::as_bytes modelled by core Lean's String.utf8EncodeChar; memchr2/memchr3 modelled as first-index search",
    "the reader `unescape` (H5V/Spec/HtmlEscape.lean) is a hand-written abstraction of the tokenizer's data / "
    "attribute-value(double-quoted) states restricted to the five references the serializer emits; the full "
    "C07_roundtrip: vocabulary = names without an in-body rule of their own + the plain block elements + properly nested "
    "formatting elements (not a, nobr); exact_errors off; text given as characters (UTF-8 decoding is C10); hypothesis "
    "noLeadingBom (known finding C07-leading-bom). Outside that vocabulary (p, headings, li, option, a, nobr ...) the round "
    "trip is checked on the real code only (rt= oracle)",
    "the python reference serializer in this file (standard's fragment serialisation + the code's documented "
    "treatment of void elements) used as oracle for the bytes written",
]
ASSUMPTIONS = [
    "round trip: ordinary vocabulary only (HTML elements handled by the generic start/end-tag arms, no void / "
    "raw-text / implied-end-tag / formatting / table / select / template elements), text and attribute values "
    "free of CR and NUL, text nodes non-empty and not adjacent, attribute names from the tokenizer's alphabet",
    "inner = outer is claimed for trees without Document nodes below the root (rcdom panics on those)",
    "I/O errors of the writer are not modelled (Vec<u8> writer)",
]
RULE = ("engine ser. Families: esc* = one div with attribute value and text = s, s ranging over every single "
        "character of a boundary alphabet, every 2-byte UTF-8 sequence with lead byte C2/C3 (alone and next to "
        "a/&/NBSP), all ordered pairs and (reduced) triples of specials, one special at every offset 0..70 of an "
        "ASCII run (memchr block sizes); long-* = one special (& < > \" NBSP, a C2-lead char) after a clean ASCII "
        "run of every length in 0..80, 120..136, 250..262, 508..516, 1020..1028, ~4096, ~65536 (quick thins the "
        "last two), two specials separated by runs around 8..1025, clean runs of 2/3/4-byte characters with "
        "shifted alignment, each in attribute and text mode; elem = every raw-text/void/newline-sensitive/ordinary name × "
        "{html,svg,mathml,other,empty ns} × scripting × scopes I/C/N(own name) + foreign scope names; scope = every "
        "node kind as root × scopes × create_missing_parent; attrns = every attribute namespace × local names; "
        "ops = every Serializer call sequence of length ≤ 3 over 6 calls × create_missing_parent × 2 scopes, plus "
        "random sequences; random = seeded random trees over the full vocabulary; ordinary = seeded random "
        "ordinary trees under a div root (real parse_fragment round trip); parsed = documents parsed by the real "
        "parser (both scripting settings), each serialised with both scripting settings. non-trivial = some "
        "bytes written; distinct = distinct (case, output)")
EXPLANATION = ("theorems: byte loop of write_escaped = UTF-8 of character-level escape for all strings "
               "(C07_current_write_escaped), unescape∘escape = id, no `<`/`\"` survives, serializer = pure "
               "renderer, inner = outer for every element by comparing the ElemInfo pushed by start_elem with "
               "the one built by HtmlSerializer::new (C07_current_inner_outer), raw text iff HTML raw-text "
               "parent; `_partial`/`_witness`/`_pinned` theorems document the three repaired defects")

RAW = ["style", "script", "xmp", "iframe", "noembed", "noframes", "plaintext"]
VOID = ["area", "base", "basefont", "bgsound", "br", "col", "embed", "frame", "hr", "img", "input", "keygen",
        "link", "meta", "param", "source", "track", "wbr"]
NL = ["pre", "textarea", "listing"]
ORDINARY = ["div", "span", "section", "article", "aside", "nav", "header", "footer", "main", "blockquote",
            "center", "details", "dialog", "dir", "dl", "fieldset", "figcaption", "figure", "hgroup", "menu", "ol",
            "ul", "summary", "x-foo", "abbr", "cite", "q", "label", "bdi", "data", "time", "var", "kbd", "samp",
            "sub", "sup", "mark", "ins", "del", "canvas", "audio", "video", "map", "output", "progress", "meter",
            "slot", "dfn", "legend", "picture", "custom-el"]
# formatting elements other than a / nobr (whose *start* tags close an open element of the same name): a tree of them
# serializes to properly nested tags, which the adoption agency closes one by one without moving anything
FORMATTING = ["b", "big", "code", "em", "font", "i", "s", "small", "strike", "strong", "tt", "u"]
NSS = ["h", "s", "m", "0", "u 75 72 6e 3a 78"]
ATTR_NSS = ["0", "x", "n", "l", "h", "s", "m", "u 75 72 6e 3a 78"]


# ----------------------------------------------------------------------------- encoding

def hx(s):
    return " ".join("%x" % ord(c) for c in s) if s else "-"


def unhx(s):
    s = s.strip()
    return "" if s in ("-", "") else "".join(chr(int(x, 16)) for x in s.split(" "))


def E(ns, local, attrs=(), ch=()):
    return ("E", ns, local, list(attrs), list(ch))


def enc_tree(t, out):
    k = t[0]
    if k == "E":
        out.append("E:%s:%s" % (t[1], hx(t[2])))
        for (ns, pfx, local, value) in t[3]:
            out.append("A:%s:%s:%s:%s" % (ns, "~" if pfx is None else hx(pfx), hx(local), hx(value)))
        for c in t[4]:
            enc_tree(c, out)
        out.append("/")
    elif k == "R":
        out.append("R")
        for c in t[1]:
            enc_tree(c, out)
        out.append("/")
    elif k == "P":
        out.append("P:%s:%s" % (hx(t[1]), hx(t[2])))
    else:
        out.append("%s:%s" % (k, hx(t[1])))
    return out


def dec_tree(s):
    toks = s.split(";")
    pos = [0]

    def node():
        tok = toks[pos[0]]
        pos[0] += 1
        f = tok.split(":")
        if f[0] == "E":
            attrs = []
            while pos[0] < len(toks) and toks[pos[0]].startswith("A:"):
                a = toks[pos[0]].split(":")
                attrs.append((a[1], None if a[2] == "~" else unhx(a[2]), unhx(a[3]), unhx(a[4])))
                pos[0] += 1
            return ("E", f[1], unhx(f[2]), attrs, kids())
        if f[0] == "R":
            return ("R", kids())
        if f[0] == "P":
            return ("P", unhx(f[1]), unhx(f[2]))
        return (f[0], unhx(f[1]))

    def kids():
        ch = []
        while toks[pos[0]] != "/":
            ch.append(node())
        pos[0] += 1
        return ch

    t = node()
    assert pos[0] == len(toks)
    return t


def children(t):
    return t[4] if t[0] == "E" else t[1] if t[0] == "R" else []


def mk_tree(scope, scripting, cmp, t):
    return "ser\ttree\t%s\t%d\t%d\t%s" % (scope, scripting, cmp, ";".join(enc_tree(t, [])))


def scope_n(ns, local):
    return "N:%s:%s" % (ns, hx(local))


# ----------------------------------------------------------------------------- reference (the property)

def esc(s, attr):
    """character-level escape of the standard ("escaping a string")"""
    out = []
    for c in s:
        if c == "&":
            out.append("&amp;")
        elif c == " ":
            out.append("&nbsp;")
        elif c == "<":
            out.append("&lt;")
        elif c == ">":
            out.append("&gt;")
        elif c == '"' and attr:
            out.append("&quot;")
        else:
            out.append(c)
    return "".join(out)


def info_for(ns, local):
    """(html_name, ignore_children) of an element — the same for start_elem and for ChildrenOnly(Some(name))"""
    if ns == "h":
        return (local, local in VOID)
    return (None, False)


ATTR_PFX = {"0": "", "x": "xml:", "l": "xlink:"}


def ref_node(t, parent, scripting, out):
    k = t[0]
    if k == "E":
        info = info_for(t[1], t[2])
        if parent[1]:
            info = (info[0], True)
            for c in t[4]:
                ref_node(c, info, scripting, out)
            return
        out.append("<" + t[2])
        for (ns, _pfx, local, value) in t[3]:
            if ns == "n":
                p = "" if local == "xmlns" else "xmlns:"
            else:
                p = ATTR_PFX.get(ns, "unknown_namespace:")
            out.append(" " + p + local + '="' + esc(value, True) + '"')
        out.append(">")
        for c in t[4]:
            ref_node(c, info, scripting, out)
        if not info[1]:
            out.append("</" + t[2] + ">")
    elif k == "T":
        raw = parent[0] in RAW or (parent[0] == "noscript" and scripting)
        out.append(t[1] if raw else esc(t[1], False))
    elif k == "C":
        out.append("<!--" + t[1] + "-->")
    elif k == "D":
        out.append("<!DOCTYPE " + t[1] + ">")
    elif k == "P":
        out.append("<?" + t[1] + " " + t[2] + ">")
    else:
        raise ValueError("document")


def has_doc_below(t, top=True):
    if t[0] == "R" and not top:
        return True
    return any(has_doc_below(c, False) for c in children(t))


def ref_serialize(scope, scripting, t):
    """None if the reference is undefined (Document node would be serialised)"""
    out = []
    try:
        if scope == "I":
            ref_node(t, (None, False), scripting, out)
        else:
            if scope == "C":
                parent = (None, False)
            else:
                _, ns, local = scope.split(":")
                parent = info_for(ns, unhx(local))
            for c in children(t):
                ref_node(c, parent, scripting, out)
    except ValueError:
        return None
    return "".join(out).encode("utf-8", "surrogatepass")


def is_ordinary_forest(ch):
    prev_text = False
    for c in ch:
        if c[0] == "T":
            if prev_text or not c[1] or "\r" in c[1] or "\0" in c[1]:
                return False
            prev_text = True
            continue
        prev_text = False
        if c[0] != "E" or c[1] != "h" or (c[2] not in ORDINARY and c[2] not in FORMATTING):
            return False
        seen = set()
        for (ns, _p, local, value) in c[3]:
            if ns != "0" or not local or local in seen or "\r" in value or "\0" in value:
                return False
            if any(x in local for x in "\t\n\f\r />=\"'<\0") or any("A" <= x <= "Z" for x in local):
                return False
            seen.add(local)
        if not is_ordinary_forest(c[4]):
            return False
    return True


def at_path(t, path):
    if path == "r":
        return t
    for k in path.split("."):
        t = children(t)[int(k)]
    return t


def has_elem_desc(t):
    return any(c[0] == "E" or has_elem_desc(c) for c in children(t))


D1 = "D1 write_escaped drops a 0xC2 lead byte that is not followed by 0xA0"
D2 = "D2 ChildrenOnly(Some(name)) ignores name.ns: non-HTML raw-text name leaves text unescaped"
D3 = "D3 ChildrenOnly(Some(void name)) does not ignore child elements, IncludeNode does"


def classify_io(t, paths, scripting):
    for p in paths.split(","):
        try:
            e = at_path(t, p)
        except Exception:
            return "inner/outer: unreadable path %r" % p
        if e[0] != "E":
            return "inner/outer: path %r is not an element" % p
        if e[1] != "h" and (e[2] in RAW or (e[2] == "noscript" and scripting)):
            return "%s (element %s:%s at %s)" % (D2, e[1], e[2], p)
        if e[1] == "h" and e[2] in VOID and has_elem_desc(e):
            return "%s (element %s at %s)" % (D3, e[2], p)
        return "inner != outer for element %s:%s at %s (unclassified)" % (e[1], e[2], p)
    return None


def only_c2_deleted(got, want):
    """got arises from want by deleting some bytes 0xC2 and nothing else"""
    i = 0
    for b in want:
        if i < len(got) and got[i] == b:
            i += 1
        elif b != 0xC2:
            return False
    return i == len(got)


def fields_of(out):
    d = {}
    for part in out.split(";"):
        if "=" in part:
            k, v = part.split("=", 1)
            d[k] = v
    return d


def unbytes(s):
    s = s.strip()
    return b"" if s in ("-", "") else bytes(int(x, 16) for x in s.split(" "))


def oracle(line, out):
    if out is None or out.startswith("PANIC") or out.startswith("ABORT") or out.startswith("bad-"):
        return "implementation crashed / rejected the case: %s" % out
    f = line.split("\t")
    mode = f[1]
    if mode == "parse":
        head, _, tree = out.partition(";tree=")
        d = fields_of(head)
        t = dec_tree(tree)
        for s in (0, 1):
            v = d.get("io%d" % s)
            if v != "ok":
                return classify_io(t, v or "r", bool(s))
        return None
    d = fields_of(out)
    if "panic-other" in d.get("r", ""):
        return "unexpected panic: %s" % d.get("r")
    if mode == "ops":
        return None
    scope, scripting, t = f[2], f[3] == "1", dec_tree(f[5])
    if has_doc_below(t) or (scope == "I" and t[0] == "R"):
        # rcdom refuses Document nodes: outside the property
        return None if d.get("r") in ("ok", "panic-document") else "unexpected result %s" % d.get("r")
    if d.get("r") != "ok":
        return "serializer panicked on a well-formed tree: %s" % d.get("r")
    if d.get("alt") == "bad-short-write":
        return "the bytes written depend on how much the writer takes per write() call (a partial write loses data)"
    if d.get("alt") != "ok":
        return "SerializableHandle and a plain recursive traversal disagree"
    got = unbytes(d["out"])
    want = ref_serialize(scope, scripting, t)
    if got != want:
        # classify: escaping (D1) or the scope name (D2/D3) or something else
        if scope.startswith("N:"):
            _, ns, local = scope.split(":")
            local = unhx(local)
            if ns != "h" and (local in RAW or (local == "noscript" and scripting)):
                return "%s; scope %s, got %r want %r" % (D2, scope, got[:60], want[:60])
            if ns == "h" and local in VOID:
                return "%s; scope %s, got %r want %r" % (D3, scope, got[:60], want[:60])
        if only_c2_deleted(got, want):
            return "%s; got %r want %r" % (D1, got[:60], want[:60])
        k = next((i for i in range(min(len(got), len(want))) if got[i] != want[i]), min(len(got), len(want)))
        lo = max(0, k - 12)
        return ("bytes differ from the reference serialisation (first difference at byte %d of %d/%d): "
                "got ...%r want ...%r" % (k, len(got), len(want), got[lo:k + 24], want[lo:k + 24]))
    if d.get("io") != "ok":
        return classify_io(t, d.get("io", "r"), scripting)
    rt = d.get("rt")
    if t[0] == "E" and t[1] == "h" and t[2] == "div" and is_ordinary_forest(t[4]):
        if rt == "utf8":
            # the harness re-serialises the children with ChildrenOnly(Some(div)); invalid UTF-8 can
            # only come from a dropped lead byte
            return "%s; seen through the round trip (serialised children are not UTF-8)" % D1
        if rt == "diff-default-bom":
            return ("leading-bom: with the default TokenizerOpts (discard_bom = true) parse_fragment drops the U+FEFF that "
                    "starts the serialisation; the same text parsed with discard_bom = false reproduces the tree")
        if rt != "ok":
            return "round trip: parse_fragment(serialize(children)) differs from the tree (rt=%s)" % rt
    return None


def compare(line, impl, model):
    if line.split("\t")[1] == "parse":
        return model == "no-model"
    if impl is None or model is None:
        return False
    return impl.split(";alt=")[0] == model


def nontrivial(line, out):
    return out is not None and ";out=" in out and ";out=-" not in out or (out or "").startswith("io0=")


KNOWN_MATCHERS = {
    "C07-D1": lambda f: (f.detail or "").startswith("D1 "),
    "C07-D2": lambda f: (f.detail or "").startswith("D2 "),
    "C07-D3": lambda f: (f.detail or "").startswith("D3 "),
    "C07-leading-bom": lambda f: f.kind == "oracle" and (f.detail or "").startswith("leading-bom:"),
}

# ----------------------------------------------------------------------------- generators

SPECIALS = ["&", "<", ">", '"', " ", "¢", "é", "a", ";", "\u0080", "'", "¿"]
BOUNDARY = (["&", "<", ">", '"', "'", " ", "\u0080", "\u009f", "¡", "¿", "À", "Â",
             "ÿ", "Ā", "߿", "ࠀ", "€", "�", "퟿", "", "\U00010000",
             "\U0010ffff", "a", "z", " ", "\n", "\t", "\f", "\r", "\0", ";", "#", "=", "/", "`", "\u0082",
             "  ", "\x7f", " ", "﻿"])


def esc_case(s, scripting=1):
    t = E("h", "div", [("0", None, "a", s)], [("T", s)] if s else [])
    return mk_tree("I", scripting, 0, t)


def gen_escape(cases):
    for c in BOUNDARY:
        cases.append((esc_case(c), "esc-single"))
    two = [chr(x) for x in range(0x80, 0x100)]
    for c in two:
        for s in (c, "x" + c + "y", c + c, c + "&", "&" + c, c + " ", " " + c, c + "<"):
            cases.append((esc_case(s), "esc-c2c3"))
    for a in SPECIALS:
        for b in SPECIALS:
            cases.append((esc_case(a + b), "esc-pair"))
    small = ["&", "<", '"', " ", "¢", "a"]
    for a in small:
        for b in small:
            for c in small:
                cases.append((esc_case(a + b + c), "esc-triple"))
    for sp in ["&", "<", ">", '"', " ", "¢", "é", "€"]:
        for k in range(0, 71):
            cases.append((esc_case("a" * k + sp), "esc-offset"))
            cases.append((esc_case("a" * k + sp + "b"), "esc-offset"))
            if k % 3 == 0:
                cases.append((esc_case(sp + "a" * k + sp), "esc-offset"))
    for k in range(0, 71):
        cases.append((esc_case("a" * k), "esc-offset"))


LONG_SPECIALS = ["&", "<", ">", '"', "\u00a0", "\u00a2"]   # & < > " NBSP and a 0xC2-lead non-NBSP char


def _rng_set(*ranges):
    out = []
    for a, b in ranges:
        out.extend(range(a, b + 1))
    return out


def gen_long_runs(cases, quick):
    """one special after a clean run of every length around every plausible block / window size
    (attribute and text mode in each case); two specials separated by such runs; runs of multi-byte
    characters (byte offset != char offset)"""
    lens = _rng_set((0, 80), (120, 136), (250, 262), (508, 516), (1020, 1028))
    lens += [4095, 4096, 4097] if quick else _rng_set((4090, 4100))
    for L in lens:
        for sp in LONG_SPECIALS:
            cases.append((esc_case("a" * L + sp), "long-run"))
            if L % 2 == 0 or not quick:
                cases.append((esc_case("a" * L + sp + "b<"), "long-run"))
    huge = [(65535, "&"), (65536, "\u00a2"), (65537, '"')] if quick else \
        [(L, sp) for L in _rng_set((65530, 65540)) for sp in LONG_SPECIALS]
    for L, sp in huge:
        cases.append((esc_case("a" * L + sp), "long-run-huge"))
    # two specials separated by a clean run, after nothing / after another clean run
    gaps = [0, 1, 7, 8, 9, 15, 16, 17, 31, 32, 33, 63, 64, 65, 127, 128, 129, 254, 255, 256, 257, 258,
            511, 512, 513, 1023, 1024, 1025]
    for L in gaps:
        for a in LONG_SPECIALS:
            for b in LONG_SPECIALS:
                if quick and (LONG_SPECIALS.index(a) + LONG_SPECIALS.index(b) + L) % 2:
                    continue
                cases.append((esc_case(a + "a" * L + b), "long-gap"))
                cases.append((esc_case("a" * 250 + a + "a" * L + b + "a" * 300 + a), "long-gap"))
    # clean runs of 2-, 3- and 4-byte characters: n chars = 2n / 3n / 4n bytes
    ns = _rng_set((0, 90), (120, 136), (165, 175), (250, 262), (336, 346), (508, 516))
    for ch in ["\u00e9", "\u20ac", "\U0001f600"]:
        for n in ns:
            for sp in (LONG_SPECIALS[::2] if quick and n % 2 else LONG_SPECIALS):
                cases.append((esc_case(ch * n + sp), "long-multibyte"))
        # shifted alignment around the 256-byte mark
        per = len(ch.encode("utf-8"))
        for k in range(0, 4):
            for n in range(256 // per - 4, 256 // per + 5):
                for sp in LONG_SPECIALS:
                    cases.append((esc_case("a" * k + ch * n + sp + ch), "long-multibyte"))


def elem_subject(ns, name):
    return E(ns, name, [("0", None, "k", 'v"&')],
             [("T", "a<b&c >"), E("h", "b", [], [("T", "x>y")]), ("C", "c-->"), ("T", "</" + name + ">")])


def gen_elements(cases):
    names = RAW + ["noscript"] + VOID + NL + ["div", "title", "template", "p", "svg", "math"]
    for name in names:
        for ns in NSS:
            for scripting in (0, 1):
                subj = elem_subject(ns, name)
                cases.append((mk_tree("I", scripting, 0, subj), "elem"))
                cases.append((mk_tree("C", scripting, 0, subj), "elem"))
                cases.append((mk_tree(scope_n(ns, name), scripting, 0, subj), "elem"))
                # nested below an ordinary parent and below a void parent
                cases.append((mk_tree("I", scripting, 0, E("h", "div", [], [subj, ("T", "t<")])), "elem"))
    # a scope name unrelated to the root
    for name in RAW + ["noscript", "br", "div"]:
        for ns in NSS:
            for scripting in (0, 1):
                t = E("h", "div", [], [("T", "a<b"), E("h", "i", [], [("T", "&")])])
                cases.append((mk_tree(scope_n(ns, name), scripting, 0, t), "elem-scope"))
    # void subjects with / without element children, text only
    for name in VOID:
        for ch in ([], [("T", "a<")], [E("h", "b", [], [])], [("T", "x"), E("h", "b", [], [("T", "y&")]), ("C", "z")],
                   [E("h", "br", [], [E("h", "i", [], [("T", "q")])])]):
            for sc in ("I", scope_n("h", name)):
                cases.append((mk_tree(sc, 1, 0, E("h", name, [], ch)), "elem-void"))
    # pre / textarea / listing with a leading newline
    for name in NL:
        for txt in ("\n", "\nx", "\n\nx", "x\n"):
            t = E("h", name, [], [("T", txt)])
            cases.append((mk_tree("I", 1, 0, t), "elem-nl"))
            cases.append((mk_tree(scope_n("h", name), 1, 0, t), "elem-nl"))


def gen_scopes(cases):
    roots = [("T", "a<"), ("C", "c"), ("D", "html"), ("P", "t", "d"), ("R", []),
             ("R", [("D", "html"), E("h", "html", [], [("T", "x&")])]),
             ("R", [("R", [])]), E("h", "div", [], [("R", [])]), E("h", "div", [], [("T", "a<")]),
             E("h", "script", [], [("T", "a<")]), E("s", "script", [], [("T", "a<")])]
    scopes = ["I", "C", scope_n("h", "div"), scope_n("h", "script"), scope_n("s", "script"), scope_n("h", "br"),
              scope_n("h", "noscript"), scope_n("m", "noscript"), scope_n("h", "")]
    for r in roots:
        for sc in scopes:
            for cmp in (0, 1):
                for scripting in (0, 1):
                    cases.append((mk_tree(sc, scripting, cmp, r), "scope"))


def gen_attr_ns(cases):
    for ans in ATTR_NSS:
        for local in ("xmlns", "a", "href", "xmlns:x", ""):
            for pfx in (None, "p"):
                for ens in ("h", "s"):
                    t = E(ens, "g", [(ans, pfx, local, "v&"), ("0", None, "b", "")], [])
                    cases.append((mk_tree("I", 1, 0, t), "attrns"))


OPS = ["S:h:61", "S:h:62 72", "X:h:61", "T:61 3c", "C:63", "S:h:73 74 79 6c 65;A:0:~:61:22"]


def mk_ops(scope, scripting, cmp, ops):
    return "ser\tops\t%s\t%d\t%d\t%s" % (scope, scripting, cmp, ";".join(ops) if ops else "-")


def gen_ops(cases, rng, n_random):
    seqs = [[]]
    for a in OPS:
        seqs.append([a])
        for b in OPS:
            seqs.append([a, b])
            for c in OPS:
                seqs.append([a, b, c])
    for s in seqs:
        for cmp in (0, 1):
            for sc in ("I", scope_n("h", "br")):
                cases.append((mk_ops(sc, 1, cmp, s), "ops"))
    more = OPS + ["X:h:62 72", "X:s:78", "D:68", "P:74:64", "S:s:73 74 79 6c 65", "T:26 a2 a0"]
    for _ in range(n_random):
        s = [rng.choice(more) for _ in range(rng.randint(1, 9))]
        cases.append((mk_ops(rng.choice(["I", "C", scope_n("h", "script"), scope_n("s", "xmp")]),
                             rng.randint(0, 1), rng.randint(0, 1), s), "ops-random"))


TEXT_ALPHA = ["a", "b", " ", "&", "<", ">", '"', "'", " ", "¢", "é", "€", "\U0001f600", ";",
              "amp;", "&lt;", "\n", "Â", "\u0080", "-", "/", "=", "\ufeff"]


def rnd_text(rng, lo=0, hi=8, extra=()):
    alpha = TEXT_ALPHA + list(extra)
    return "".join(rng.choice(alpha) for _ in range(rng.randint(lo, hi)))


def rnd_tree(rng, depth):
    r = rng.random()
    if depth <= 0 or r < 0.3:
        return ("T", rnd_text(rng, 0, 10, ["\r", "\0"]))
    if r < 0.36:
        return ("C", rnd_text(rng))
    if r < 0.39:
        return ("D", rng.choice(["html", "", "x y"]))
    if r < 0.42:
        return ("P", rng.choice(["xml", "t"]), rnd_text(rng))
    if r < 0.43:
        return ("R", [])
    name = rng.choice(RAW + ["noscript"] + VOID + NL + ORDINARY[:12] + ["p", "a", "b", "template", "svg", "math"])
    ns = rng.choice(["h", "h", "h", "s", "m", "0", "u 75 72 6e 3a 78"])
    attrs = []
    for _ in range(rng.choice([0, 0, 1, 2])):
        attrs.append((rng.choice(ATTR_NSS), rng.choice([None, None, "p"]), rng.choice(["a", "b", "xmlns", "href"]),
                      rnd_text(rng)))
    ch = [rnd_tree(rng, depth - 1) for _ in range(rng.choice([0, 1, 1, 2, 3]))]
    return E(ns, name, attrs, ch)


def gen_random(cases, rng, n):
    for _ in range(n):
        t = rnd_tree(rng, 4)
        if rng.random() < 0.15:
            t = ("R", [t, rnd_tree(rng, 2)])
        r = rng.random()
        if r < 0.4:
            sc = "I"
        elif r < 0.55:
            sc = "C"
        elif t[0] == "E" and r < 0.85:
            sc = scope_n(t[1], t[2])
        else:
            sc = scope_n(rng.choice(NSS), rng.choice(RAW + ["noscript", "br", "div"]))
        cases.append((mk_tree(sc, rng.randint(0, 1), 1 if rng.random() < 0.1 else 0, t), "random"))


NAME_ALPHA = "abcxyz-_:.0123456789é€&;#@*"


def rnd_ordinary_forest(rng, depth, vocab=None):
    vocab = vocab or ORDINARY
    out = []
    prev_text = False
    for _ in range(rng.choice([0, 1, 2, 3, 4]) if depth > 0 else rng.choice([0, 1])):
        if not prev_text and (depth <= 0 or rng.random() < 0.45):
            out.append(("T", rnd_text(rng, 1, 12, ["\t", "\f", " ", "&amp;", "&#38;", "&nbsp", "<!--", "</div>",
                                                  "]]>", "�", "\u0085"])))
            prev_text = True
        else:
            attrs = []
            seen = set()
            for _ in range(rng.choice([0, 0, 1, 2, 3])):
                n = "".join(rng.choice(NAME_ALPHA) for _ in range(rng.randint(1, 5)))
                if n in seen:
                    continue
                seen.add(n)
                attrs.append(("0", None, n, rnd_text(rng, 0, 10, ["\t", "&amp", "&quot;", "&#x22;", "\n"])))
            out.append(E("h", rng.choice(vocab), attrs, rnd_ordinary_forest(rng, depth - 1, vocab)))
            prev_text = False
    return out


def gen_ordinary(cases, rng, n):
    for _ in range(n):
        t = E("h", "div", [], rnd_ordinary_forest(rng, 3))
        assert is_ordinary_forest(t[4])
        cases.append((mk_tree(rng.choice(["I", scope_n("h", "div")]), rng.randint(0, 1), 0, t), "ordinary"))
    # formatting elements: nested, repeated names (Noah's ark: four and more identical ones), content after the inner one
    for _ in range(n // 2):
        vocab = [rng.choice(FORMATTING) for _ in range(rng.randint(1, 3))] * 3 + ["div", "span", "p"[:0] or "section"]
        t = E("h", "div", [], rnd_ordinary_forest(rng, 4, vocab))
        assert is_ordinary_forest(t[4])
        cases.append((mk_tree(rng.choice(["I", scope_n("h", "div")]), rng.randint(0, 1), 0, t), "ordinary-fmt"))
    for f in FORMATTING:
        for g in (f, "i" if f != "i" else "b"):
            for k in (1, 2, 3, 4, 5):
                inner = [("T", "x")]
                for j in range(k):
                    inner = [E("h", g if j % 2 else f, [("0", None, "c", "n%d" % j)] if j != 2 else [], inner), ("T", "y%d" % j)]
                t = E("h", "div", [], [E("h", f, [("0", None, "c", "outer")], inner), ("T", "z")])
                assert is_ordinary_forest(t[4])
                cases.append((mk_tree("I", 1, 0, t), "ordinary-fmt"))
                same = [("T", "x")]
                for j in range(k):
                    same = [E("h", f, [], same), E("h", "div", [], [("T", "d%d" % j)])]
                t = E("h", "div", [], [E("h", f, [], same), ("T", "z")])
                cases.append((mk_tree("I", 0, 0, t), "ordinary-fmt"))
    # known finding C07-leading-bom: a text that starts the serialisation with U+FEFF (and controls: not at the start)
    for forest in ([("T", "\ufeffa")], [("T", "\ufeff")], [("T", "a\ufeffb")], [E("h", "span", [], [("T", "\ufeffx")]), ("T", "\ufeff")]):
        cases.append((mk_tree("I", 1, 0, E("h", "div", [], forest)), "ordinary-bom"))
    # every ordinary name once, with the boundary strings
    for name in ORDINARY + FORMATTING:
        t = E("h", "div", [], [E("h", name, [("0", None, "a", '<>&" \'')], [("T", "<>&\" '")]), ("T", "t")])
        cases.append((mk_tree("I", 1, 0, t), "ordinary"))
    for c in BOUNDARY:
        if c and "\r" not in c and "\0" not in c:
            t = E("h", "div", [], [E("h", "span", [("0", None, "a", c)], [("T", c)])])
            cases.append((mk_tree("I", 1, 0, t), "ordinary"))


DOCS = [
    "<!DOCTYPE html><p>a<svg><style>a&lt;b</style><script>x<y</script></svg><math><xmp>&lt;</xmp></math>",
    "<script>a<b</script><style>p>q{}</style><xmp><b></xmp><iframe><i></iframe><noembed>&</noembed>"
    "<noframes><</noframes><noscript><b>x&amp;y</b></noscript>",
    "<head><noscript><link><style>x</style></noscript></head><body><noscript>a&lt;b</noscript><plaintext>a<b&c",
    "<pre>\n\nx</pre><textarea>\n&lt;</textarea><listing>\nq</listing><br><img src='a\"b'><input value=&quot;>",
    "<table><tr><td>a&nbsp;b<col></table><select><option>a<optgroup><option>b</select>",
    "<template><p>a</template><svg><title><p>x</p></title><foreignObject><xmp>&lt;</xmp></foreignObject></svg>",
    "<math><mi>x</mi><annotation-xml encoding=text/html><style>a&lt;</style></annotation-xml><noscript>&lt;</noscript></math>",
    "<svg><script>a&lt;b</script><iframe>&amp;</iframe><noembed>&lt;</noembed><noframes>&gt;</noframes>"
    "<plaintext>&lt;</plaintext><xmp>&quot;&lt;</xmp></svg>",
    "<a href='?a=1&b=2¢ '>¢ é</a><!-- c --><?pi x?><![CDATA[x]]>",
    "<svg xlink:href=a xml:lang=b xmlns:xlink=c xmlns=http://www.w3.org/2000/svg><g/><![CDATA[a<b]]></svg>",
    "<frameset><frame><noframes>a<b</noframes></frameset>",
    "",
    "x",
]
SOUP = ["<", ">", "/", "a", "b", "p", "svg", "math", "style", "script", "xmp", "noscript", "title", "textarea",
        "br", "table", "td", "&lt;", "&amp;", "&", " ", "=", '"', "x", "¢", " ", "<!--", "-->", "</",
        "plaintext", "iframe", "noembed", "noframes", "desc", "foreignObject", "mi", "annotation-xml", "template",
        "select", "option", "pre", "\n"]


def gen_parsed(cases, rng, n_random):
    docs = list(DOCS)
    for _ in range(n_random):
        docs.append("".join(rng.choice(SOUP) for _ in range(rng.randint(1, 25))))
    plines = []
    for d in docs:
        for s in (0, 1):
            plines.append("ser\tparse\t%d\t%s" % (s, hx(d)))
    for l in plines:
        cases.append((l, "parse"))
    if not os.path.exists(vlib.HARNESS_BIN):
        return
    outs = vlib.run_impl(plines)
    for l, o in zip(plines, outs):
        if not o or ";tree=" not in o:
            continue
        tree = o.split(";tree=", 1)[1]
        for s in (0, 1):
            cases.append(("ser\ttree\tC\t%d\t0\t%s" % (s, tree), "parsed"))


def gen_cases(tier, rng):
    cases = []
    gen_escape(cases)
    gen_long_runs(cases, tier == "quick")
    gen_elements(cases)
    gen_scopes(cases)
    gen_attr_ns(cases)
    quick = tier == "quick"
    gen_ops(cases, rng, 400 if quick else 20000)
    gen_random(cases, rng, 2500 if quick else 150000)
    gen_ordinary(cases, rng, 1200 if quick else 60000)
    gen_parsed(cases, rng, 150 if quick else 5000)
    return cases


def neighbourhood(line):
    return []


def extra_evidence(check):
    return {
        "cfg_current": "lean/H5V/Model/HtmlSer.lean Cfg.current (defect switches of the model)",
        "oracles": ["bytes == python reference serialisation (character-level escape, namespace-aware parent)",
                    "io= inner/outer on the real code for every element of the case tree",
                    "rt= real parse_fragment(div) round trip for ordinary trees",
                    "alt= SerializableHandle vs a plain recursive Serialize impl"],
    }
