"""C04 — parsing is total: no panic, no hang, all input consumed, one EOF."""
from props import tokcommon as tc

PROP = "C04"
ENGINE = "tok+xmltok+total"
USES_TRANSLATOR = True
LEAN_TARGETS = ["H5V.Props.C04", "H5V.Props.C04Term", "H5V.Props.C04Xml", "H5V.Props.C04XmlTerm", "H5V.Props.C16", "H5V.Props.C04TB", "H5V.Props.C04TB2", "H5V.Props.C04Joint"]
AUDIT_IMPORTS = ["H5V.Props.C04", "H5V.Props.C04Term", "H5V.Props.C04Xml", "H5V.Props.C04XmlTerm", "H5V.Props.C16", "H5V.Props.C04TB2", "H5V.Props.C04Joint"]
THEOREMS = ["H5V.Props.C04." + t for t in [
    "C04_tok_initial_safe", "C04_tok_no_panic", "C04_tok_run_no_panic", "C04_tok_feed_drains", "C04_tok_eof_is_last",
    # termination (Props/C04Term.lean)
    "C04_tok_step_decreases", "C04_tok_step_keeps_invariant", "C04_tok_measure_below_fuel", "C04_tok_run_terminates",
    "C04_tok_run_terminates_fuelFor", "C04_tok_fuel_irrelevant", "C04_tok_fuelFor_is_enough", "C04_tok_initial_inv",
    "C04_tok_feed_terminates", "C04_tok_feed_keeps_invariant", "C04_tok_session_feed_terminates", "C04_tok_eof_loop_total",
    "C04_tok_suspend_drains", "C04_tok_finish_total", "C04_tok_finish_pause_witness",
    "C04_tok_finish_eof_last", "C04_tok_initial_quiet", "C04_tok_step_stops_quiet", "C04_tok_feed_stops_quiet",
    "C04_tok_end_run_never_pauses", "C04_tok_end_total", "C04_tok_session_end_total", "C04_tok_feed_end_total"]] + [
    "H5V.Model.HtmlTok." + t for t in ["step_safe", "crStep_safe", "entityLookup_valid", "numericValue_ok",
                                       "step_dec", "step_tinv", "transChar_base", "crStep_term", "lookup_runCh"]] + [
    # xml5ever tokenizer (Props/C04Xml.lean)
    "H5V.Props.C04X." + t for t in [
    "C04_xml_initial_safe", "C04_xml_no_panic", "C04_xml_run_no_panic", "C04_xml_runsTo_safe", "C04_xml_feed_no_panic",
    "C04_xml_session_no_panic", "C04_xml_feed_drains", "C04_xml_run_drains", "C04_xml_feed_fn_drains",
    "C04_xml_initial_good", "C04_xml_eof_loop_total", "C04_xml_finish_no_panic_partial", "C04_xml_eof_is_last",
    "C04_xml_finish_eof_is_last",
    # termination of the XML tokenizer loop, end() total (Props/C04XmlTerm.lean)
    "C04_xml_step_decreases", "C04_xml_step_keeps_invariant", "C04_xml_measure_below_fuel", "C04_xml_run_terminates",
    "C04_xml_run_terminates_fuelFor", "C04_xml_fuel_irrelevant", "C04_xml_fuelFor_is_enough", "C04_xml_initial_inv",
    "C04_xml_inv_safe", "C04_xml_feed_terminates", "C04_xml_feed_keeps_invariant", "C04_xml_feed_total",
    "C04_xml_session_terminates", "C04_xml_fresh_session_terminates", "C04_xml_suspend_drains", "C04_xml_finish_total",
    "C04_xml_parse_total"]] + ["H5V.Model.XmlTok." + t for t in ["step_safe", "crStep_safe", "step_dec", "step_tinv"]] + [
    # the XML tree builder model completes on every token list (no `expect` site reachable), Props/C16.lean
    "H5V.Props.C16.C16_no_panic", "H5V.Props.C16.C16_balance"] + [
    # the HTML tree builder model: no panic site of mod.rs / rules.rs is reachable, for every token list, option set,
    # document or fragment start (Props/C04TB.lean; the Text-mode unreachable!() only for token lists that break the
    # tokenizer protocol)
    "H5V.Props.C04TB." + t for t in [
    "C04_tb_inv_new", "C04_tb_no_panic_step", "C04_tb_no_panic_token", "C04_tb_no_panic_tokens", "C04_tb_no_panic",
    "C04_tb_no_panic_protocol", "C04_tb_no_panic_fragment", "C04_tb_no_panic_protocol_fragment", "C04_tb_total",
    "C04_tb_total_protocol", "C04_tb_end_total", "C04_tb_benign_not_panic", "C04_tb_benign_cases",
    "C04_tb_protocol_not_text", "respects_of_respectsB"]] + [
    # the fuel of the model's reprocess loop suffices; combined with C05TB: under the tokenizer protocol and TagsOk the only
    # failures left are the mirror op's own and the two encoding.rs messages (Props/C04TB2.lean)
    "H5V.Props.C04TB2." + t for t in [
    "C04_tb_ptc_fuel", "C04_tb_no_panic'", "C04_tb_no_panic_protocol'", "C04_tb_no_panic_fragment'",
    "C04_tb_no_panic_protocol_fragment'", "C04_tb_total_protocol'", "C04_tb_total'", "C04_tb_total_full'"]] + [
    "H5V.Props.C05TB.C05_tb_contract", "H5V.Props.C05TB.C05_tb_contract_fragment"] + [
    # Props/C04Joint.lean: TOTALITY OF THE JOINT PARSE (tokenizer model with the tree-builder model as its sink, driver loop,
    # Parser::finish): for every input, option set and chunking there is a budget N0 beyond which the outcome is fixed and is
    # either success or a failure of a mutating sink op / one of the two <meta> messages - no panic site of tokenizer,
    # character-reference tokenizer, tree builder or driver, no fuel or budget bound is ever hit
    "H5V.Props.C04J." + t for t in ["C04_joint_total_chunked_partial", "C04_joint_total_partial",
                                    "C04_joint_total_any_partial"]] + [
    "H5V.Props.C02.C02_parse_eq_spec_total_nohrun", "H5V.Props.C02.C02_parse_eq_spec_total_chunked_nohrun"]
TRUSTED = [
    "Lean 4 kernel; axioms ⊆ {propext, Classical.choice, Quot.sound} (audited per run)",
    "tokenizer model lean/H5V/Model/HtmlTok.lean: every assert!/unwrap/expect/panic!/index/from_u32 of tokenizer/mod.rs and "
    "char_ref/mod.rs is an explicit panic branch; tied to the Rust by the tok correspondence (a Rust panic is reported as PANIC)",
    "XML tokenizer model lean/H5V/Model/XmlTok.lean (xml5ever/src/tokenizer/{mod.rs,char_ref/mod.rs}), same convention, tied "
    "by the xmltok correspondence",
    "kernel-checked table facts regenerated from entities.rs (every named-reference value is a Unicode scalar value; every "
    "character of every name is alphanumeric or ';' — the latter bounds how often text can travel through name_buf)",
    "runtime part (not provable in a model): harness runs every case under catch_unwind; shards that abort or hang are "
    "bisected to the single case by tools/vlib.py (ABORT/timeout); 10^5-deep nesting and 10^5..10^6-character inputs",
]
ASSUMPTIONS = [
    "C04_partial: for the HTML tree builder model what remains open is the success of rcdom's option->selectedcontent mirror "
    "call (it is CALLED within its contract, but the contract alone does not exclude a template nested in its own contents: "
    "C05_mirror_needs_more_than_contract) and the UTF-8 validity of the slice encoding.rs cuts; composition of the token-level "
    "theorems with the tokenizer through the joint driver is by C03Joint's replay theorem, not restated here; "
    "they are exercised: no PANIC/ABORT/HANG on any case of any engine in this run, queue drained after every feed, "
    "exactly one EOF delivered last",
    "the sink is contract-abiding (RcDom / the recording sink of the harness)",
]
RULE = ("(1) every case of the HTML tokenizer cover (73 start states × 41 character classes × suffixes) whole and in "
        "one-character chunks, both exact_errors settings: no panic, queue drained, exactly one EOF as last token, model never "
        "out of fuel; (2) XML tokenizer stress strings whole/chunked; (3) `total` engine: documents, fragments (14 contexts) "
        "and XML with pathological depth/length (3·10^3 quick, 3·10^4..10^6 thorough: nested elements of every class — formatting, "
        "block, table parts, template, select, svg/math, unclosed comments, attribute floods, character-reference floods), "
        "every element name × every fragment context, adoption-agency / Noah's-ark / foster-parenting families rendered as "
        "documents and fragments, foreign elements with HTML-significant names above integration points, CDATA edge cases, "
        "random tag soup, "
        "under chunk sizes 0/1/7/4096 and option sets. non-trivial = input longer than 8 characters or started in a non-data "
        "state; distinct = distinct (case, output)")
EXPLANATION = ("HTML tokenizer model: no panic, termination within fuelFor (strictly decreasing measure), feed drains, end() total with EOF last; XML tokenizer model: the same; XML tree builder model total; HTML tree builder model: none of the 49 panic sites of mod.rs/rules.rs reachable (any tokens, documents and fragments); RcDom contract of tree-moving calls and real stack/time are exercised at runtime with a watchdog")

STRESS = ["<", "&", "&a", "&#", "&#x", "<!", "<!-", "<!--", "--", "<a ", "<a b=", "<a b='", "</", "<![CDATA[", "]]", "\r", "\r\n",
          "\0", "<script>", "</script", "<!DOCTYPE", " PUBLIC", "'", "\"", "=", "/", "&amp", "&notit;", "é", "\U0001F600", "<p>", "</p>"]

XML_EDGE = ["<doc><item>text</ITEM>", "<doc><item>text</ITEM></item></doc>", "<a><b></B></a>", "<A></a>", "<a><B/></b>",
            "<x:a xmlns:x='u'></X:a>", "<x:a xmlns:x='u'><x:b></x:B></x:a>", "<a></A><b/>", "<doc><item>t</Item></doc>x",
            "<a><b><c></B></A>", "<script></SCRIPT>x", "<a></a></a>", "</a>", "<a><b></a></b>", "<a xmlns='u'><b xmlns=''></B></a>",
            "<a><b></b></a></b>", "<a/></a>", "<a><!--c--></A><?p?>", "<é></É>", "<a></a ><b></B >"]
META_LABELS = ["utf-8", "utf-8é;", "é", "€uro", "utf-8\u00a0x", "x\u3000y", "\U0001f600;", "é\ty", "windows-1252é z", "\u00e9\u00e9;",
               "utf-8\u2028", "a\u0301;b", "", ";", "é;é;é"]

UNITS = {
    "div": "<div>", "b": "<b>", "a": "<a>", "p": "<p>x", "table": "<table>", "td": "<table><tr><td>", "template": "<template>",
    "select": "<select><option>", "svg": "<svg>", "math": "<math><mi>", "nobr": "<nobr>", "li": "<ul><li>", "dd": "<dd>",
    "button": "<button>", "font": "<font size=1>", "tbody": "<tbody>", "caption": "<table><caption>", "frameset": "<frameset>",
    "comment": "<!--", "attr": " a=b", "ref": "&amp;", "badref": "&ampx", "nul": "\0", "cr": "\r\n", "endb": "</b>", "enda": "</a>",
    "endp": "</p>", "misnest": "<b><i></b></i>", "aa": "<a><div>", "formtable": "<b><table>x", "head": "<head>", "html": "<html a=b>",
    "body": "<body c=d>", "script": "<script>x</script>", "style": "<style>", "textarea": "<textarea>", "plaintext": "<plaintext>",
    "cdata": "<svg><![CDATA[x]]>", "anno": "<math><annotation-xml encoding=text/html>", "fo": "<svg><foreignObject>",
    "option": "<option>", "optgroup": "<optgroup>", "hr": "<hr>", "br": "</br>", "h1": "<h1>", "form": "<form>", "ruby": "<ruby><rt>",
}
C14_EDGE = ["&", "&;", "&a", "&1", "&zz;", "&zz", "&foo;", "&foo", "&am", "&amp", "&ampa", "&amp=", "&notit;", "&noti", "& amp;", "&#",
            "&#;", "&#x", "&#x;", "&#xg", "&#0;", "&#x110000;", "&#xD800;", "&#12", "&x;", "&x1;", "&1x;", "&Aacute", "&Aacutex;"]
CTXS = ["html:div", "html:table", "html:tr", "html:td", "html:select", "html:template", "html:title", "html:textarea", "html:script",
        "html:style", "html:plaintext", "html:head", "html:html", "html:frameset", "svg:svg", "svg:foreignObject", "math:math",
        "math:annotation-xml", "html:body", "html:colgroup", "html:caption", "html:tbody"]


def _hx(s):
    return " ".join("%x" % ord(c) for c in s)


def gen_cases(tier, rng):
    cases = []
    # (1) tokenizer cover
    for line in tc.state_cover():
        f = tc.fields(line)
        s = f["chunks"][0]
        for exact in (0, 1):
            l0 = tc.with_opts(line, exact=exact, profile=0, bom=1)
            cases.append((l0, "tok"))
            if s and exact == 0:
                cases.append((tc.with_chunks(l0, tc.singletons(s)), "tok"))
    n = 300 if tier == "quick" else 5000
    for u in STRESS:
        for st in ("-", "RawData(Rcdata)", "RawData(ScriptData)", "CdataSection", "AttributeValue(Unquoted)", "Comment", "BogusDoctype"):
            cases.append((tc.case([u * n], state=st), "tok-long"))
            cases.append((tc.case([u] * min(n, 200), state=st), "tok-long"))
    # (2) xml tokenizer
    for u in STRESS + ["<?", "<?x ", "<a:b ", "<!ENTITY", "]>", "<a xmlns='u'>"]:
        for exact in (0, 1):
            cases.append(("xmltok\ttok\texact=%d,bom=1\t-\t%s" % (exact, _hx(u * n)), "xmltok"))
            cases.append(("xmltok\ttok\texact=%d,bom=1\t-\t%s" % (exact, "|".join(_hx(u) for _ in range(min(n, 100)))), "xmltok"))
            cases.append(("xmltok\ttree\texact=%d,bom=1\t%s" % (exact, _hx(u * n)), "xmltree"))
    # a sink that answers Script to every </script> (what the XML tree builder does), input cut at every prefix:
    # the pending tag is emitted at EOF and the EOF token must still follow it
    for doc in ["<a><script>x</script>y</a>", "<script></script>", "<a><script/></script></a>", "<a><script></script  >z",
                "<a><script b='c'></script b='d'>", "<script><script></script></script>"]:
        for k in range(len(doc) + 1):
            pre = doc[:k]
            for exact in (0, 1):
                cases.append(("xmltok\ttok\texact=%d,bom=1,script=1\t-\t%s" % (exact, _hx(pre)), "xmltok-script"))
                if pre:
                    cases.append(("xmltok\ttok\texact=%d,bom=1,script=1\t-\t%s" % (exact, "|".join(_hx(c) for c in pre)), "xmltok-script"))
    # every element name opened, closed and left open under every fragment context and as a document, through the
    # real tokenizer + tree builder + RcDom (`tb txt`: reports panics, EOF count, whether EOF was last)
    from props import tbcommon as tb
    names = tb.NAMES if isinstance(tb.NAMES, list) else tb.NAMES.split()
    ctxs = [None] + list(tb.CONTEXTS)
    for name in names:
        for text in ("<%s>x</%s>y" % (name, name), "</%s>x" % name, "a<%s>" % name, "<%s/></%s></%s>" % (name, name, name)):
            for ci, c in enumerate(ctxs):
                if tier == "quick" and c is not None and (ci + len(name)) % 3 and text[1] != "/":
                    continue   # quick: every context sees every end tag, a third of the rest
                cx = "-" if c is None else tb.ctx(c[0], c[1], c[2])
                cases.append((tb.case_txt([text], tb.opts(s=(ci % 2)), cx), "tb-total"))
    # the tree builder's hardest stack surgery as documents / fragments: adoption agency (depth × furthest block × markers),
    # Noah's ark, foster parenting, foreign elements with HTML-significant names above integration points, CDATA edges,
    # random tag soup (no panic, one EOF last; model/code compared by C02/C06 on the same families)
    from props import C02 as c02
    quick = tier == "quick"
    fam = tb.adoption_family(tier, rng) + tb.noahs_ark_family(tier) + tb.foster_family(tier, rng)
    for text, c in c02.rendered_family(fam):
        cx = "-" if c is None else tb.ctx(c[1], c[0])
        cases.append((tb.case_txt([text], tb.opts(s=len(text) % 2), cx), "tb-surgery"))
    fnt = tb.foreign_named_texts()
    for text, c in fnt[::(12 if quick else 2)]:
        cx = "-" if c is None else tb.ctx(c[1], c[0])
        cases.append((tb.case_txt([text], tb.opts(s=len(text) % 2), cx), "tb-foreign-named"))
    for text, c in tb.fix_families()[::(2 if quick else 1)]:
        cx = "-" if c is None else tb.ctx(c[1], c[0])
        cases.append((tb.case_txt([text], tb.opts(s=len(text) % 2), cx), "tb-fix-families"))
    for text, c in tb.deep_family(tier, big=True):
        cases.append((tb.case_txt([text], tb.opts(s=len(text) % 2)), "tb-deep"))
        if len(text) > 60000:
            cases.append((tb.case_txt([text], tb.opts(s=0, exact=1)), "tb-deep"))
            cases.append((tb.case_txt([text], tb.opts(s=0, exact=1, tx=1)), "tb-deep"))
    # a sink whose attach_declarative_shadow succeeds (sh=1): the template element is then only on the stack, never appended
    for host in ("<div>", "<body><p>", "<table><tr><td>", "<svg><foreignObject>", "<select>", "<div><template>", "<b><i>"):
        for mode in ("open", "closed", "OPEN", "x"):
            for inner in ("x", "<table></table>", "<table><tr><td>a", "<b>y</template>z", "<template shadowrootmode=open>q</template>r",
                          "</template><p>w", "<tr><td>c", "<script>s</script>", "a</div>b", "<col>", "<frameset>", "</b>t",
                          "<select><option>o", "<svg><g>h</template>k"):
                text = "%s<template shadowrootmode=%s>%s" % (host, mode, inner)
                for frag in (None, tb.ctx("div"), tb.ctx("template")):
                    cases.append((tb.case_txt([text], tb.opts(s=len(text) % 2) + ",sh=1", frag or "-"), "tb-shadow"))
    for text in tb.cdata_edge_texts()[::(3 if quick else 1)]:
        cases.append((tb.case_txt([text], tb.opts(s=0)), "tb-cdata"))
    for line, tag in tb.random_docs(rng, 3000 if quick else 80000):
        cases.append((line, "tb-random"))
    for s in C14_EDGE:
        for exact in (0, 1):
            for body in ("x" + s + "y", "<a b='" + s + "' c=" + s + ">"):
                cases.append((tc.case([body], exact=exact), "tok"))
    # (3) whole parsers on pathological inputs
    depth = 3000 if tier == "quick" else 30000
    for name, unit in UNITS.items():
        for kind in ["html"] + (CTXS if tier == "thorough" else CTXS[::4]):
            k = kind if kind == "html" else "frag:" + kind
            for opts in ("-", "s1,exact"):
                for size in (0, 1, 4096) if kind == "html" else (0,):
                    d = depth if size != 1 else depth // 10
                    cases.append(("total\t%s\t%s\t%d\t%d*%s" % (k, opts, size, d, _hx(unit)), "total"))
        cases.append(("total\txml\t-\t0\t%d*%s" % (depth, _hx(unit)), "total-xml"))
        cases.append(("total\txml\texact\t7\t%d*%s" % (depth // 10, _hx(unit)), "total-xml"))
    # small XML documents whose end tags match an open element only up to ASCII case / not at all / twice, and HTML
    # documents whose <meta> carries a charset label with multi-byte characters (encoding.rs slices the attribute value)
    for doc in XML_EDGE:
        for opts, size in (("-", 0), ("exact", 1), ("-", 3)):
            cases.append(("total\txml\t%s\t%d\t1*%s" % (opts, size, _hx(doc)), "total-xml-edge"))
    for label in META_LABELS:
        for tmpl in ("<meta http-equiv=content-type content='text/html; charset=%s'>x", "<meta charset='%s'>x",
                     "<meta http-equiv=Content-Type content=\"a;charset=%s ;b\"><p>", "<head><meta content='charset=%s;' http-equiv='content-type'>",
                     "<meta http-equiv=content-type content='\u0130stanbul; charset=%s'>", "<meta http-equiv=content-type content='\u0130charset%s'>",
                     "<meta http-equiv=content-type content='\u212a\u1e9e charset-=%s'>"):
            for size in (0, 1):
                cases.append(("total\thtml\t-\t%d\t1*%s" % (size, _hx(tmpl % label)), "total-meta"))
    # mixed: deep then misnested closers
    for a, b in (("b", "endb"), ("a", "enda"), ("p", "endp"), ("aa", "enda"), ("formtable", "endb"), ("td", "endp"), ("template", "endb")):
        cases.append(("total\thtml\t-\t0\t%d*%s|%d*%s" % (depth, _hx(UNITS[a]), depth, _hx(UNITS[b])), "total-mixed"))
        cases.append(("total\thtml\ts1\t5\t%d*%s|%d*%s" % (depth // 10, _hx(UNITS[a]), depth // 10, _hx(UNITS[b])), "total-mixed"))
    if tier == "thorough":
        cases.append(("total\thtml\t-\t0\t1000000*%s" % _hx("<b>"), "total-huge"))
        cases.append(("total\thtml\t-\t0\t1000000*%s" % _hx("x<!--"), "total-huge"))
        cases.append(("total\thtml\t-\t0\t300000*%s" % _hx("<table><td>"), "total-huge"))
    return cases


def compare(line, impl, model):
    return (not (line.startswith("tok\t") or line.startswith("xmltok\ttok"))) or impl == model


def oracle(line, out):
    if out is None or out.startswith(("PANIC", "ABORT", "HANG", "QUEUE-NOT-DRAINED", "bad-", "too-many", "unimplemented")):
        return "parser did not complete normally: %s" % (out or "")[:300]
    if line.startswith("tok\t"):
        p = tc.parse_out(out)
        if p is None:
            return "malformed output %s" % out[:200]
        toks = p[0]
        if sum(1 for k, b, l in toks if k == "EOF") != 1 or toks[-1][0] != "EOF":
            return "EOF is not delivered exactly once as the last token"
    elif line.startswith("xmltok\ttok"):
        if "EOF" not in out:
            return "xml tokenizer delivered no EOF: %s" % out[:200]
    elif line.startswith("tb\t"):
        if "@K=" not in out or not out.endswith("@K=1,1"):
            return "tree-building parse did not complete with exactly one EOF, last: %s" % out[-200:]
    elif line.startswith("total\t"):
        if not out.startswith("ok ") or "drained=1" not in out:
            return "input queue not drained after feed / parse not ok: %s" % out[:200]
    return None


def nontrivial(line, out):
    return out is not None and (len(line) > 60)
