"""C08 — diagnostic and housekeeping options never change what is parsed (tokenizer level)."""
import re
from props import tokcommon as tc
from props import tbcommon as tb

PROP = "C08"
ENGINE = "tok"
USES_TRANSLATOR = True
LEAN_TARGETS = ["H5V.Props.C08", "H5V.Props.C08Run"]
AUDIT_IMPORTS = ["H5V.Props.C08Run"]
THEOREMS = ["H5V.Props.C08." + t for t in [
    "C08_sets_match", "C08_sets_contain_breaks", "C08_simd_sets", "C08_fast_slow_same", "C08_unquoted_error_only",
    "C08_exact_reader", "C08_bom_off", "C08_bom_on",
    # whole-run independence of exact_errors (Props/C08Run.lean)
    "E_iff", "PolE.of_noErr", "polNone_PolE", "C08_step_optE", "C08_run_optE", "C08_feed_optE", "C08_finish_optE",
    "C08_session_optE", "C08_exact_errors_tokens", "C08_exact_errors_on_off"]] + [
    "H5V.Model.HtmlTok." + t for t in ["transChar_E0", "transSet_E0", "transEof_E0", "step_RE", "finish_E"]]
TRUSTED = [
    "Lean 4 kernel; axioms ⊆ {propext, Classical.choice, Quot.sound} (audited per run)",
    "tools/extract.py regenerates lean/H5V/Gen/TokSets.lean (every small_char_set! per state arm + the SIMD stop sets) "
    "from html5ever/src/tokenizer/mod.rs on every run; C08_sets_match ties it to the model's sets",
    "model lean/H5V/Model/HtmlTok.lean tied by the `tok` correspondence under every option combination of this run",
    "SSE2/NEON lane arithmetic is not modelled: the fast path is modelled as 'some run of non-stop characters'; its "
    "agreement with the scalar path is decided on the real code by the exact_errors on/off oracle (exact_errors "
    "forces the scalar path)",
]
ASSUMPTIONS = [
    "the sink does not look at parse errors (PolE: its answers depend on the token history only through the non-error "
    "tokens; true of the tree builder, whose ParseError arm only calls sink.parse_error) - hypothesis of "
    "C08_exact_errors_tokens",
    "tree-builder options (exact_errors, drop_doctype) and `profile`: decided by the option-flipping oracle on the real code",
    "the xml5ever twins of the tokenizer options are covered by C15",
]
RULE = ("every input of the tokenizer cover + boundary inputs + seeded soup, whole and under several chunkings, is run "
        "under all combinations of exact_errors × profile (× discard_bom where the input starts with U+FEFF or not); "
        "oracle (code vs code): token streams without parse errors are identical, profile changes nothing at all, "
        "discard_bom only removes a leading U+FEFF. non-trivial = the exact_errors run emits at least one parse error "
        "or the input contains a fast-path run; distinct = distinct (case, output)")
EXPLANATION = ("table-level theorems (fast path = slow path, sets regenerated from the source) + option-flipping oracle "
               "on the real code + model/code correspondence under all option combinations")

CP_DOC = ("a{c}b<a d=t{c}u e='{c}' f=\"{c}\" g{c}h><t{c}u></t{c}><!--{c}--><!DOCTYPE {c} PUBLIC '{c}' \"{c}\"><!{c}>"
          "<title>{c}&amp{c}</title><script>{c}<!--{c}<script>{c}</script>{c}--></script>&{c};&#{c};&#x{c}<plaintext>{c}")
LONG_RUNS = ["x" * 15 + "<", "x" * 16 + "&amp;", "x" * 17 + "\r\ny", "ab\ncd\nef\ngh\nij\nkl\nmn<p>", "é" * 9 + "\0" + "z" * 20,
             "\n" * 20 + "<a>", "a" * 31 + "\r", "a" * 32 + "\n<", "😀" * 5 + "&lt;" + "b" * 33]


def gen_cases(tier, rng):
    base = [l for l in tc.state_cover()]
    if tier == "thorough":
        base += tc.pair_cover()
    for s in LONG_RUNS:
        for st in ("-", "RawData(Rcdata)", "RawData(Rawtext)", "Plaintext", "AttributeValue(DoubleQuoted)", "AttributeValue(Unquoted)"):
            base.append(tc.case([s], state=st))
    for text, st in tc.bulk_inputs(tier):
        base.append(tc.case([text], state=st, last=tc.hx("s") if st != "-" else "~"))
    cp_lines = set()
    # (the full range is swept by C01 and C15 in the thorough tier; here every option set multiplies the cost)
    cps = tc.codepoints("quick")
    if tier == "thorough":
        cps = sorted(set(cps) | set(tc.codepoints("thorough")[::5]))
    for cp in cps:
        l = tc.case([CP_DOC.replace("{c}", chr(cp))], pol=tc.RAW_POL)
        base.append(l)
        if cp not in tc.SPECIAL_CPS and cp >= 0x100:
            cp_lines.add(l)      # one chunk / two halves only: one-character chunks of a 160-character document for the specials
    base += tc.random_soup(rng, 600 if tier == "quick" else 30000)
    crlf = tc.crlf_run_cover()
    base += crlf
    crlf_set = set(crlf)
    cases = []
    for line in base:
        f = tc.fields(line)
        s = f["chunks"][0]
        chunkings = [[s]]
        if s and (line in cp_lines or len(s) > 3000):
            # (one-character chunks of a 70 000-character input cost 70 000 feed calls per option set)
            chunkings.append([s[:len(s) // 2], s[len(s) // 2:]])
        elif s:
            chunkings.append(tc.singletons(s))
            if line in crlf_set:
                chunkings += tc.partitions2(s)[1:-1]
            elif len(s) > 1:
                chunkings.append([s[:len(s) // 2], s[len(s) // 2:]])
        for ch in chunkings:
            l0 = tc.with_chunks(line, ch)
            for exact in (0, 1):
                for profile in ((0, 1) if exact == 0 or tier == "thorough" else (0,)):
                    cases.append((tc.with_opts(l0, exact=exact, profile=profile, bom=1), "opts"))
    # tree-builder options: exact_errors and drop_doctype (text through the real tokenizer + tree builder, `tb txt`)
    for d in TREE_DOCS:
        for exact in (0, 1):
            for dropdt in (0, 1):
                for sc in (0, 1):
                    cases.append((tb.case_txt([d], tb.opts(s=sc, exact=exact, dropdt=dropdt)), "tb-opts"))
    # the tokenizer's exact_errors (tx) changes how text reaches the tree builder (one character per token): the tree
    # must not notice — text next to tables, in frameset/colgroup/select, leading white space of every mode
    for d in TEXT_DOCS:
        for tx in (0, 1):
            for exact in (0, 1):
                cases.append((tb.case_txt([d], tb.opts(s=0, exact=exact, tx=tx)), "tb-opts"))
    # discard_bom
    for s in ["﻿x", "﻿", "x﻿", "﻿﻿<a>", "<a>﻿", "", "x"]:
        for ch in ([s], tc.singletons(s)):
            for bom in (0, 1):
                cases.append((tc.case(ch, bom=bom), "bom"))
    return cases


DOCTYPES = ["", "<!DOCTYPE html>", "<!doctype HTML>", "<!DOCTYPE html SYSTEM 'about:legacy-compat'>", "<!DOCTYPE foo>", "<!DOCTYPE>",
            "<!DOCTYPE html PUBLIC '-//W3C//DTD HTML 4.01 Transitional//EN'>",
            "<!DOCTYPE html PUBLIC '-//W3C//DTD HTML 4.01 Transitional//EN' 'http://www.w3.org/TR/html4/loose.dtd'>",
            "<!DOCTYPE html PUBLIC '-//W3C//DTD XHTML 1.0 Frameset//EN' 'x'>", "<!DOCTYPE html PUBLIC '-//IETF//DTD HTML 2.0//EN'>",
            "<!DOCTYPE html PUBLIC 'HTML'>", "<!DOCTYPE html SYSTEM 'http://www.ibm.com/data/dtd/v11/ibmxhtml1-transitional.dtd'>",
            "<!DOCTYPE html PUBLIC '+//Silmaril//dtd html Pro v0r11 19970101//EN'>", " <!--c--> <!DOCTYPE html PUBLIC 'x'>"]
BODIES = ["", "x", "<p>a<table>b", "<table><td><p>c</td>d", "<!DOCTYPE a><p>", "<svg><b>x", "<frameset>", "<p><b><i></p>x</b>y", "\0<select>a"]
TREE_DOCS = [d + b for d in DOCTYPES for b in BODIES]
TEXT_DOCS = ["<table> a b<tr> c d <td> e f </td> g h </table> i j", "<table>  <tbody> x y <tr> z", "<table>a <caption> b c </caption> d",
             "<table><colgroup> a b <col> c", "<frameset> a b </frameset> c d", "<select> a b <option> c d </select> e",
             " a b <head> c d </head> e f <body> g h", "<html> a <head> b", "<head></head> a b", "<body></body> a b </html> c d",
             "<pre>\n a\n b</pre><textarea>\n\n c </textarea>", "<svg> a b <p> c d", "<template> a b <td> c d", "a\0b <table>\0 c\0</table>",
             "<p>a &amp; b<table> &lt; c &gt; </table>", "<table><tr> a&#32;b <td>", "<ruby> a <rt> b </ruby> c"]


def compare(line, impl, model):
    if line.startswith("tb\t"):
        return tb.compare(line, impl, model)
    return impl == model


def _tb_key(line):
    f = line.split("\t")
    o = dict(kv.split("=") for kv in f[2].split(","))
    return (o.get("s"), f[3], f[4])


def _tb_view(out):
    """tree without the doctype node, quirks mode, token-sink answers (the parse error count is what exact_errors may
    legitimately change only in wording, not in number — kept out of the view, compared separately)"""
    r = tb.parse_out(out)
    if r is None:
        return None
    d = re.sub(r"\(dt,[^()]*\)", "", r["D"])
    return d, r["R"]


def _key(line):
    f = tc.fields(line)
    return (f["state"], f["last"], f["pol"], f["inj"], tuple(f["chunks"]))


def oracle(line, out):
    if line.startswith("tb\t"):
        if tb.parse_out(out) is None:
            return "parser crashed or malformed output: %s" % (out or "")[:200]
        return None
    if tc.parse_out(out) is None:
        return "implementation crashed or malformed output: %s" % (out or "")[:200]
    return None


def oracle_all(cases, outs):
    groups = {}
    tbg = {}
    for (line, tag), out in zip(cases, outs):
        if tag == "tb-opts":
            tbg.setdefault(_tb_key(line), []).append((line, out))
        else:
            groups.setdefault((tag, _key(line)), []).append((line, out))
    res = []
    for key, items in tbg.items():
        ref = None
        for line, out in items:
            v = _tb_view(out)
            if v is None:
                continue
            o = dict(kv.split("=") for kv in line.split("\t")[2].split(","))
            has_dt = "(dt," in tb.parse_out(out)["D"]
            if o["dropdt"] == "1" and has_dt:
                res.append((line, "drop_doctype left a doctype node in the tree", out))
            if ref is None:
                ref = (line, v)
            elif v != ref[1]:
                res.append((line, "tree-builder options changed the parse (tree without doctype / quirks mode / answers): "
                                  "%s gives %s, %s gives %s" % (ref[0].split("\t")[2], ref[1][0][-200:], line.split("\t")[2], v[0][-200:]), out))
    for (tag, key), items in groups.items():
        if tag == "opts":
            ref = None
            by_exact = {}
            for line, out in items:
                p = tc.parse_out(out)
                if p is None:
                    continue
                toks = tc.drop_errors(p[0])
                o = dict(x.split("=") for x in tc.fields(line)["opts"].split(","))
                by_exact.setdefault(o["exact"], []).append((line, out))
                if ref is None:
                    ref = (line, toks)
                elif toks != ref[1]:
                    res.append((line, "tokens (parse errors dropped) differ between option settings: %s vs %s"
                                % (ref[0].split("\t")[1], line.split("\t")[1]), out))
            for ex, lst in by_exact.items():
                if len(set(o for _, o in lst)) > 1:
                    res.append((lst[0][0], "`profile` changed the output (errors included)", lst[0][1]))
        else:
            outs_by_bom = {tc.fields(l)["opts"]: (l, o) for l, o in items}
            on = [v for k, v in outs_by_bom.items() if "bom=1" in k]
            off = [v for k, v in outs_by_bom.items() if "bom=0" in k]
            if on and off:
                s = "".join(key[4])
                p_on, p_off = tc.parse_out(on[0][1]), tc.parse_out(off[0][1])
                if p_on and p_off:
                    txt_on = "".join(tc.unhx(b) for k, b, l in p_on[0] if k == "C")
                    txt_off = "".join(tc.unhx(b) for k, b, l in p_off[0] if k == "C")
                    exp_on = txt_off[1:] if s.startswith("﻿") else txt_off
                    if txt_on != exp_on:
                        res.append((on[0][0], "discard_bom changed more than a leading U+FEFF: on=%r off=%r" % (txt_on, txt_off), on[0][1]))
    return res


def nontrivial(line, out):
    if line.startswith("tb\t"):
        return out is not None and "(" in out
    return out is not None and ("E:" in out or len("".join(tc.fields(line)["chunks"])) >= 8)
