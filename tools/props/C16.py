"""C16 — XML namespaces resolve by lexical scope and lose no attribute."""
import itertools

from props import xmlcommon as X

PROP = "C16"
ENGINE = "xmltb"
LEAN_TARGETS = ["H5V.Props.C16", "H5V.Props.C16Xml"]
AUDIT_IMPORTS = ["H5V.Props.C16", "H5V.Props.C16Xml"]
THEOREMS = ["H5V.Props.C16." + t for t in [
    "C16_balance", "C16_no_panic", "C16_script_root_unbalanced",
    "C16_resolve_partial", "C16_resolve_fixed", "C16_witness_prefixed_xmlns", "C16_witness_dup_decl",
    "C16_attrs_sublist", "C16_attr_dropped_only_if", "C16_isDeclLike_is_decl", "C16_isDeclLike_fixed",
    "C16_tok_dropped_only_if_partial", "C16_tok_dropped_only_if_fixed", "C16_tok_no_dup_qname_fixed",
    "C16_witness_item14", "C16_witness_dup_decl_reversed",
    "C16_splitQName_split", "C16_splitQName_some", "C16_splitQName_none", "C16_resolve_source_fixed",
    # Props/C16Xml.lean: simulation between the tree-valued model and the HANDLE-LEVEL model (Model/XmlTBH.lean, tied to the
    # code by the literal sink-call trace `xmltb trace`): the create_element calls of the trace carry exactly the created
    # list of the tree-valued model, hence the lexical-scope resolver's names and attributes
    "bsim_iff", "bsim_new", "bsim_step", "bsim_step_total", "C16_xml_reach_bsim", "C16_xml_trace_created",
    "C16_xml_trace_created_tokens", "C16_xml_trace_created_of_run", "C16_xml_trace_resolve", "C16_xml_trace_resolve_pinned",
    "C16_xml_trace_resolve_source", "tagOk_finishTag_fixed"]]
TRUSTED = [
    "Lean 4 kernel; axioms ⊆ {propext, Classical.choice, Quot.sound} (audited per run)",
    "hand-written model lean/H5V/Model/XmlTB.lean of xml5ever/src/tree_builder/mod.rs (token level) and of the "
    "tokenizer's per-tag attribute step (finish_attribute, process_qname, qname.rs), tied by the `xmltb` "
    "correspondence (harness/src/engines/xmltb.rs vs h5vdriver) on the cases of this run",
    "lean/H5V/Spec/XmlNs.lean: my transcription of Namespaces-in-XML lexical scoping (S.resolve)",
    "the lexing of XML text into raw tags (names, attribute names/values in source order) is the xmltok package's "
    "subject; `src` cases tie it only on lexically simple generated documents",
    "RcDom as the sink (C20's subject); atoms modelled as strings",
]
ASSUMPTIONS = [
    "tokens reach the tree builder with ns = \"\" in every QualName (what the xml5ever tokenizer produces)",
    "tok-mode oracle: tags with two attributes of one qualified name are not judged (a tokenizer that removes "
    "duplicates never emits them — C16_tok_no_dup_qname_fixed; before /repo commit 7cefeea `xmlns:p` twice did get "
    "through, which src mode judges)",
    "spec choices where the property is silent: unbound or un-declared prefix ⇒ empty namespace (upstream reports a "
    "parse error); declarations with the xmlns URI as value or for the prefixes xml/xmlns have no effect; a "
    "declaration on an end tag is visible to that end tag's own name; any other prefix may be bound to the xml URI",
]
RULE = ("xmltb cases: (tok) token lists fed straight into XmlTreeBuilder, (src) XML text rendered from structurally "
        "generated raw token lists and parsed by the real tokenizer + tree builder. Families: cover-nest = all "
        "3-level nestings over (element prefix × declaration set × attribute set) alphabets × every way of closing "
        "(matching end tag, </>, end tag of an outer element = multi-pop, unmatched end tag, EOF) with probe "
        "elements after every close; cover-kinds = every tag-kind sequence of length ≤ 4 over {start, empty, end, "
        "short, <script>, <script/>, </script>} incl. declarations on end tags; cover-attrs = every ordered selection "
        "of ≤ 3 attributes from a 13-attribute alphabet (prefixed/unprefixed same local name, two prefixes bound to one "
        "URI, unbound prefix, declarations, duplicates, `p:xmlns`, attribute named like a declared prefix); random = seeded "
        "random token lists (tok: arbitrary tokens incl. doctype/NUL/PI/empty text/EOF in the middle). Oracle = "
        "independent Python lexical-scope resolver (tools/props/xmlcommon.py) on the generated structure: element "
        "names/namespaces/depth, attribute namespaces and order, and the drop clause (a missing attribute is a "
        "declaration or has an earlier attribute with the same expanded name). non-trivial = at least one element "
        "created; distinct = distinct (case, output)")
EXPLANATION = ("model configurations: TokCfg/TbCfg.current = fixed (= /repo since commits 7cefeea, c6f2538); the pre-fix "
               "behaviour stays provable as TokCfg.code / TbCfg.code (witness theorems). Theorems relate the model of the tree builder to the recursive scope resolver S.resolve for all token "
               "lists and prove the namespace-stack balance invariant and panic freedom by induction over token lists")

U, V, W = "urn:u", "urn:v", "urn:w"

# declaration sets (source order matters only for duplicates)
DECLS = [
    [],
    [("xmlns", U)],
    [("xmlns", "")],
    [("xmlns:p", U)],
    [("xmlns:p", V)],
    [("xmlns:p", "")],
    [("xmlns", V), ("xmlns:p", U), ("xmlns:q", U)],
    [("xmlns:q", W), ("xmlns", "")],
]
ATTRS = [
    [],
    [("x", "1")],
    [("p:x", "2"), ("q:x", "3")],
    [("x", "1"), ("p:x", "2"), ("xml:x", "4")],
]
PREFIXES = [None, "p", "q"]
PROBE = ("M", "t", [("p:y", "5"), ("q:z", "6")])
PROBE2 = ("M", "p:t", [])


def name(prefix, local):
    return local if prefix is None else prefix + ":" + local


def src_case(toks):
    toks = list(toks) + [("Z",)]
    return "xmltb\tsrc\t%s\t%s" % (X.hx(X.render(toks)), X.enc_list(toks, X.enc_raw_token))


def tok_case(toks):
    """raw token list -> `tok` case: names split here, attributes passed as they are (no tokenizer step)"""
    out = []
    for t in toks:
        if t[0] in "SMEH":
            out.append((t[0], X.split_qname(t[1]), [(X.split_qname(n), v) for n, v in t[2]]))
        else:
            out.append(t)
    return "xmltb\ttok\t" + X.enc_list(out, X.enc_split_token)


def gen_cover_nest(cases):
    lvl_full = [(p, d, a) for p in PREFIXES for d in DECLS for a in ATTRS]
    lvl_small = [(p, d, a) for p in (None, "p") for d in DECLS[:6] for a in (ATTRS[0], ATTRS[2])]

    def tag(kind, local, spec):
        p, d, a = spec
        return (kind, name(p, local), list(d) + list(a))

    # depth 2, full alphabet, all closers
    for l1 in lvl_full:
        for l2 in lvl_full:
            t1, t2 = tag("S", "a", l1), tag("S", "b", l2)
            for closer in ("E", "H", "Eouter", "Ebad", "EOF"):
                toks = [t1, t2, PROBE]
                if closer == "E":
                    toks += [("E", t2[1], []), PROBE, PROBE2, ("E", t1[1], []), ("C", "after")]
                elif closer == "H":
                    toks += [("H", "", []), PROBE, PROBE2, ("H", "", [])]
                elif closer == "Eouter":
                    toks += [("E", t1[1], []), PROBE]
                elif closer == "Ebad":
                    toks += [("E", "nosuch", []), PROBE, ("E", name("q", "b"), []), PROBE2]
                if closer in ("E", "Eouter") or (l1[2] == ATTRS[0] and l2[2] == ATTRS[0]):
                    cases.append((src_case(toks), "cover-nest"))
    # depth 3, reduced alphabet
    for l1 in lvl_small:
        for l2 in lvl_small:
            for l3 in lvl_small:
                t1, t2, t3 = tag("S", "a", l1), tag("S", "b", l2), tag("M", "c", l3)
                toks = [t1, t2, t3, PROBE, ("E", t2[1], []), PROBE, PROBE2, ("E", t1[1], [])]
                cases.append((src_case(toks), "cover-nest3"))
                t3s = tag("S", "c", l3)
                toks = [t1, t2, t3s, PROBE, ("E", t1[1], []), PROBE]
                cases.append((tok_case(toks), "cover-nest3"))


def gen_cover_case(cases):
    """end tags that match an open element only up to ASCII case - in the local name or in the prefix: XML names are
    case-sensitive, such a tag closes nothing (and must not pop anything)"""
    for d in DECLS[:6]:
        for p in PREFIXES:
            for l1, l2 in (("doc", "item"), ("a", "b"), ("A", "a"), ("script", "Script")):
                t1, t2 = ("S", name(p, l1), list(d)), ("S", name(p, l2), [])
                for wrong in (name(p, l2.upper()), name(p, l2.capitalize()), name(p, l2.swapcase()),
                              name(p.upper() if p else None, l2), name(p, l1.upper()), name(p, l1.swapcase())):
                    for tail in ([("E", t2[1], []), PROBE2, ("E", t1[1], []), ("C", "after")], [("T", "x")], []):
                        toks = [t1, t2, ("T", "text"), ("E", wrong, []), PROBE] + tail
                        cases.append((src_case(toks), "cover-case"))
                        cases.append((tok_case(toks), "cover-case"))


KINDS = ["S", "M", "E", "H", "Ss", "Ms", "Es", "Ed"]


def gen_cover_kinds(cases):
    uris = ["urn:1", "urn:2", "urn:3", "urn:4", "urn:5"]
    for n in range(1, 5):
        for seq in itertools.product(KINDS, repeat=n):
            for variant in (0, 1):
                toks = [("S", "r", [("xmlns:p", "urn:0")])] if variant else []
                depth_names = []
                for i, k in enumerate(seq):
                    decl = [("xmlns:p", uris[i]), ("xmlns", uris[i])] if variant == 0 else [("xmlns:p", uris[i])]
                    if k == "S":
                        toks.append(("S", "e%d" % i, decl)); depth_names.append("e%d" % i)
                    elif k == "M":
                        toks.append(("M", "m%d" % i, decl))
                    elif k == "Ss":
                        toks.append(("S", "script", decl)); depth_names.append("script")
                    elif k == "Ms":
                        toks.append(("M", "script", decl))
                    elif k == "Es":
                        toks.append(("E", "script", []))
                    elif k == "H":
                        toks.append(("H", "", []))
                        if depth_names:
                            depth_names.pop()
                    elif k == "E":
                        # close the outermost still-open generated element (multi-pop when nested deeper)
                        nm = depth_names[0] if depth_names else "zz"
                        toks.append(("E", nm, []))
                        depth_names = []
                    elif k == "Ed":
                        # end tag carrying declarations, naming the innermost element through a prefix
                        nm = depth_names[-1] if depth_names else "zz"
                        toks.append(("E", nm, [("xmlns:p", "urn:e"), ("xmlns", "urn:e")]))
                    toks.append(PROBE2)
                    toks.append(("M", "t", []))
                if "Ed" not in seq:   # the tokenizer skips everything after an end tag's name
                    cases.append((src_case(toks), "cover-kinds"))
                if n <= 3 or "Ed" in seq:
                    cases.append((tok_case(toks + [("Z",)]), "cover-kinds"))


ATTR_ALPHA = [
    ("x", "1"), ("p:x", "2"), ("q:x", "3"), ("r:x", "4"), ("x", "5"), ("p:x", "6"),
    ("xmlns:p", U), ("xmlns:q", U), ("xmlns:p", V), ("xmlns:p", ""), ("xmlns", W),
    ("p", "7"), ("q:xmlns", "8"),
]


def gen_cover_attrs(cases):
    outer = ("S", "o", [("xmlns:q", W), ("xmlns:r", "")])
    for n in (1, 2, 3):
        for sel in itertools.permutations(range(len(ATTR_ALPHA)), n):
            attrs = [ATTR_ALPHA[i] for i in sel]
            toks = [outer, ("S", "p:a", attrs), PROBE, ("E", "p:a", []), PROBE]
            cases.append((src_case(toks), "cover-attrs"))
            if n <= 2:
                cases.append((tok_case([("M", "a", attrs)]), "cover-attrs"))
                cases.append((src_case([("M", "a", attrs)]), "cover-attrs"))


def gen_cover_attr_case(cases):
    """attribute names (and namespace declarations) of one tag that differ only in ASCII case: they are different names"""
    pairs = [("id", "ID"), ("p:ref", "p:Ref"), ("xmlns:p", "xmlns:P"), ("xmlns", "XMLNS"), ("x", "X"), ("p:x", "P:x"),
             ("xml:lang", "xml:LANG"), ("xmlns:q", "XMLNS:q"), ("Xmlns:p", "xmlns:p")]
    for a, b in pairs:
        for first, second in ((a, b), (b, a)):
            for va, vb in ((U, V), (U, U), ("", V)):
                attrs = [(first, va), (second, vb)]
                for outer_decl in ([], [("xmlns:p", W), ("xmlns:P", U)]):
                    toks = [("S", "o", outer_decl), ("S", "a", attrs), ("M", "p:b", []), ("M", "P:c", [("p:y", "1"), ("P:y", "2")]),
                            ("E", "a", []), PROBE]
                    cases.append((src_case(toks), "cover-attr-case"))
                    cases.append((src_case([("M", "a", attrs)]), "cover-attr-case"))


def rand_name(rng, locals_):
    p = rng.choice([None, None, None, "p", "q", "r", "xml", "xmlns"])
    return name(p, rng.choice(locals_))


def rand_attrs(rng):
    out = []
    for _ in range(rng.choice([0, 0, 1, 1, 2, 3, 4])):
        r = rng.random()
        if r < 0.45:
            pre = rng.choice(["", "", ":p", ":q", ":r", ":xml", ":xmlns"])
            out.append(("xmlns" + pre, rng.choice([U, V, W, "", "", X.XML_URI, X.XMLNS_URI])))
        else:
            out.append((rand_name(rng, ["x", "y", "p", "xmlns"]), rng.choice(["1", "2", ""])))
    return out


def gen_random(cases, rng, n):
    for i in range(n):
        toks = []
        opened = []
        for _ in range(rng.randint(1, 9)):
            r = rng.random()
            if r < 0.35:
                nm = rand_name(rng, ["a", "b", "script"])
                toks.append(("S", nm, rand_attrs(rng))); opened.append(nm)
            elif r < 0.55:
                toks.append(("M", rand_name(rng, ["a", "b", "script"]), rand_attrs(rng)))
            elif r < 0.75:
                nm = rng.choice(opened) if opened and rng.random() < 0.8 else rand_name(rng, ["a", "b", "script"])
                toks.append(("E", nm, rand_attrs(rng) if rng.random() < 0.15 else []))
            elif r < 0.82:
                toks.append(("H", "", []))
            elif r < 0.90:
                toks.append(("T", rng.choice(["x", " ", "xy"])))
            elif r < 0.95:
                toks.append(("C", "c"))
            else:
                toks.append(("P", "pi", "d"))
        if i % 2 == 0:
            # text before the root is split differently by the tokenizer (several error reports): keep `src`
            # documents starting with a tag
            while toks and toks[0][0] == "T":
                toks.pop(0)
            # adjacent text tokens cannot be rendered distinguishably; merge
            merged = []
            for t in toks:
                if t[0] == "T" and merged and merged[-1][0] == "T":
                    merged[-1] = ("T", merged[-1][1] + t[1])
                else:
                    merged.append(t)
            # whitespace-only text after the root would be merged with following text by the lexer: fine
            merged = [(t[0], t[1], []) if t[0] == "E" else t for t in merged]
            cases.append((src_case(merged), "random-src"))
        else:
            extra = []
            for t in toks:
                extra.append(t)
                r = rng.random()
                if r < 0.04:
                    extra.append(("N",))
                elif r < 0.08:
                    extra.append(("Z",))
                elif r < 0.12:
                    extra.append(("D", rng.choice([None, "d"]), None, rng.choice([None, "s"])))
                elif r < 0.15:
                    extra.append(("T", ""))
            cases.append((tok_case(extra), "random-tok"))


def wide_token_lists():
    """size only: tags with 17..40 attributes (hash-set / small-sort / inline-capacity thresholds in attribute handling):
    two wide tags sharing their names, a real duplicate beyond position 17, same-named attributes under two prefixes of one
    namespace, a declaration after ordinary attributes"""
    out = []
    for n in (16, 17, 18, 19, 20, 21, 22, 24, 33, 40):
        names = ["a%d" % i for i in range(n)]
        a1 = [(x, "1") for x in names]
        a2 = [(x, "2") for x in reversed(names)]
        for dups in ([("a0", "dup"), ("a%d" % (n - 1), "dup2")], []):
          out.append([("S", "r", [("xmlns:p", "urn:p"), ("xmlns:q", "urn:p")]), ("M", "first", a1),
                    ("M", "second", a2 + dups),
                    ("M", "third", a1[:n - 1] + [("p:dup", "first"), ("q:dup", "second"), ("xmlns:z", "urn:z"), ("z:k", "v"),
                                                 ("xmlns", "urn:d")]),
                    ("S", "fourth", [("x", "0")] + [("xmlns:n%d" % i, "urn:n%d" % i) for i in range(n)] + [("n1:y", "1"), ("n%d:y" % (n - 1), "2")]),
                    ("E", "fourth", []), ("E", "r", [])])
    return out


def gen_cover_wide(cases):
    for toks in wide_token_lists():
        cases.append((src_case(toks), "wide"))
        cases.append((tok_case(toks), "wide"))


def gen_cases(tier, rng):
    cases = []
    gen_cover_wide(cases)
    gen_cover_attrs(cases)
    gen_cover_kinds(cases)
    gen_cover_nest(cases)
    gen_cover_case(cases)
    gen_cover_attr_case(cases)
    gen_random(cases, rng, 4000 if tier == "quick" else 400000)
    return cases


# ---------------------------------------------------------------- oracle

def tokens_of(line):
    f = line.split("\t")
    if f[1] == "tok":
        return X.dec_tokens(f[2], raw=False)
    return [t[:3] for t in X.dec_tokens(f[3], raw=True)]


FAM_ITEM14 = "[item 14] attribute dropped: its raw name equals the LOCAL part of an earlier attribute (tokenizer duplicate test) — "
FAM_PXMLNS = "[p:xmlns] attribute dropped: a prefixed attribute with local name xmlns is taken for a declaration — "
FAM_DUPDECL = "[item 14 / duplicate declaration] a prefix declared twice in one tag: the later declaration wins — "
FAM_DECLLOST = "[item 14 / declaration lost] xmlns declaration dropped as a duplicate of an earlier p:xmlns attribute — "
FAM_OTHER_NS = "[namespace] "
FAM_OTHER_ATTR = "[attribute] "


def has_dup_qname(toks):
    for t in toks:
        if t[0] in "SME":
            names = [n for n, _ in t[2]]
            if len(set(names)) != len(names):
                return True
    return False


def ns_family(toks):
    for t in toks:
        if t[0] in "SME":
            keys = [X.decl_of(n, v) for n, v in t[2] if X.is_decl(n)]
            raw = [n for n, v in t[2] if X.is_decl(n)]
            if len(set(raw)) != len(raw):
                return FAM_DUPDECL
            seen_local_xmlns = False
            for n, v in t[2]:
                if n == (None, "xmlns") and seen_local_xmlns:
                    return FAM_DECLLOST
                if n[1] == "xmlns" and n[0] is not None:
                    seen_local_xmlns = True
    return FAM_OTHER_NS


def oracle(line, out):
    if out is None or out.startswith("PANIC") or out.startswith("ABORT"):
        return "implementation crashed: %s" % out
    if out.startswith("bad-"):
        return "harness rejected the case: %s" % out
    mode = line.split("\t")[1]
    toks = tokens_of(line)
    if mode == "tok" and has_dup_qname(toks):
        # a tag with two attributes of one qualified name cannot come out of a tokenizer that removes
        # duplicates; fed directly it is outside the statement (see ASSUMPTIONS)
        return None
    want = X.resolve(toks)
    if "tree" not in X.parse_out(out):
        return "malformed harness output: %s" % out[:200]
    got = list(X.preorder(X.parse_dump(X.parse_out(out)["tree"])))
    if len(got) != len(want):
        return ns_family(toks) + "number of created elements: got %d want %d" % (len(got), len(want))
    for i, ((gd, ge), (wd, wn, wattrs)) in enumerate(zip(got, want)):
        gn = (ge.prefix, ge.ns, ge.local)
        if gn != wn:
            return ns_family(toks) + "element #%d is %s, lexical scoping gives %s" % (i, X.show_name(gn), X.show_name(wn))
        if gd != wd:
            return ns_family(toks) + "element #%d %s at depth %d, want %d" % (i, X.show_name(gn), gd, wd)
        # attributes: kept ones = subsequence of the resolved non-declaration attributes
        cand = [(n, v) for n, v, isdecl in wattrs if not isdecl]
        j = 0
        kept_idx = []
        for ga in ge.attrs:
            while j < len(cand) and cand[j] != ga:
                j += 1
            if j == len(cand):
                return ns_family(toks) + "element #%d %s carries %s=%r, resolved attributes are %s" % (
                    i, X.show_name(gn), X.show_name(ga[0]), ga[1], [(X.show_name(n), v) for n, v in cand])
            kept_idx.append(j)
            j += 1
        # drop clause: a missing attribute needs an earlier attribute of the tag with the same expanded name
        allattrs = [(n, v) for n, v, _ in wattrs]
        nondecl_pos = [k for k, (_, _, isdecl) in enumerate(wattrs) if not isdecl]
        for ci, (n, v) in enumerate(cand):
            if ci in kept_idx:
                continue
            pos = nondecl_pos[ci]
            if not any(m[1:] == n[1:] for m, _ in allattrs[:pos]):
                if n[2] == "xmlns" and n[0] is not None:
                    fam = FAM_PXMLNS
                elif mode == "src" and any(m[2] == (n[2] if n[0] is None else n[0] + ":" + n[2]) for m, _ in allattrs[:pos]):
                    fam = FAM_ITEM14
                elif ns_family(toks) != FAM_OTHER_NS:
                    fam = ns_family(toks)
                else:
                    fam = FAM_OTHER_ATTR
                return fam + "element #%d %s lost %s=%r although no earlier attribute has that expanded name" % (
                    i, X.show_name(gn), X.show_name(n), v)
    return None


def nontrivial(line, out):
    return out is not None and "e[" in out


def compare(line, a, b):
    if a is not None and b is not None and a.startswith("PANIC") and b.startswith("PANIC"):
        return True
    return a == b


def _detail_starts(prefix):
    return lambda f: (f.detail or "").startswith(prefix)


# ids the main session may enter into known_findings.json (kind "known") until the fixes land
KNOWN_MATCHERS = {
    "F14-attr-dropped": _detail_starts("[item 14] "),
    "F14-dup-decl": _detail_starts("[item 14 / duplicate declaration]"),
    "F14-decl-lost": _detail_starts("[item 14 / declaration lost]"),
    "F16-pxmlns": _detail_starts("[p:xmlns]"),
}
