"""C20 — RcDom materialises sink operations faithfully.

engine `rcdom` (protocol: lean/H5V/Model/DomDriver.lean, harness/src/engines/rcdom.rs).
The oracle is an independent reference DOM written in Python at the level of the *property* (ordered
trees with text merging, attribute merging, template contents, re-parenting, the standard's
"maybe clone an option into selectedcontent"); it recomputes the expected result line of every
contract-abiding case and also checks parent-link consistency and serializer visit order directly on
the implementation's dump.

Two defects of rcdom/lib.rs were found by this check on the pinned tree and are repaired in /repo
(ebdbd68 selectedcontent mirroring, 394a5e0 append_before_sibling detaches first) exactly as
PROPOSED_PATCH below (kept for the record); their minimal cases stay in corpus/C20/ as regression
corpus, KNOWN_MATCHERS name them.  The model follows the repaired code
(`cloneVariant = .fixed`, `beforeSiblingVariant = .detachFirst` in lean/H5V/Model/Dom.lean); the
pinned behaviour is kept there as the explicitly named variants `.asCode`, with witness theorems.
"""
import os
import sys

PROPOSED_PATCH = r'''
--- a/rcdom/lib.rs
+++ b/rcdom/lib.rs
@@ -195,20 +195,16 @@
 
         // Step 2. Let selectedcontent be the first selectedcontent element descendant of select in tree order
         // if any such element exists; otherwise return null.
-        // FIXME: This does not visit the nodes in tree order
-        let mut remaining = VecDeque::default();
-        remaining.extend(self.children.borrow().iter().cloned());
+        let mut remaining: Vec<Rc<Self>> = self.children.borrow().iter().rev().cloned().collect();
         let mut selectedcontent = None;
-        while let Some(node) = remaining.pop_front() {
-            remaining.extend(node.children.borrow().iter().cloned());
-
-            let NodeData::Element { name, .. } = &self.data else {
-                continue;
-            };
-            if name.local_name() == &local_name!("selectedcontent") {
-                selectedcontent = Some(node);
-                break;
+        while let Some(node) = remaining.pop() {
+            if let NodeData::Element { name, .. } = &node.data {
+                if name.local_name() == &local_name!("selectedcontent") {
+                    selectedcontent = Some(node);
+                    break;
+                }
             }
+            remaining.extend(node.children.borrow().iter().rev().cloned());
         }
         let selectedcontent = selectedcontent?;
 
@@ -235,6 +231,12 @@
         }
 
         // Step 3. Replace all with documentFragment within selectedcontent.
+        for old_child in selectedcontent.children.borrow().iter() {
+            old_child.parent.set(None);
+        }
+        for child_clone in &document_fragment {
+            child_clone.parent.set(Some(Rc::downgrade(&selectedcontent)));
+        }
         *selectedcontent.children.borrow_mut() = document_fragment;
     }
 
@@ -243,17 +245,36 @@
     /// This function will run into infinite recursion when the DOM tree contains cycles and it makes
     /// no attempts to guard against that.
     fn clone_with_subtree(&self) -> Rc<Self> {
-        let children = self
-            .children
-            .borrow()
-            .iter()
-            .map(|child| child.clone_with_subtree())
-            .collect();
-        Rc::new(Self {
-            parent: Cell::new(self.parent()),
-            data: self.data.clone(),
-            children: RefCell::new(children),
-        })
+        let data = match &self.data {
+            NodeData::Element {
+                name,
+                attrs,
+                template_contents,
+                mathml_annotation_xml_integration_point,
+            } => NodeData::Element {
+                name: name.clone(),
+                attrs: attrs.clone(),
+                template_contents: RefCell::new(
+                    template_contents
+                        .borrow()
+                        .as_ref()
+                        .map(|contents| contents.clone_with_subtree()),
+                ),
+                mathml_annotation_xml_integration_point: *mathml_annotation_xml_integration_point,
+            },
+            other => other.clone(),
+        };
+        let clone = Rc::new(Self {
+            parent: Cell::new(None),
+            data,
+            children: RefCell::new(Vec::new()),
+        });
+        for child in self.children.borrow().iter() {
+            let child_clone = child.clone_with_subtree();
+            child_clone.parent.set(Some(Rc::downgrade(&clone)));
+            clone.children.borrow_mut().push(child_clone);
+        }
+        clone
     }
 }
 
@@ -447,6 +468,10 @@
     }
 
     fn append_before_sibling(&self, sibling: &Handle, child: NodeOrText<Handle>) {
+        // Detach first: the index of `sibling` must be taken after the removal.
+        if let NodeOrText::AppendNode(node) = &child {
+            remove_from_parent(node);
+        }
         let (parent, i) = get_parent_and_index(sibling)
             .expect("append_before_sibling called on node without parent");
 
'''

PROP = "C20"
ENGINE = "rcdom"
LEAN_TARGETS = ["H5V.Props.C20", "H5V.Props.C20Deep"]
AUDIT_IMPORTS = ["H5V.Props.C20Deep"]
THEOREMS = ["H5V.Props.C20." + t for t in [
    "C20_parent_links_step", "C20_parent_links", "C20_reachable_inv", "C20_isAncOrSelf_iff",
    "C20_text_merge_append", "C20_text_merge_before_sibling", "C20_no_adjacent_text_append",
    "C20_no_adjacent_text_before_sibling", "C20_no_adjacent_text_step", "C20_remove_breaks_adjacency_iff", "C20_reparent_breaks_adjacency_iff",
    "C20_attrs", "C20_attrs_no_overwrite", "C20_reparent", "C20_remove_from_parent", "C20_template_contents",
    "C20_before_sibling_position", "C20_before_sibling_position_partial", "C20_witness_before_sibling",
    "C20_clone_option_partial", "C20_clone_option_nothing", "C20_clone_option_fixed_example",
    "C20_clone_asCode_noop", "C20_clone_option_pinned_partial", "C20_witness_clone_option",
    "C20_serialize_preorder", "C20_serialize_each_node_once",
    # deep copies (Props/C20Deep.lean): the mirrored children are isomorphic fresh subtrees, template contents not shared
    "C20_copy_ids_fresh", "C20_clone_subtree_deep", "C20_clone_template_not_shared", "C20_clone_option",
    "C20_clone_option_ids_fresh", "C20_tcValid_step", "C20_reachable_tcValid", "C20_clone_option_reachable",
    "C05_mirror_inv_preserved", "C05_mirror_needs_more_than_contract",
]]
TRUSTED = [
    "Lean 4 kernel; axioms ⊆ {propext, Classical.choice, Quot.sound} (audited per run)",
    "hand-written model lean/H5V/Model/Dom.lean of rcdom/lib.rs (TreeSink impl, option cloning helpers, Serialize impl), "
    "tied by the `rcdom` correspondence (harness/src/engines/rcdom.rs vs h5vdriver) on the cases of this run",
    "Rc/Weak lifetime is not modelled: the arena keeps every node, the engine keeps every handle alive "
    "(Drop for Node, dangling Weak parents are outside the model)",
    "the Python reference DOM of tools/props/C20.py (oracle) and the Rust shadow structure of harness/src/sinkops.rs "
    "(contract monitor) are cross-checked against the Lean `Contract`/`Dom.apply` on every case",
]
ASSUMPTIONS = [
    "op sequences satisfy the TreeSink contract (`H5V.Model.Dom.Contract`, the subject of C05); calls outside it are "
    "compared model-vs-code only (separate family), not judged by the oracle",
    "an option's selectedness is taken to be the presence of a `selected` attribute and a selectedcontent is never "
    "`disabled` (the simplifications rcdom itself documents)",
]
RULE = ("TreeSink call traces replayed on RcDom (through the trait, under the contract monitor) and on the model: "
        "(cover) valid 12-handle base tree × every op × every handle combination (all node kinds, attached/detached), "
        "contract-violating combinations in family `violating` (model = code only); text-merge / attribute / reparent / "
        "remove / template / select-option-selectedcontent shape families; (harvest) traces of the real HTML and XML "
        "parsers over generated inputs (tables→foster parenting, formatting→adoption agency, templates, selects, "
        "duplicate html/body, fragments, random chunking); (random) seeded contract-abiding op sequences built against "
        "a shadow model. non-trivial = dump has ≥ 3 nodes; distinct = distinct (case, output)")
EXPLANATION = ("theorems: every sink op preserves parent-link consistency + acyclicity for all well-formed arenas and "
               "contract-abiding calls (lifted to all op sequences), text merging, attribute merging, reparenting, "
               "template contents, removal, option cloning (invariant + top-level copy; pinned-tree witnesses), "
               "append_before_sibling position, serializer order = preorder, each node once")
SHARD_TIMEOUT = 600

ROOT = os.path.dirname(os.path.dirname(os.path.dirname(os.path.abspath(__file__))))
HTML = "http://www.w3.org/1999/xhtml"
SVG = "http://www.w3.org/2000/svg"
MATHML = "http://www.w3.org/1998/Math/MathML"


# ----------------------------------------------------------------------------- encoding

def hx(s):
    return " ".join("%x" % ord(c) for c in s) if s else "-"


def unhx(s):
    s = s.strip()
    return "" if s in ("-", "") else "".join(chr(int(x, 16)) for x in s.split(" "))


def qn(local, ns=HTML, prefix=None):
    return "%s/%s/%s" % ("~" if prefix is None else hx(prefix), hx(ns), hx(local))


def attrs(lst):
    """lst of (local, value) or (local, value, ns, prefix)"""
    if not lst:
        return "-"
    out = []
    for a in lst:
        local, value = a[0], a[1]
        ns = a[2] if len(a) > 2 else ""
        pf = a[3] if len(a) > 3 else None
        out.append("%s=%s" % (qn(local, ns, pf), hx(value)))
    return "&".join(out)


def ce(local, at=(), flags="-", ns=HTML):
    return "ce,%s,%s,%s" % (qn(local, ns), flags, attrs(list(at)))


def mk(ops):
    return "rcdom\tops\t" + (";".join(ops) if ops else "-")


def parse_qn(s):
    p, ns, loc = s.split("/")
    return (None if p == "~" else unhx(p), unhx(ns), unhx(loc))


def parse_attrs(s):
    if s == "-":
        return []
    out = []
    for a in s.split("&"):
        q, v = a.split("=")
        out.append((parse_qn(q), unhx(v)))
    return out


def show_qn(q):
    return "%s/%s/%s" % ("~" if q[0] is None else hx(q[0]), hx(q[1]), hx(q[2]))


def show_attrs(lst):
    return "&".join("%s=%s" % (show_qn(q), hx(v)) for q, v in lst) if lst else "-"


# ----------------------------------------------------------------------------- reference DOM

class RNode:
    __slots__ = ("kind", "a", "b", "c", "attrs", "tc", "ip", "parent", "children")

    def __init__(self, kind, a=None, b=None, c=None):
        self.kind, self.a, self.b, self.c = kind, a, b, c
        self.attrs, self.tc, self.ip = [], None, False
        self.parent, self.children = None, []

    def data_str(self):
        k = self.kind
        if k == "doc":
            return "doc"
        if k == "dt":
            return "dt,%s,%s,%s" % (hx(self.a), hx(self.b), hx(self.c))
        if k == "tx":
            return "tx," + hx(self.a)
        if k == "cm":
            return "cm," + hx(self.a)
        if k == "el":
            return "el,%s,%s,%s" % (show_qn(self.a), show_attrs(self.attrs), "m" if self.ip else "-")
        return "pi,%s,%s" % (hx(self.a), hx(self.b))


class ContractViolation(Exception):
    pass


class Ref:
    """the abstract DOM the property talks about.  mc_mode: 'spec' (the standard) | 'noop';
    abs_mode: 'spec' (insert immediately before the sibling) | 'code' (rcdom's stale index)."""

    def __init__(self, mc_mode="spec", abs_mode="spec"):
        self.doc = RNode("doc")
        self.handles = [self.doc]
        self.quirks = "no"
        self.errors = []
        self.mc_mode, self.abs_mode = mc_mode, abs_mode

    # -- contract (mirror of H5V.Model.Dom.contractOk, written from the trait documentation)
    @staticmethod
    def container(n):
        return n.kind in ("doc", "el")

    @staticmethod
    def insertable(n):
        return n.kind in ("el", "cm", "pi")

    @staticmethod
    def anc_or_self(a, x):
        seen = 0
        while x is not None and seen < 100000:
            if x is a:
                return True
            x = x.parent
            seen += 1
        return False

    @staticmethod
    def names_nodup(at):
        # expanded name (namespace, local); in no namespace the (unresolved) prefix is kept
        names = [((q[0], "", q[2]) if q[1] == "" else (None, q[1], q[2])) for q, _ in at]
        return len(names) == len(set(names))

    def child_ok(self, newp, parentless, child):
        if not isinstance(child, RNode):
            return True
        return (self.insertable(child) and (not parentless or child.parent is None)
                and not self.anc_or_self(child, newp))

    def ok_append(self, p, child):
        return self.container(p) and self.child_ok(p, True, child)

    def ok_abs(self, sib, child):
        if not self.insertable(sib) or sib.parent is None:
            return False
        return self.container(sib.parent) and self.child_ok(sib.parent, False, child) and child is not sib

    # -- helpers
    def H(self, s):
        return self.handles[int(s)]

    def child(self, s):
        return self.H(s[1:]) if s[0] == "n" else unhx(s[1:])

    def hnum(self, n):
        for k, h in enumerate(self.handles):
            if h is n:
                return "h%d" % k
        return "h?"

    def do_append(self, p, child):
        if isinstance(child, RNode):
            child.parent = p
            p.children.append(child)
        elif p.children and p.children[-1].kind == "tx":
            p.children[-1].a += child
        else:
            t = RNode("tx", child)
            t.parent = p
            p.children.append(t)

    def do_abs(self, sib, child):
        p = sib.parent
        if isinstance(child, RNode):
            stale = p.children.index(sib)
            if child.parent is not None:
                child.parent.children.remove(child)
                child.parent = None
            i = stale if self.abs_mode == "code" else p.children.index(sib)
            child.parent = p
            p.children.insert(i, child)
        else:
            i = p.children.index(sib)
            if i > 0 and p.children[i - 1].kind == "tx":
                p.children[i - 1].a += child
            else:
                t = RNode("tx", child)
                t.parent = p
                p.children.insert(i, t)

    def clone(self, n, parent):
        c = RNode(n.kind, n.a, n.b, n.c)
        c.attrs, c.ip, c.parent = list(n.attrs), n.ip, parent
        c.children = [self.clone(k, c) for k in n.children]
        if n.tc is not None:
            c.tc = self.clone(n.tc, None)
        return c

    def do_mc(self, option):
        if self.mc_mode == "noop":
            return
        # option element nearest ancestor select
        seen_optgroup = False
        cur, select = option.parent, None
        while cur is not None:
            if cur.kind == "el":
                loc = cur.a[2]
                if loc in ("datalist", "hr", "option"):
                    return
                if loc == "optgroup":
                    if seen_optgroup:
                        return
                    seen_optgroup = True
                if loc == "select":
                    select = cur
                    break
            cur = cur.parent
        if select is None:
            return
        if not any(q[2] == "selected" for q, _ in option.attrs):
            return
        if any(q[2] == "multiple" for q, _ in select.attrs):
            return
        # first selectedcontent descendant in tree order
        sc = None
        stack = list(reversed(select.children))
        while stack:
            n = stack.pop()
            if n.kind == "el" and n.a[2] == "selectedcontent":
                sc = n
                break
            stack.extend(reversed(n.children))
        if sc is None:
            return
        frag = [self.clone(k, sc) for k in option.children]
        for old in sc.children:
            old.parent = None
        sc.children = frag

    def apply(self, op):
        """returns the output token; raises ContractViolation when the call is outside the contract"""
        f = op.split(",")
        o = f[0]

        def need(c):
            if not c:
                raise ContractViolation(op)

        if o == "pe":
            self.errors.append(unhx(f[1]))
            return "ok"
        if o == "doc":
            return "h0"
        if o == "en":
            n = self.H(f[1])
            need(n.kind == "el")
            return "n:%s/%s" % (hx(n.a[1]), hx(n.a[2]))
        if o == "ce":
            at = parse_attrs(f[3])
            need(self.names_nodup(at))
            n = RNode("el", parse_qn(f[1]))
            n.attrs = at
            n.ip = "m" in f[2] and f[2] != "-"
            k = len(self.handles)
            self.handles.append(n)
            if "t" in f[2] and f[2] != "-":
                n.tc = RNode("doc")
                self.handles.append(n.tc)
            return "h%d" % k
        if o == "cc":
            self.handles.append(RNode("cm", unhx(f[1])))
            return "h%d" % (len(self.handles) - 1)
        if o == "cp":
            self.handles.append(RNode("pi", unhx(f[1]), unhx(f[2])))
            return "h%d" % (len(self.handles) - 1)
        if o == "ap":
            p, c = self.H(f[1]), self.child(f[2])
            need(self.ok_append(p, c))
            self.do_append(p, c)
            return "ok"
        if o == "abp":
            e, p, c = self.H(f[1]), self.H(f[2]), self.child(f[3])
            need(e.kind == "el" and p.kind == "el")
            if e.parent is not None:
                need(self.ok_abs(e, c))
                self.do_abs(e, c)
            else:
                need(self.ok_append(p, c))
                self.do_append(p, c)
            return "ok"
        if o == "dt":
            need(all(k.kind not in ("dt", "el") for k in self.doc.children))
            n = RNode("dt", unhx(f[1]), unhx(f[2]), unhx(f[3]))
            n.parent = self.doc
            self.doc.children.append(n)
            return "ok"
        if o in ("ms", "pop"):
            need(self.H(f[1]).kind == "el")
            return "ok"
        if o == "tc":
            n = self.H(f[1])
            need(n.kind == "el" and n.tc is not None)
            return self.hnum(n.tc)
        if o == "sn":
            return "T" if self.H(f[1]) is self.H(f[2]) else "F"
        if o == "qm":
            self.quirks = {"q": "quirks", "l": "limited", "n": "no"}[f[1]]
            return "ok"
        if o == "abs":
            s, c = self.H(f[1]), self.child(f[2])
            need(self.ok_abs(s, c))
            self.do_abs(s, c)
            return "ok"
        if o == "aa":
            n, at = self.H(f[1]), parse_attrs(f[2])
            need(n.kind == "el" and self.names_nodup(at))
            have = set(q for q, _ in n.attrs)
            for q, v in at:
                if q not in have:
                    n.attrs.append((q, v))
                    have.add(q)
            return "ok"
        if o == "af":
            need(all(self.H(x).kind == "el" for x in f[1:4]) and (f[4] == "-" or self.H(f[4]).kind == "el"))
            return "ok"
        if o == "rm":
            n = self.H(f[1])
            if n.parent is not None:
                n.parent.children.remove(n)
                n.parent = None
            return "ok"
        if o == "rc":
            n, p = self.H(f[1]), self.H(f[2])
            need(self.container(n) and self.container(p) and not self.anc_or_self(n, p))
            for k in n.children:
                k.parent = p
            p.children.extend(n.children)
            n.children = []
            return "ok"
        if o == "ip":
            n = self.H(f[1])
            need(n.kind == "el")
            return "T" if n.ip else "F"
        if o == "ln":
            return "ok"
        if o == "adsr":
            need(self.container(self.H(f[1])))
            return "T"
        if o == "ads":
            need(self.H(f[1]).kind == "el" and self.H(f[2]).kind == "el" and self.names_nodup(parse_attrs(f[3])))
            return "F"
        if o == "mc":
            n = self.H(f[1])
            need(n.kind == "el" and n.a[2] == "option")
            self.do_mc(n)
            return "ok"
        raise ValueError("unknown op " + op)

    # -- canonical dump, same format as the engines
    def dump(self):
        order = list(self.handles)
        idx = {id(n): k for k, n in enumerate(order)}
        i = 0
        while i < len(order):
            for c in order[i].children:
                if id(c) not in idx:
                    idx[id(c)] = len(order)
                    order.append(c)
            i += 1

        def num(n):
            return str(idx[id(n)]) if id(n) in idx else "?"
        ents = []
        for k, n in enumerate(order):
            ents.append("%d#%s#%s#%s#%s" % (
                k, n.data_str(), num(n.tc) if n.tc is not None else "-",
                num(n.parent) if n.parent is not None else "-",
                " ".join(num(c) for c in n.children) if n.children else "-"))
        sers = []
        for k, n in enumerate(self.handles):
            if n.parent is not None:
                continue
            ev = []
            bad = [False]

            def visit(x):
                if x.kind == "el":
                    ev.append("S%s[%s]" % (show_qn(x.a), show_attrs(x.attrs)))
                    for c in x.children:
                        visit(c)
                    ev.append("E" + show_qn(x.a))
                elif x.kind == "dt":
                    ev.append("D" + hx(x.a))
                elif x.kind == "tx":
                    ev.append("T" + hx(x.a))
                elif x.kind == "cm":
                    ev.append("C" + hx(x.a))
                elif x.kind == "pi":
                    ev.append("P%s,%s" % (hx(x.a), hx(x.b)))
                else:
                    bad[0] = True
            if n.kind == "doc":
                for c in n.children:
                    visit(c)
            else:
                visit(n)
            sers.append("h%d:%s" % (k, "PANIC:ser-document" if bad[0] else ("+".join(ev) if ev else "-")))
        return "@N=%s@Q=%s@E=%s@S=%s" % ("|".join(ents), self.quirks,
                                          "|".join(hx(e) for e in self.errors) if self.errors else "-",
                                          "|".join(sers))


def ref_run(ops, **kw):
    """expected output line of a contract-abiding case; None if some call violates the contract"""
    r = Ref(**kw)
    outs = []
    for op in ops:
        try:
            outs.append(r.apply(op))
        except ContractViolation:
            return None
    return ";".join(outs) + r.dump()


def case_ops(line):
    f = line.split("\t")
    return [] if f[2] == "-" else f[2].split(";")


# ----------------------------------------------------------------------------- oracle

def check_dump_itself(out):
    """properties of the implementation's dump alone: parent links name exactly the node whose child
    list holds the node; nobody is listed twice; the serializer saw each node of a tree once, in
    document order"""
    try:
        sec = dict(s.split("=", 1) for s in out.split("@")[1:])
    except ValueError:
        return "malformed output"
    nodes = {}
    for e in sec["N"].split("|"):
        k, data, tc, p, c = e.split("#")
        nodes[k] = (data, tc, p, [] if c == "-" else c.split(" "))
    seen = {}
    for k, (data, tc, p, ch) in nodes.items():
        for c in ch:
            if c in seen:
                return "node %s is listed as a child twice (%s and %s)" % (c, seen[c], k)
            seen[c] = k
            if c not in nodes or nodes[c][2] != k:
                return "child %s of %s has parent pointer %s" % (c, k, nodes.get(c, ("", "", "?"))[2])
        if p != "-" and (p not in nodes or k not in nodes[p][3]):
            return "node %s has parent %s but is not in its child list" % (k, p)
    # serializer order = preorder
    for part in sec["S"].split("|") if sec["S"] else []:
        hnum, ev = part.split(":", 1)
        if ev.startswith("PANIC"):
            continue
        root = hnum[1:]
        exp = []

        def pre(k):
            data = nodes[k][0]
            kind = data.split(",")[0]
            if kind == "el":
                _, q, at, _ = data.split(",")
                exp.append("S%s[%s]" % (q, at))
                for c in nodes[k][3]:
                    pre(c)
                exp.append("E" + q)
            elif kind == "dt":
                exp.append("D" + data.split(",")[1])
            elif kind == "tx":
                exp.append("T" + data.split(",")[1])
            elif kind == "cm":
                exp.append("C" + data.split(",")[1])
            elif kind == "pi":
                exp.append("P" + ",".join(data.split(",")[1:]))
        if nodes[root][0] == "doc":
            for c in nodes[root][3]:
                pre(c)
        else:
            pre(root)
        got = [] if ev == "-" else ev.split("+")
        if got != exp:
            return "serializer calls below h%s are not the document-order traversal" % root
    return None


def first_diff(a, b):
    sa, sb = a.split("@"), b.split("@")
    for x, y in zip(sa, sb):
        if x != y:
            if x.startswith("N="):
                for ex, ey in zip(x.split("|"), y.split("|")):
                    if ex != ey:
                        return "node entry: got %s want %s" % (ex[:200], ey[:200])
                return "node count: got %d want %d" % (len(x.split("|")), len(y.split("|")))
            return "got %s want %s" % (x[:200], y[:200])
    return "length"


def oracle(line, out):
    if out is None or out.startswith("ABORT"):
        return "implementation crashed: %s" % out
    if out.startswith("PANIC"):
        return "engine panicked: %s" % out
    if out in ("bad-op", "bad-case"):
        return "engine rejected the case: %s" % out
    ops = case_ops(line)
    want = ref_run(ops)
    flagged = any(t.startswith("!") for t in out.split("@")[0].split(";"))
    if want is None:
        # some call is outside the TreeSink contract: behaviour unspecified; the monitor must notice
        if not flagged:
            return "contract monitor did not flag a call that violates the contract"
        return None
    if flagged:
        return "contract monitor flagged a contract-abiding call: %s" % out.split("@")[0][:300]
    if "PANIC" in out.split("@")[0]:
        return "a contract-abiding call panicked: %s" % out.split("@")[0][-200:]
    if out != want:
        # classify against the two known deviations of rcdom
        if any(o.startswith("mc,") for o in ops) and out == ref_run(ops, mc_mode="noop"):
            return ("selectedcontent: maybe_clone_an_option_into_selectedcontent did not mirror the selected option "
                    "(DESIGN 1.3 item 11): " + first_diff(out, want))
        if any(o.startswith("abs,") or o.startswith("abp,") for o in ops) and out == ref_run(ops, abs_mode="code"):
            return ("before-sibling: append_before_sibling of a node that is an earlier child of the same parent "
                    "inserted it at the stale index: " + first_diff(out, want))
        if out == ref_run(ops, mc_mode="noop", abs_mode="code"):
            return "selectedcontent: and before-sibling: both known deviations: " + first_diff(out, want)
        return "RcDom result differs from the abstract DOM: " + first_diff(out, want)
    return check_dump_itself(out)


def nontrivial(line, out):
    return out is not None and "@N=" in out and out.split("@N=")[1].split("@")[0].count("|") >= 2


KNOWN_MATCHERS = {
    "C20-selectedcontent": lambda f: f.kind == "oracle" and (f.detail or "").startswith("selectedcontent:"),
    "C20-before-sibling-reinsert": lambda f: f.kind == "oracle" and (f.detail or "").startswith("before-sibling:"),
}


# ----------------------------------------------------------------------------- cover cases

# base tree: 12 handles of every kind, attached and detached, with text nodes in between
BASE = [
    ce("div", [("id", "a")]),                 # h1  element A, attached to the document
    "ap,0,n1",
    "ap,1,t" + hx("t1"),
    ce("span"),                               # h2  element B, child of A
    "ap,1,n2",
    "cc," + hx("c"),                          # h3  comment, child of A
    "ap,1,n3",
    "ap,1,t" + hx("t2"),
    "cp," + hx("pi") + "," + hx("d"),         # h4  pi, child of A
    "ap,1,n4",
    ce("template", [], "t"),                  # h5  template, child of A; h6 its contents
    "ap,1,n5",
    "ap,6,t" + hx("in"),
    ce("p", [("class", "x")]),                # h7  detached element
    "cc," + hx("dc"),                         # h8  detached comment
    "cp," + hx("dp") + ",-",                  # h9  detached pi
    ce("template", [], "t"),                  # h10 detached template; h11 its contents
    "ap,2,t" + hx("inner"),
    ce("i"),                                  # h12 child of detached h7
    "ap,7,n12",
    "ap,7,t" + hx("tail"),
]
NH = 13
CHILDREN = ["n%d" % k for k in range(NH)] + ["t" + hx("new"), "t-"]


def cover_cases():
    cases = []

    def add(op):
        line = mk(BASE + [op])
        valid = ref_run(BASE + [op]) is not None
        cases.append((line, "cover" if valid else "violating"))

    for a in range(NH):
        for o in ("en", "ms", "pop", "tc", "rm", "ip", "adsr", "mc"):
            add("%s,%d" % (o, a))
        add("aa,%d,%s" % (a, attrs([("id", "b"), ("title", "t")])))
        add("aa,%d,%s" % (a, attrs([("title", "t"), ("title", "u")])))
        for b in range(NH):
            add("sn,%d,%d" % (a, b))
            add("rc,%d,%d" % (a, b))
            add("ads,%d,%d,-" % (a, b))
        for c in CHILDREN:
            add("ap,%d,%s" % (a, c))
            add("abs,%d,%s" % (a, c))
    for e in (1, 2, 5, 7, 10, 12, 0, 3):
        for p in (1, 2, 7, 5, 0, 4):
            for c in CHILDREN:
                add("abp,%d,%d,%s" % (e, p, c))
    for o in ("doc", "pe," + hx("err"), "qm,q", "qm,l", "qm,n", "ln,7", "dt,%s,-,-" % hx("html"),
              "af,1,2,7,-", "af,1,2,7,12", "af,1,3,7,-", "cc,-", "cp,-,-",
              ce("svg", [("href", "u", "http://www.w3.org/1999/xlink", "xlink")], "-", SVG),
              ce("annotation-xml", [("encoding", "text/html")], "m", MATHML),
              ce("x", [("a", "1"), ("a", "2")]), ce("x", [("a", "1"), ("a", "2", "", "p")], "d")):
        add(o)
    # doctype placement
    for pre in ([], ["cc," + hx("c"), "ap,0,n1"], ["dt,%s,%s,%s" % (hx("html"), hx("pub"), hx("sys"))],
                [ce("html"), "ap,0,n1"]):
        ops = pre + ["dt,%s,-,%s" % (hx("a"), hx("s"))]
        cases.append((mk(ops), "cover" if ref_run(ops) is not None else "violating"))
    return cases


def shape_cases():
    """text merging / attributes / reparent / remove / before-sibling re-insertion"""
    cases = []

    def add(ops, tag="shape"):
        assert ref_run(ops) is not None, ops
        cases.append((mk(ops), tag))
    E = lambda n: ce(n)
    T = lambda s: "t" + hx(s)
    kinds = {"none": [], "text": ["ap,1," + T("x")], "elem": [E("b"), "ap,1,n2"],
             "comment": ["cc," + hx("c"), "ap,1,n2"], "text-elem": ["ap,1," + T("x"), E("b"), "ap,1,n2"],
             "elem-text": [E("b"), "ap,1,n2", "ap,1," + T("x")]}
    for name, pre in kinds.items():
        for s in ("y", "", "é😀"):
            add([E("div"), "ap,0,n1"] + pre + ["ap,1," + T(s), "ap,1," + T("z")])
    # append_before_sibling: text with previous sibling text / element / none; node
    for prev in ([], ["ap,1," + T("x")], [E("i"), "ap,1,n3"], ["ap,1," + T("x"), E("i"), "ap,1,n3"]):
        base = [E("div"), "ap,0,n1", E("table")] + prev + ["ap,1,n2"]
        for s in ("y", ""):
            add(base + ["abs,2," + T(s)])
            add(base + ["abs,2," + T(s), "abs,2," + T("z")])
            add(base + ["abp,2,1," + T(s)])
        nid = 3 + (1 if any(p.startswith("ce") for p in prev) else 0)
        add(base + [E("b"), "abs,2,n%d" % nid, "abs,2," + T("q")])
        add(base + [E("b"), "abp,2,1,n%d" % nid])
        add(base + ["rm,2", E("b"), "abp,2,1,n%d" % nid, "abp,2,1," + T("w")])
    # re-insertion through append_before_sibling (node with an old parent)
    kids = [E("div"), "ap,0,n1", E("a"), E("b"), E("c"), E("d"), "ap,1,n2", "ap,1,n3", "ap,1,n4", E("e"), "ap,0,n6", "ap,6,n5"]
    for sib in (2, 3, 4):
        for ch in (2, 3, 4, 5):
            if sib != ch:
                add(kids + ["abs,%d,n%d" % (sib, ch)], "shape-reinsert")
                add(kids + ["abp,%d,1,n%d" % (sib, ch)], "shape-reinsert")
    # attributes
    a0 = [("id", "1"), ("class", "c")]
    for extra in ([], [("id", "2")], [("x", "1")], [("x", "1"), ("id", "2"), ("y", "")],
                  [("class", "d", "", "p")], [("id", "2", "urn:n")], [("ID", "2")]):
        add([ce("html", a0), "ap,0,n1", "aa,1," + attrs(extra)], "shape-attrs")
        add([ce("html", []), "ap,0,n1", "aa,1," + attrs(extra), "aa,1," + attrs([("x", "9"), ("z", "9")])], "shape-attrs")
    # reparent_children
    for src in ([], ["ap,2," + T("s")], [E("i"), "ap,2,n4"], ["ap,2," + T("s"), E("i"), "ap,2,n4", "ap,2," + T("t")]):
        for dst in ([], ["ap,3," + T("d")], [E("u"), "ap,3,n5" if any(p.startswith("ce") for p in src) else "ap,3,n4"]):
            add([E("div"), "ap,0,n1", E("a"), E("b"), "ap,1,n2", "ap,1,n3"] + src + dst + ["rc,2,3"], "shape-reparent")
            add([E("div"), "ap,0,n1", E("a"), E("b"), "ap,1,n2"] + src + dst + ["rc,2,3", "ap,2,n3"], "shape-reparent")
    # remove between texts, then append text (adjacent text nodes after removal)
    add([E("p"), "ap,0,n1", "ap,1," + T("a"), E("b"), "ap,1,n2", "ap,1," + T("c"), "rm,2", "ap,1," + T("d")], "shape-remove")
    add([E("p"), "ap,0,n1", E("b"), "ap,1,n2", "rm,2", "rm,2", "ap,1,n2", "rm,1"], "shape-remove")
    # templates
    add([ce("template", [], "t"), "ap,0,n1", "tc,1", "ap,2," + T("x"), E("td"), "ap,2,n3", "tc,1", "rm,1", "tc,1"], "shape-template")
    add([ce("template", [], "t"), ce("template", [], "t"), "ap,2,n3", "ap,0,n1", "tc,3", "ap,4," + T("deep")], "shape-template")
    return cases


def select_cases():
    cases = []

    def add(ops):
        assert ref_run(ops) is not None, ops
        cases.append((mk(ops), "select"))
    E = lambda n, a=(): ce(n, a)
    T = lambda s: "t" + hx(s)
    sel_attr = [[], [("multiple", "")]]
    opt_attr = [[], [("selected", "")]]
    for sa in sel_attr:
        for oa in opt_attr:
            # select > [button > selectedcontent > old, option > A <b>B</b>]
            base = [E("select", sa), "ap,0,n1", E("button"), "ap,1,n2", E("selectedcontent"), "ap,2,n3",
                    "ap,3," + T("old"), E("option", oa), "ap,1,n4", "ap,4," + T("A"), E("b"), "ap,4,n5",
                    "ap,5," + T("B")]
            add(base + ["mc,4"])
            add(base + ["mc,4", "mc,4"])
            # selectedcontent directly under select, after the option
            add([E("select", sa), "ap,0,n1", E("option", oa), "ap,1,n2", "ap,2," + T("A"),
                 E("selectedcontent"), "ap,1,n3", "mc,2"])
    sel = [("selected", "")]
    # optgroup nesting, datalist / hr / option ancestors, no select, detached option
    for wrap in (["optgroup"], ["optgroup", "optgroup"], ["datalist"], ["hr"], ["option"], ["div"], ["div", "optgroup", "span"]):
        ops = [E("select"), "ap,0,n1", E("selectedcontent"), "ap,1,n2"]
        parent = 1
        nid = 3
        for w in wrap:
            ops += [E(w), "ap,%d,n%d" % (parent, nid)]
            parent = nid
            nid += 1
        ops += [E("option", sel), "ap,%d,n%d" % (parent, nid), "ap,%d,%s" % (nid, T("A")), "mc,%d" % nid]
        add(ops)
    add([E("option", sel), "mc,1"])
    add([E("div"), "ap,0,n1", E("option", sel), "ap,1,n2", "ap,2," + T("A"), "mc,2"])
    # tree order vs breadth-first: select > [div > [span > sc1], sc2]; first in tree order is sc1
    add([E("select"), "ap,0,n1", E("div"), "ap,1,n2", E("span"), "ap,2,n3", E("selectedcontent", [("id", "deep")]),
         "ap,3,n4", E("selectedcontent", [("id", "shallow")]), "ap,1,n5", E("option", sel), "ap,1,n6",
         "ap,6," + T("A"), "mc,6"])
    # option containing a template and a comment; empty option
    add([E("select"), "ap,0,n1", E("selectedcontent"), "ap,1,n2", E("option", sel), "ap,1,n3",
         ce("template", [], "t"), "ap,3,n4", "ap,5," + T("in"), "cc," + hx("c"), "ap,3,n6", "mc,3"])
    add([E("select"), "ap,0,n1", E("selectedcontent"), "ap,1,n2", "ap,2," + T("old"), E("option", sel), "ap,1,n3", "mc,3"])
    # the target selectedcontent lies INSIDE the selected option itself (source contains destination): the children are
    # cloned first, then the old content is replaced - the copy of the inner selectedcontent keeps its old text
    for inner in (["ap,3," + T("x")], ["ap,3," + T("x"), E("b"), "ap,3,n4", "ap,4," + T("z")], []):
        add([E("select"), "ap,0,n1", E("option", sel), "ap,1,n2", E("selectedcontent"), "ap,2,n3"] + inner +
            ["ap,2," + T("y"), "mc,2"])
        add([E("select"), "ap,0,n1", E("option", sel), "ap,1,n2", E("selectedcontent"), "ap,2,n3"] + inner +
            ["ap,2," + T("y"), "mc,2", "mc,2"])
    add([E("select"), "ap,0,n1", E("option", sel), "ap,1,n2", E("div"), "ap,2,n3", E("selectedcontent"), "ap,3,n4",
         "ap,4," + T("deep"), "ap,2," + T("y"), "mc,2"])
    # several selectedcontent elements at different depths / positions: the first in TREE ORDER is the target
    # (shapes = nested lists; "S" = a selectedcontent, a list = a wrapper element with those children)
    def build(shape, parent, ops, counter, names):
        for item in shape:
            nid = counter[0]
            counter[0] += 1
            if item == "S":
                ops += [E("selectedcontent", [("id", "s%d" % nid)]), "ap,%d,n%d" % (parent, nid),
                        "ap,%d,%s" % (nid, T("old%d" % nid))]
            else:
                ops += [E(names[len(item) % len(names)]), "ap,%d,n%d" % (parent, nid)]
                build(item, nid, ops, counter, names)
    shapes = [
        [[["S"], "S"]], [["S", "S"]], [[["S"], ["S"]]], [[[["S"]], "S"], "S"], [[[], ["S"], "S"]],
        [["S", ["S"]]], [[[["S"], "S"]]], [[["S"], [], "S"]], ["S", ["S"]], [["S"], "S"], [[[]], [["S"], "S"]],
        [[["S", "S"], "S"]], [[[[], "S"], ["S"]]], [[["S"]], [["S"]]],
    ]
    for sh in shapes:
        for opt_first in (False, True):
            ops = [E("select"), "ap,0,n1"]
            counter = [2]
            if opt_first:
                ops += [E("option", sel), "ap,1,n2", "ap,2," + T("A")]
                counter = [3]
                optid = 2
            build(sh, 1, ops, counter, ["button", "span", "div"])
            if not opt_first:
                optid = counter[0]
                ops += [E("option", sel), "ap,1,n%d" % optid, "ap,%d,%s" % (optid, T("A"))]
            add(ops + ["mc,%d" % optid])
    # replaced children that have handles: their parent links must be cleared, and they can be re-used
    base = [E("select"), "ap,0,n1", E("selectedcontent"), "ap,1,n2", E("b"), "ap,2,n3", "ap,2," + T("t"),
            "cc," + hx("c"), "ap,2,n4", E("option", sel), "ap,1,n5", "ap,5," + T("A"), E("i"), "ap,5,n6"]
    add(base + ["mc,5"])
    add(base + ["mc,5", "ap,0,n3"])
    add(base + ["mc,5", "abs,5,n4", "mc,5"])
    add(base + ["mc,5", "ap,2,n3", "mc,5", "ap,1,n3"])
    add(base + ["mc,5", "abp,3,2," + T("y"), "abp,3,2,n4"])
    # nested selects: the nearest one counts
    add([E("select"), "ap,0,n1", E("selectedcontent", [("id", "outer")]), "ap,1,n2", E("select"), "ap,1,n3",
         E("selectedcontent", [("id", "inner")]), "ap,3,n4", E("option", sel), "ap,3,n5", "ap,5," + T("A"), "mc,5"])
    return cases


# ----------------------------------------------------------------------------- harvested traces

HTML_TOKENS = {
    "table": ["<table>", "<table>", "<tr>", "<td>", "<td>", "<th>", "<tbody>", "<thead>", "<caption>", "<colgroup>", "<col>",
              "</table>", "</tr>", "</td>", "</tbody>", "x", " ", "<b>", "</b>", "<p>", "<div>", "<!--c-->", "<form>",
              "<input type=hidden>", "<input>", "<select>", "<a href=u>", "</a>", "<script>", "</script>", "<style>", "</style>"],
    "format": ["<b>", "<i>", "<a href=x>", "<em>", "<nobr>", "<font size=1>", "<u>", "</b>", "</i>", "</a>", "</em>", "</nobr>",
               "<p>", "</p>", "<div>", "</div>", "x", "y ", "<table>", "<td>", "</table>", "<li>", "<dd>", "<h1>", "</h1>",
               "<button>", "</button>", "<applet>", "</applet>", "<b id=1 class=c>", "<aside>", "</aside>"],
    "template": ["<template>", "</template>", "<td>", "<tr>", "<col>", "<div>", "x", "<template shadowrootmode=open>",
                 "<b>", "</b>", "<table>", "</table>", "<!--c-->", "<script>", "</script>", "<frameset>", "<caption>", "<body>"],
    "select": ["<select>", "<select multiple>", "<option>", "<option selected>", "<option selected>", "<optgroup>",
               "<selectedcontent>", "</selectedcontent>", "<button>", "</button>", "</option>", "</option>", "</option>",
               "</optgroup>", "</select>",
               "<datalist>", "<hr>", "A", "<b>", "</b>", "<div>", "</div>", "<span>", "<input>", "<option selected value=v>",
               "<template>", "</template>", "<!--c-->"],
    "skeleton": ["<!DOCTYPE html>", "<!DOCTYPE html PUBLIC \"-//W3C//DTD HTML 4.01 Transitional//EN\">", "<html lang=en>",
                 "<html class=a id=b>", "<head>", "</head>", "<body>", "<body class=x>", "<body id=y class=z>", "</body>",
                 "</html>", "<title>", "</title>", "<meta charset=utf-8>", "x", " ", "<!--c-->", "<frameset>", "</frameset>",
                 "<frame>", "<noframes>", "<base>", "<link>", "<p>", "<html xmlns:x=y lang=fr>"],
    "foreign": ["<svg>", "</svg>", "<math>", "</math>", "<mi>", "<annotation-xml encoding=text/html>",
                "<annotation-xml encoding=x>", "<foreignObject>", "<desc>", "<title>", "<b>", "<p>", "x", "<g xlink:href=u>",
                "<![CDATA[c]]>", "<br>", "</p>", "<table>", "<mglyph>", "<svg viewbox=1 definitionurl=d>", "</annotation-xml>"],
}
FRAG_CTX = ["td", "tr", "table", "select", "template", "body", "html", "title", "textarea", "tbody", "colgroup", "div"]


def gen_html(rng):
    theme = rng.choice(list(HTML_TOKENS))
    toks = HTML_TOKENS[theme]
    other = HTML_TOKENS[rng.choice(list(HTML_TOKENS))]
    n = rng.randint(3, 28)
    s = "".join(rng.choice(toks) if rng.random() < 0.8 else rng.choice(other) for _ in range(n))
    return theme, s


def gen_xml(rng):
    names = ["a", "b", "p:c", "d", "xml:e"]
    out = []
    if rng.random() < 0.3:
        out.append("<?xml version='1.0'?>")
    if rng.random() < 0.3:
        out.append("<!DOCTYPE a>")
    depth = []
    for _ in range(rng.randint(2, 20)):
        r = rng.random()
        if r < 0.35:
            nm = rng.choice(names)
            at = "".join(" %s='%s'" % (rng.choice(["x", "y", "xmlns:p", "xmlns", "p:z", "x"]), rng.choice(["1", "u", ""]))
                         for _ in range(rng.randint(0, 3)))
            if rng.random() < 0.3:
                out.append("<%s%s/>" % (nm, at))
            else:
                out.append("<%s%s>" % (nm, at))
                depth.append(nm)
        elif r < 0.55 and depth:
            out.append("</%s>" % depth.pop())
        elif r < 0.7:
            out.append(rng.choice(["t", " ", "x&amp;y", "é"]))
        elif r < 0.8:
            out.append("<!--%s-->" % rng.choice(["c", "", "-"]))
        elif r < 0.9:
            out.append("<?%s %s?>" % (rng.choice(["pi", "x"]), rng.choice(["d", ""])))
        else:
            out.append(rng.choice(["</zz>", "<![CDATA[q]]>", "<a", ">"]))
    while depth and rng.random() < 0.8:
        out.append("</%s>" % depth.pop())
    return "".join(out)


def chunked(rng, s):
    if len(s) < 2 or rng.random() < 0.5:
        return hx(s)
    cuts = sorted(set(rng.randint(1, len(s) - 1) for _ in range(rng.randint(1, 2))))
    parts, prev = [], 0
    for c in cuts + [len(s)]:
        parts.append(s[prev:c])
        prev = c
    return "|".join(hx(p) for p in parts)


FIXED_HTML = [
    "<table><tr><td>a</td>x<b>y</table>", "<table>a<b>b</b>c<tr>d</table>", "<table><b><tr><td>aaa</td></tr>bbb</table>ccc",
    "<p><b><i>x</p>y</i></b>", "<a><p>x<a>y", "<b><p>1<i>2</b>3</i>4", "<div><b><em><p>x</b>y</em>z",
    "<b>1<p>2</b>3</p>", "<a href=1><table><a href=2>x</table>", "<table><template><td>q</template></table>",
    "<template><template>x</template>y</template>z", "<html a=1><html b=2 a=3><body c=4><body a=5 c=6 d=7>",
    "<select><button><selectedcontent></selectedcontent></button><option selected>A<b>B</b></option></select>",
    "<select><option>A<option selected>B<selectedcontent>", "<select multiple><selectedcontent></selectedcontent><option selected>A</select>",
    "<select><optgroup><option selected>x</optgroup><div><selectedcontent>old</selectedcontent></div></select>",
    "<select><selectedcontent><table><option selected>x</option>y", "<select><selectedcontent><b>q<option selected>x</option>y</b>z",
    "<select><button><span><selectedcontent id=a></selectedcontent></span><selectedcontent id=b></selectedcontent></button><option selected>x</option>",
    "<select><button><selectedcontent id=a></selectedcontent><selectedcontent id=b></selectedcontent></button><option selected>x</option>",
    "<select><div><div><selectedcontent id=a></selectedcontent></div><p><selectedcontent id=b></selectedcontent></p></div><selectedcontent id=c></selectedcontent><option selected>x<i>y</i></option>",
    "<select><button><span></span><span><selectedcontent id=a>o</selectedcontent></span><selectedcontent id=b>p</selectedcontent></button><option selected>x</option><option selected>z</option>",
    "<!DOCTYPE html><title>t</title><p>x<!--c--><svg><desc><b>y", "<math><annotation-xml encoding=text/html><p>x</math>",
    "<frameset><frame></frameset>", "<table><form><input type=hidden><input></table>", "<nobr><nobr><nobr>x",
    "<table><td><table><td>x</table>y</table>z<b>", "x<table>y<tr>z", "<li><li><dd><dt><p><h1><h2>", "<button><button>",
    "<table><caption><b>x</table>y", "<i><b><table><td></b></i>x", "<template shadowrootmode=open>x</template>",
]


def harvest(tier, rng):
    """run the real parsers over TracingSink<RcDom>, return [(ops-case-line, tag)] + stats"""
    import vlib
    n_html, n_xml = (320, 60) if tier == "quick" else (6000, 1000)
    lines, tags = [], []
    for s in FIXED_HTML:
        lines.append("rcdom\tparse-html\t-\t" + hx(s))
        tags.append("harvest-fixed")
        lines.append("rcdom\tparse-html\ts1\t" + "|".join(hx(c) for c in s))
        tags.append("harvest-fixed")
    for _ in range(n_html):
        theme, s = gen_html(rng)
        opts = []
        if rng.random() < 0.2:
            opts.append("s1")
        if rng.random() < 0.2:
            opts.append("frag=" + hx(rng.choice(FRAG_CTX)))
        lines.append("rcdom\tparse-html\t%s\t%s" % (",".join(opts) or "-", chunked(rng, s)))
        tags.append("harvest-" + theme)
    for _ in range(n_xml):
        lines.append("rcdom\tparse-xml\t-\t" + chunked(rng, gen_xml(rng)))
        tags.append("harvest-xml")
    outs = vlib.run_impl(lines, timeout=600)
    cases, stats = [], {"parses": len(lines), "failed": 0, "monitor_violations": 0, "op_histogram": {}}
    for l, t, o in zip(lines, tags, outs):
        if o is None or "@V=" not in o:
            stats["failed"] += 1
            cases.append((l, "harvest-failed"))     # reported by the oracle as an engine failure
            continue
        trace, v = o.split("@V=")
        if v != "-":
            stats["monitor_violations"] += 1
            stats.setdefault("violation_samples", [])
            if len(stats["violation_samples"]) < 5:
                stats["violation_samples"].append({"input": l, "violations": v[:300]})
        for op in trace.split(";"):
            k = op.split(",")[0]
            stats["op_histogram"][k] = stats["op_histogram"].get(k, 0) + 1
        cases.append(("rcdom\tops\t" + trace, t))
    return cases, stats


# ----------------------------------------------------------------------------- random valid sequences

NAMES = ["div", "b", "p", "table", "select", "option", "selectedcontent", "optgroup", "button", "template", "span"]
ATTRN = ["id", "class", "selected", "multiple", "x"]
TEXTS = ["a", "bc", "", " ", "é", "x\ny"]


def random_valid(rng, maxlen):
    r = Ref()
    ops = []

    def try_op(op):
        # dry run on a copy is expensive; the reference raises before mutating for every contract clause
        try:
            r.apply(op)
        except ContractViolation:
            return False
        ops.append(op)
        return True
    n = rng.randint(4, maxlen)
    tries = 0
    while len(ops) < n and tries < 6 * n:
        tries += 1
        nh = len(r.handles)
        k = rng.random()
        h = lambda: rng.randrange(nh)
        child = lambda: ("n%d" % h()) if rng.random() < 0.6 else "t" + hx(rng.choice(TEXTS))
        if k < 0.22:
            nm = rng.choice(NAMES)
            at = []
            for a in rng.sample(ATTRN, rng.randint(0, 2)):
                at.append((a, rng.choice(["", "1"])))
            try_op(ce(nm, at, "t" if nm == "template" else "-"))
        elif k < 0.26:
            try_op("cc," + hx(rng.choice(TEXTS)))
        elif k < 0.29:
            try_op("cp,%s,%s" % (hx("t"), hx(rng.choice(TEXTS))))
        elif k < 0.55:
            try_op("ap,%d,%s" % (h(), child()))
        elif k < 0.68:
            try_op("abs,%d,%s" % (h(), child()))
        elif k < 0.73:
            try_op("abp,%d,%d,%s" % (h(), h(), child()))
        elif k < 0.80:
            try_op("rm,%d" % h())
        elif k < 0.86:
            try_op("rc,%d,%d" % (h(), h()))
        elif k < 0.90:
            try_op("aa,%d,%s" % (h(), attrs([(a, "2") for a in rng.sample(ATTRN, rng.randint(0, 3))])))
        elif k < 0.94:
            try_op("mc,%d" % h())
        elif k < 0.96:
            try_op("tc,%d" % h())
        elif k < 0.97:
            try_op("dt,%s,-,-" % hx("html"))
        else:
            try_op(rng.choice(["en,%d" % h(), "sn,%d,%d" % (h(), h()), "ip,%d" % h(), "qm,l", "pe,%s" % hx("e"),
                               "pop,%d" % h(), "doc"]))
    return ops


_STATS = {}


def gen_cases(tier, rng):
    cases = []
    cases += cover_cases()
    cases += shape_cases()
    cases += select_cases()
    hv, stats = harvest(tier, rng)
    _STATS["harvest"] = stats
    cases += hv
    n = 700 if tier == "quick" else 40000
    for _ in range(n):
        cases.append((mk(random_valid(rng, 45)), "random"))
    return cases


def neighbourhood(line):
    """prefixes of the op list (a model≠code disagreement usually shows on a shorter prefix as an oracle failure)"""
    f = line.split("\t")
    if len(f) != 3 or f[1] != "ops" or f[2] == "-":
        return []
    ops = f[2].split(";")
    return [mk(ops[:k]) for k in range(1, len(ops))][-40:]


def extra_evidence(check):
    return {
        "harvest": _STATS.get("harvest"),
        "clone_variant_modelled": "fixed (H5V.Model.Dom.cloneVariant) = /repo ebdbd68; the oracle demands the standard's behaviour",
        "before_sibling_variant_modelled": "detachFirst (H5V.Model.Dom.beforeSiblingVariant) = /repo 394a5e0; the oracle demands insertion immediately before the sibling",
        "repaired_by": ["ebdbd68", "394a5e0"],
    }


def rel_equiv(line, dev, rel):
    """RcDom states part of the TreeSink contract as `debug_assert!`: an operation sequence that breaks the contract
    panics there in the dev build only (reported as `!PANIC:debug-assert`, which the model predicts); from that point
    on the two builds legitimately differ"""
    return dev is not None and "PANIC:debug-assert" in dev
