#!/usr/bin/env python3
"""Shared machinery of the /verif checks (see DESIGN.md section 4).

A check of property Cxx =
  1. translator (tools/extract.py) regenerates lean/H5V/Gen/* from /repo's working tree
  2. `lake build` of the property's theorem modules + model driver; axiom audit; forbidden-token scan
  3. `cargo build` of the harness against /repo's working tree (feature verif-hooks on)
  4. correspondence: harness (real code) vs h5vdriver (Lean model) on generated cases
  5. property oracle evaluated on the implementation's output
  6. evidence/Cxx.json, replays, VIOLATION / KNOWN-FINDING lines, exit code
"""
import fcntl
import hashlib
import json
import os
import random
import re
import subprocess
import sys
import time
from concurrent.futures import ThreadPoolExecutor

ROOT = os.path.dirname(os.path.dirname(os.path.abspath(__file__)))
LEAN = os.path.join(ROOT, "lean")
HARNESS = os.path.join(ROOT, "harness")
WORK = os.path.join(ROOT, ".work")
REPO = "/repo"
NPROC = os.cpu_count() or 4
ALLOWED_AXIOMS = {"propext", "Classical.choice", "Quot.sound"}
FORBIDDEN = re.compile(
    r"\b(sorry|admit|native_decide|bv_decide|implemented_by|unsafe)\b|^\s*axiom\s|maxHeartbeats\s+0\b"
)

ENV = dict(os.environ)
ENV["CARGO_NET_OFFLINE"] = "true"
ENV.setdefault("CARGO_TERM_COLOR", "never")


class Infra(Exception):
    pass


def sh(cmd, cwd=None, timeout=None, inp=None):
    p = subprocess.run(cmd, cwd=cwd, env=ENV, input=inp, stdout=subprocess.PIPE,
                       stderr=subprocess.STDOUT, timeout=timeout, text=True, shell=isinstance(cmd, str))
    return p.returncode, p.stdout


class BuildLock:
    """exclusive lock around build phases so checks may be launched concurrently"""

    def __init__(self, name):
        os.makedirs(WORK, exist_ok=True)
        self.path = os.path.join(WORK, name + ".lock")

    def __enter__(self):
        self.f = open(self.path, "w")
        fcntl.flock(self.f, fcntl.LOCK_EX)
        return self

    def __exit__(self, *a):
        fcntl.flock(self.f, fcntl.LOCK_UN)
        self.f.close()


# ----------------------------------------------------------------------------- translator

def run_translator():
    """regenerate lean/H5V/Gen/*.lean from /repo; returns dict(name -> info) ; raises Infra on a
    shape failure of an extractor is reported by the caller as a violation (no-failing-input-found)"""
    sys.path.insert(0, os.path.join(ROOT, "tools"))
    import extract
    with BuildLock("lean"):
        return extract.main(quiet=True)


# ----------------------------------------------------------------------------- lean

def lean_build(targets):
    """lake build of the given targets. returns (ok, log)"""
    with BuildLock("lean"):
        rc, out = sh(["lake", "build"] + list(targets), cwd=LEAN, timeout=3600)
    return rc == 0, out


def lean_module_closure(modules):
    """the given modules and every module of this project they import, transitively (paths of the sources)"""
    seen, todo, paths = set(), list(modules) + ["Driver.Main"], []
    while todo:
        m = todo.pop()
        if m in seen:
            continue
        seen.add(m)
        p = os.path.join(LEAN, *m.split(".")) + ".lean"
        if not os.path.exists(p):
            continue
        paths.append(p)
        for mm in re.finditer(r"^\s*(?:public\s+|private\s+)?import\s+(?:all\s+)?([A-Za-z0-9_.]+)", open(p, encoding="utf-8").read(), flags=re.M):
            if mm.group(1).split(".")[0] in ("H5V", "Driver"):
                todo.append(mm.group(1))
    return sorted(paths)


def lean_scan_forbidden(modules):
    """scan the sources of the given modules and of everything in this project they import (transitively; the model
    driver included) for forbidden tokens outside comments"""
    hits = []
    for p in lean_module_closure(modules):
            src = open(p, encoding="utf-8").read()
            # strip block comments (non-nested approximation, applied repeatedly) and line comments
            prev = None
            while prev != src:
                prev = src
                src = re.sub(r"/-(?:(?!/-|-/).)*?-/", lambda m: "\n" * m.group(0).count("\n"), src, flags=re.S)
            for i, line in enumerate(src.split("\n"), 1):
                line = re.sub(r"--.*$", "", line)
                line = re.sub(r'"(?:[^"\\]|\\.)*"', '""', line)
                if FORBIDDEN.search(line):
                    hits.append("%s:%d: %s" % (os.path.relpath(p, ROOT), i, line.strip()))
    return hits


def lean_audit(prop, module_imports, theorems):
    """#print axioms for every listed theorem; returns (ok, {thm: [axioms]}, log)"""
    os.makedirs(WORK, exist_ok=True)
    path = os.path.join(WORK, "Audit_%s.lean" % prop)
    with open(path, "w") as f:
        for m in module_imports:
            f.write("import %s\n" % m)
        for t in theorems:
            f.write("#print axioms %s\n" % t)
    with BuildLock("lean"):
        rc, out = sh(["lake", "env", "lean", path], cwd=LEAN, timeout=1800)
    res = {}
    # output: "'name' depends on axioms: [a, b]" or "'name' does not depend on any axioms"
    # (names may end in primes: `'H5V.X.thm'' depends on …`)
    for m in re.finditer(r"'([^'\s]+?'*)' depends on axioms: \[([^\]]*)\]", out, flags=re.S):
        res[m.group(1)] = [a.strip() for a in m.group(2).replace("\n", " ").split(",") if a.strip()]
    for m in re.finditer(r"'([^'\s]+?'*)' does not depend on any axioms", out):
        res[m.group(1)] = []
    ok = rc == 0
    bad = {}
    for t in theorems:
        if t not in res:
            ok = False
            bad[t] = "not found / did not check"
        else:
            extra = set(res[t]) - ALLOWED_AXIOMS
            if extra:
                ok = False
                bad[t] = "disallowed axioms: %s" % sorted(extra)
    return ok, res, bad, out


def leanchecker(modules):
    with BuildLock("lean"):
        rc, out = sh(["lake", "env", "leanchecker"] + list(modules), cwd=LEAN, timeout=3600)
    return rc == 0, out


# ----------------------------------------------------------------------------- harness

def harness_build():
    """two builds of the harness (and, through path dependencies, of /repo's current working tree): the dev profile
    (debug assertions and overflow checks ON - what `cargo test` exercises) and the release profile (both OFF - what
    users ship); code under `cfg(debug_assertions)` / inside `debug_assert!` exists in one of them only"""
    with BuildLock("cargo"):
        rc, out = sh(["cargo", "build", "--offline"], cwd=HARNESS, timeout=3600)
        if rc == 0:
            rc, out2 = sh(["cargo", "build", "--offline", "--release"], cwd=HARNESS, timeout=3600)
            out += out2
    return rc == 0, out


HARNESS_BIN = os.path.join(HARNESS, "target", "debug", "h5vharness")
HARNESS_REL_BIN = os.path.join(HARNESS, "target", "release", "h5vharness")
DRIVER_BIN = os.path.join(LEAN, ".lake", "build", "bin", "h5vdriver")


def _run_shard(binary, lines, timeout, extra_env=None):
    data = "".join(l + "\n" for l in lines)
    try:
        env = dict(os.environ)
        env.pop("H5V_LOG", None)
        env.update(extra_env or {})
        # per-case watchdog of the harness: quick cases take < 3 s each, thorough ones up to ~30 s
        env.setdefault("H5V_CASE_TIMEOUT", "25" if os.environ.get("VERIF_TIER_RUNNING", "quick") == "quick" else "150")
        p = subprocess.run([binary], input=data.encode("utf-8"), stdout=subprocess.PIPE,
                           stderr=subprocess.PIPE, timeout=timeout, env=env)
    except subprocess.TimeoutExpired:
        return None, "timeout"
    out = p.stdout.decode("utf-8", "replace").split("\n")
    if out and out[-1] == "":
        out.pop()
    if binary in (HARNESS_BIN, HARNESS_REL_BIN):
        # protocol lines of the harness start with 0x01; anything else is library chatter on stdout
        out = [l[1:] for l in out if l.startswith("\x01")]
    if p.returncode != 0 or len(out) != len(lines):
        return out, "rc=%d lines=%d/%d stderr=%s" % (p.returncode, len(out), len(lines),
                                                   p.stderr.decode("utf-8", "replace")[-300:])
    return out, None


def run_binary(binary, lines, timeout=900, shards=None, extra_env=None):
    """run `binary` over all case lines, sharded over the cores (round-robin, so that a family of
    expensive cases is spread over all shards). A shard that crashes or hangs is bisected down to
    the single offending case, which gets the result 'ABORT <reason>'."""
    n = len(lines)
    if n == 0:
        return []
    shards = shards or min(NPROC, max(1, n // 50))
    chunks = [list(range(k, n, shards)) for k in range(shards)]
    results = [None] * n

    def work(idx):
        out, err = _run_shard(binary, [lines[i] for i in idx], timeout, extra_env)
        if err is None:
            for i, o in zip(idx, out):
                results[i] = o
            return
        if len(idx) == 1:
            results[idx[0]] = "ABORT " + err
            return
        mid = len(idx) // 2
        work(idx[:mid])
        work(idx[mid:])

    with ThreadPoolExecutor(max_workers=shards) as ex:
        list(ex.map(work, [c for c in chunks if c]))
    return results


def run_impl(lines, **kw):
    return run_binary(HARNESS_BIN, lines, **kw)


def run_model(lines, **kw):
    return run_binary(DRIVER_BIN, lines, **kw)


# ----------------------------------------------------------------------------- known findings

def load_known():
    p = os.path.join(ROOT, "known_findings.json")
    if not os.path.exists(p):
        return []
    return json.load(open(p))


# ----------------------------------------------------------------------------- the check driver

_EN_RE = re.compile(r"(?:(?<=;)|^)en,\d+(?:;|$)")


def default_log_equiv(line, plain, logged):
    """the library's own debug! statements call the read-only sink query `elem_name` (trace item `en,<handle>`): a
    logged run may contain more of those queries in a sink-call trace; nothing else may differ"""
    if plain is None or logged is None:
        return plain == logged
    # (the position of a recorded contract violation is an index into the trace, queries included)
    norm = lambda x: re.sub(r"\d+:CONTRACT-VIOLATION", "CONTRACT-VIOLATION", _EN_RE.sub("", x))
    return norm(plain) == norm(logged)


class Failure:
    def __init__(self, kind, case, detail, impl=None, model=None, broken=None):
        self.kind = kind          # 'oracle' | 'corr' | 'proof' | 'table'
        self.case = case          # protocol line or None
        self.detail = detail
        self.impl = impl
        self.model = model
        self.broken = broken      # name of theorem / correspondence that no longer checks
        self.concrete = kind == "oracle"


class Check:
    """Generic skeleton; a property module supplies:
       PROP, LEAN_TARGETS, AUDIT_IMPORTS, THEOREMS, TRUSTED, gen_cases(tier, rng) -> [(line, tag)],
       oracle(line, impl_out) -> None | str, nontrivial(line, impl_out) -> bool,
       optional: uses_translator, table_checks(), compare(impl, model) -> bool, shrink(...)"""

    def __init__(self, mod, tier, seed):
        self.mod = mod
        self.prop = mod.PROP
        self.tier = tier
        os.environ["VERIF_TIER_RUNNING"] = tier
        self.seed = seed
        self.t0 = time.time()
        self.failures = []
        self.notes = []
        self.known_printed = []

    def infra(self, msg, log=""):
        print("INFRA: %s" % msg)
        if log:
            print(log[-3000:])
        sys.exit(2)

    # -- phases
    def phase_proofs(self):
        m = self.mod
        self.obligations = 0
        self.discharged = 0
        self.axioms = {}
        if getattr(m, "USES_TRANSLATOR", False):
            try:
                self.gen_info = run_translator()
            except Exception as e:  # extractor shape failure
                self.failures.append(Failure("table", None, "translator failed: %s" % e,
                                             broken="tools/extract.py"))
                self.gen_info = {}
        ok, log = lean_build(m.LEAN_TARGETS + ["h5vdriver"])
        self.lean_log = log
        thms = list(m.THEOREMS)
        self.obligations = len(thms)
        if not ok:
            # which modules failed?
            failed = re.findall(r"^- (\S+)$", log, flags=re.M)
            errs = re.findall(r"^error: (.*)$", log, flags=re.M)
            only_driver = failed and all(not f.startswith("H5V.Props") and not f.startswith("H5V.Gen")
                                         and not f.startswith("H5V.Lemmas") for f in failed)
            self.failures.append(Failure("proof", None,
                                         "lake build failed: modules %s; first errors: %s" % (failed, errs[:5]),
                                         broken=",".join(failed) or "lake build"))
            self.proof_ok = False
            # the driver may still exist from an earlier build only if it does not depend on the
            # broken module; rebuild it alone
            ok2, _ = lean_build(["h5vdriver"])
            self.driver_ok = ok2
            return
        self.proof_ok = True
        self.driver_ok = True
        hits = lean_scan_forbidden(m.LEAN_TARGETS)
        if hits:
            self.failures.append(Failure("proof", None, "forbidden tokens: %s" % hits[:5], broken="source scan"))
        ok, res, bad, out = lean_audit(self.prop, m.AUDIT_IMPORTS, thms)
        self.axioms = res
        self.discharged = sum(1 for t in thms if t in res and t not in bad)
        if not ok:
            self.failures.append(Failure("proof", None, "axiom audit: %s" % (bad or out[-500:]),
                                         broken=",".join(bad.keys()) or "audit"))
        if self.tier == "thorough" and getattr(m, "LEANCHECKER", True):
            ok, out = leanchecker(m.LEAN_TARGETS)
            self.notes.append("leanchecker rc=%s" % ("0" if ok else "nonzero"))
            if not ok:
                self.failures.append(Failure("proof", None, "leanchecker failed: %s" % out[-500:],
                                             broken="leanchecker"))

    def phase_harness(self):
        ok, log = harness_build()
        if not ok:
            self.infra("harness does not build against /repo working tree", log)

    def phase_cases(self):
        m = self.mod
        rng = random.Random(self.seed)
        cases = m.gen_cases(self.tier, rng)
        # corpus of past failures first
        corpus = []
        cdir = os.path.join(ROOT, "corpus", self.prop)
        if os.path.isdir(cdir):
            for fn in sorted(os.listdir(cdir)):
                for l in open(os.path.join(cdir, fn), encoding="utf-8"):
                    l = l.rstrip("\n")
                    if l and not l.startswith("#"):
                        corpus.append((l, "corpus:" + fn))
        cases = corpus + list(cases)
        # dedupe preserving order
        seen = set()
        uniq = []
        for line, tag in cases:
            if line in seen:
                continue
            seen.add(line)
            uniq.append((line, tag))
        self.cases = uniq
        lines = [c[0] for c in uniq]
        t = time.time()
        self.impl = run_impl(lines, timeout=getattr(m, "SHARD_TIMEOUT", 900))
        self.t_impl = time.time() - t
        # the same cases (an evenly spaced sub-sample) with a `log` logger installed that evaluates every record: the
        # arguments of the library's debug!/trace! statements run only then (RUST_LOG=trace in an application)
        cap = getattr(m, "LOGGED_MAX", 6000 if self.tier == "quick" else 60000)
        idx = [i for i, l in enumerate(lines) if not l.startswith("tendril")]
        if len(idx) > cap:
            step = len(idx) / float(cap)
            # evenly spaced, plus the 300 longest cases (size-only families: thresholds in diagnostic strings, buffers)
            longest = sorted(idx, key=lambda i: -len(lines[i]))[:300]
            idx = sorted(set(idx[int(k * step)] for k in range(cap)) | set(longest))
        self.logged_idx = idx
        self.impl_logged = run_impl([lines[i] for i in idx], timeout=getattr(m, "SHARD_TIMEOUT", 900),
                                    extra_env={"H5V_LOG": "1"}) if idx else []
        # ... and with the release build of the harness and the library (no debug assertions, no overflow checks)
        ridx = list(range(len(lines)))
        if len(ridx) > cap:
            step = len(ridx) / float(cap)
            longest = sorted(ridx, key=lambda i: -len(lines[i]))[:300]
            ridx = sorted(set(ridx[int(k * step)] for k in range(cap)) | set(longest))
        self.rel_idx = ridx
        self.impl_rel = run_binary(HARNESS_REL_BIN, [lines[i] for i in ridx], timeout=getattr(m, "SHARD_TIMEOUT", 900)) if ridx else []
        t = time.time()
        model_lines = [m.model_line(l) for l in lines] if hasattr(m, "model_line") else lines
        if self.driver_ok and getattr(m, "HAS_MODEL", True):
            self.model = run_model(model_lines, timeout=getattr(m, "SHARD_TIMEOUT", 900))
        else:
            self.model = [None] * len(lines)
        self.t_model = time.time() - t

    def phase_judge(self):
        m = self.mod
        self.n_nontrivial = 0
        distinct = set()
        tags = {}
        compare = getattr(m, "compare", lambda line, a, b: a == b)
        corr_bad = []
        for (line, tag), io, mo in zip(self.cases, self.impl, self.model):
            tg = tag.split(":")[0]
            tags[tg] = tags.get(tg, 0) + 1
            if m.nontrivial(line, io):
                h = hashlib.sha1((line + "\0" + (io or "")).encode()).digest()
                if h not in distinct:
                    distinct.add(h)
            why = m.oracle(line, io)
            if why:
                self.failures.append(Failure("oracle", line, why, impl=io, model=mo))
            if mo is not None and not compare(line, io, mo):
                corr_bad.append((line, io, mo))
        self.n_nontrivial = len(distinct)
        self.tags = tags
        n_log_bad = 0
        log_equiv = getattr(m, "log_equiv", default_log_equiv)
        for i, lo in zip(getattr(self, "logged_idx", []), getattr(self, "impl_logged", [])):
            if lo != self.impl[i] and not log_equiv(self.cases[i][0], self.impl[i], lo) and n_log_bad < 50:
                n_log_bad += 1
                self.failures.append(Failure(
                    "oracle", self.cases[i][0],
                    "the result depends on whether a `log` logger that evaluates every record is installed (H5V_LOG=1, as "
                    "RUST_LOG=trace in an application): with the logger: %s" % (lo or "")[:300], impl=self.impl[i], model=self.model[i]))
        self.n_logged = len(getattr(self, "logged_idx", []))
        n_rel_bad = 0
        rel_equiv = getattr(m, "rel_equiv", lambda line, dev, rel: False)
        for i, ro in zip(getattr(self, "rel_idx", []), getattr(self, "impl_rel", [])):
            if ro != self.impl[i] and not rel_equiv(self.cases[i][0], self.impl[i], ro) and n_rel_bad < 50:
                n_rel_bad += 1
                self.failures.append(Failure(
                    "oracle", self.cases[i][0],
                    "the result differs between the dev-profile build (debug assertions, overflow checks) and the release build "
                    "of the library: release: %s" % (ro or "")[:300], impl=self.impl[i], model=self.model[i]))
        self.n_release = len(getattr(self, "rel_idx", []))
        # cross-case oracle (e.g. chunked vs whole): returns [(line, why, impl_out)]
        if hasattr(m, "oracle_all"):
            for line, why, io in m.oracle_all(self.cases, self.impl):
                self.failures.append(Failure("oracle", line, why, impl=io))
        # correspondence disagreements: search neighbourhood for an oracle failure
        for line, io, mo in corr_bad[:200]:
            already = any(f.kind == "oracle" and f.case == line for f in self.failures)
            if already:
                continue
            found = None
            if hasattr(m, "neighbourhood"):
                neigh = m.neighbourhood(line)
                if neigh:
                    outs = run_impl(neigh)
                    for nl, no in zip(neigh, outs):
                        w = m.oracle(nl, no)
                        if w:
                            found = (nl, no, w)
                            break
            if found:
                self.failures.append(Failure("oracle", found[0], found[2] + " (found near correspondence disagreement on %r)" % line,
                                             impl=found[1]))
            else:
                self.failures.append(Failure("corr", line, "model and implementation disagree", impl=io, model=mo,
                                             broken="corr.%s" % getattr(m, "ENGINE", "?")))
        self.n_corr_bad = len(corr_bad)

    # -- reporting
    def match_known(self, f):
        for k in self.known:
            if k.get("property") != self.prop or k.get("kind") != "known":
                continue
            matcher = getattr(self.mod, "KNOWN_MATCHERS", {}).get(k.get("id"))
            if matcher and f.case is not None and matcher(f):
                return k
            if f.case is not None and f.case == k.get("witness"):
                return k
        return None

    def finish(self):
        m = self.mod
        self.known = load_known()
        os.makedirs(os.path.join(ROOT, "replays"), exist_ok=True)
        os.makedirs(os.path.join(ROOT, "evidence"), exist_ok=True)
        reported = []
        known_hit = {}
        # smallest concrete failures first
        self.failures.sort(key=lambda f: (not f.concrete, len(f.case or "")))
        for f in self.failures:
            k = self.match_known(f)
            if k:
                known_hit.setdefault(k["id"], (k, f))
                continue
            reported.append(f)
        for kid, (k, f) in known_hit.items():
            print("KNOWN-FINDING: property=%s %s [%s]" % (self.prop, k.get("what", ""), kid))
        # collapse: at most 10 violation lines, distinct by (kind, detail-prefix)
        lines_out = []
        seen = set()
        for f in reported:
            sig = (f.kind, (f.detail or "")[:60])
            if sig in seen:
                continue
            seen.add(sig)
            if len(lines_out) >= 10:
                break
            h = hashlib.sha1(((f.case or "") + f.kind + (f.detail or "")).encode()).hexdigest()[:10]
            rp = os.path.join("replays", "%s-%s.json" % (self.prop, h))
            json.dump({
                "property": self.prop, "kind": f.kind, "engine": getattr(m, "ENGINE", None),
                "case": f.case, "detail": f.detail, "impl_output": f.impl, "model_output": f.model,
                "no_longer_checks": f.broken,
                "how_to_replay": "./check %s --replay %s" % (self.prop, rp),
            }, open(os.path.join(ROOT, rp), "w"), indent=1, ensure_ascii=False)
            tail = "" if f.concrete else " no-failing-input-found"
            lines_out.append("VIOLATION property=%s replay=%s%s" % (self.prop, rp, tail))
        wall = time.time() - self.t0
        samples = []
        step = max(1, len(self.cases) // 5)
        for i in range(0, len(self.cases), step):
            samples.append({"case": self.cases[i][0][:400], "tag": self.cases[i][1],
                            "impl": (self.impl[i] or "")[:400]})
        ev = {
            "property_id": self.prop, "tier": self.tier, "seed": self.seed, "level": "proof",
            "coverage": {
                "obligations": self.obligations, "discharged": self.discharged,
                "checker_cmd": "cd /verif/lean && lake build %s && lake env lean .work/Audit_%s.lean (#print axioms)"
                               % (" ".join(m.LEAN_TARGETS), self.prop) + (" && lake env leanchecker ..." if self.tier == "thorough" else ""),
                "trusted_base": m.TRUSTED,
                "theorems": {t: self.axioms.get(t) for t in m.THEOREMS},
                "evaluations": len(self.cases),
                "distinct_nontrivial": self.n_nontrivial,
                "rule": m.RULE,
                "samples": samples[:6],
                "case_families": self.tags,
                "correspondence_disagreements": self.n_corr_bad,
                "rerun_with_evaluating_logger": getattr(self, "n_logged", 0),
                "rerun_with_release_build": getattr(self, "n_release", 0),
                "exhaustive": bool(getattr(m, "EXHAUSTIVE", False)),
                "explanation": getattr(m, "EXPLANATION", ""),
                "timing_s": {"impl": round(self.t_impl, 2), "model": round(self.t_model, 2)},
                "extra": getattr(m, "extra_evidence", lambda c: {})(self),
            },
            "assumptions": m.ASSUMPTIONS,
            "wall_s": round(wall, 2),
            "violations": len(lines_out),
            "known_findings_seen": sorted(known_hit.keys()),
            "notes": self.notes,
        }
        json.dump(ev, open(os.path.join(ROOT, "evidence", "%s.json" % self.prop), "w"), indent=1, ensure_ascii=False)
        for l in lines_out:
            print(l)
        print("%s tier=%s seed=%d: %d theorems (%d audited ok), %d cases (%d distinct non-trivial), "
              "%d correspondence disagreements, %d violations, %.1fs"
              % (self.prop, self.tier, self.seed, self.obligations, self.discharged, len(self.cases),
                 self.n_nontrivial, self.n_corr_bad, len(lines_out), wall))
        sys.exit(1 if lines_out else 0)

    def run(self):
        self.phase_proofs()
        self.phase_harness()
        self.phase_cases()
        self.phase_judge()
        self.finish()


def replay(mod, path):
    r = json.load(open(path if os.path.isabs(path) else os.path.join(ROOT, path)))
    line = r.get("case")
    if not line:
        print("replay names a broken obligation, no input: %s" % r.get("no_longer_checks"))
        return 0
    ok, log = harness_build()
    if not ok:
        print("INFRA: harness build failed")
        return 2
    lean_build(["h5vdriver"])
    io = run_impl([line])[0]
    mo = run_model([mod.model_line(line) if hasattr(mod, "model_line") else line])[0]
    print("case : %s\nimpl : %s\nmodel: %s" % (line, io, mo))
    ro = run_binary(HARNESS_REL_BIN, [line])[0]
    if ro != io and not getattr(mod, "rel_equiv", lambda line, dev, rel: False)(line, io, ro):
        print("release build: %s\nprofile-independence: VIOLATED" % ro)
        return 1
    lo = run_impl([line], extra_env={"H5V_LOG": "1"})[0]
    if lo != io and not getattr(mod, "log_equiv", default_log_equiv)(line, io, lo):
        print("with a logger installed (H5V_LOG=1): %s\nlogger-independence: VIOLATED" % lo)
        return 1
    why = mod.oracle(line, io)
    print("oracle: %s" % (why or "holds"))
    compare = getattr(mod, "compare", lambda line, a, b: a == b)
    same = (not getattr(mod, "HAS_MODEL", True)) or compare(line, io, mo)
    print("correspondence: %s" % ("agree" if same else "DISAGREE"))
    return 1 if why or not same else 0
