#!/usr/bin/env python3
"""Regenerates MANIFEST.json from the table below (claimed properties) — run after registering a check."""
import json, os
ROOT = os.path.dirname(os.path.dirname(os.path.abspath(__file__)))

CLAIMED = {
    "C10": dict(
        engine="utf8", design_ref="6.10",
        technique="Lean 4 proof (streaming invariant relating the pending incomplete prefix to the unread suffix; "
                  "modelled str::from_utf8 proved equal to a table-driven Unicode Table 3-7 spec) + model/code "
                  "correspondence on exhaustive lead-byte × continuation-class × split-position covers; "
                  "encoding_rs path: abstract-decoder theorem + differential run of the real decoders",
        text="For ALL chunk lists the model of Utf8LossyDecoder (decode_utf8, IncompleteUtf8::try_complete_offsets, "
             "process/finish loops, every unwrap/slice/pop_front as a panic branch) is proved to deliver to the inner "
             "sink exactly the spec's lossy decode of the concatenation (one error + U+FFFD per maximal ill-formed "
             "subpart, in place), never to panic, to be independent of chunking, and to hand over only non-empty "
             "well-formed UTF-8 pieces; the spec's scalar values are proved shortest-form, non-surrogate, ≤ U+10FFFF. "
             "The model is tied to the code by the exact sequence of sink calls on exhaustive covers; the modelled "
             "from_utf8 is validated against the real one. LossyDecoder over encoding_rs: partial — decode_to_sink is "
             "proved against an arbitrary abstract decoder (forwards every output, one replacement per Malformed, drains "
             "at end of stream); the real decoders (40 encodings × partitions) and the parsers behind from_utf8() "
             "are exercised differentially against a one-shot decode / one-piece parse.",
        note="Trusted: Lean kernel; Spec.Utf8 (my transcription of Table 3-7, cross-checked against Python's codec each "
             "run); the model of core::str::from_utf8 (validated, not proved, against the real function); the hand-written "
             "model + the utf8 correspondence. Partial: encoding_rs decoders are an external library — only their "
             "documented streaming contract is assumed, and their agreement with a one-shot decode is tested, not proved; "
             "tree equality through from_utf8() rests on C03 (chunking independence of the tokenizer) and is tested here."),
    "C13": dict(
        engine="bq", design_ref="6.13",
        technique="Lean 4 proof (refinement of the buffer list to its concatenation, invariant by induction over "
                  "operation histories) + model/code correspondence on exhaustive op×boundary cover",
        text="Every BufferQueue operation is proved (Lean kernel, no axioms beyond propext/Quot.sound) to act on the "
             "concatenation of the buffers exactly as the property states, for all queues, sets, patterns and histories; "
             "the model is tied to buffer_queue.rs by running both on an exhaustive cover of op × buffer-boundary "
             "placements plus seeded random histories, and a flat-string oracle is evaluated on the real code.",
        note="Trusted: Lean kernel; the hand-written model + the bq correspondence (differential, coverage reported in "
             "evidence); eat proved at character level for ASCII patterns with ==/ASCII-case-insensitive eq; tendril "
             "primitives are C11's subject."),
}

CLAIMED["C14"] = dict(
    engine="tok", design_ref="6.14",
    technique="Lean 4 proof: kernel-checked equality of the table regenerated from entities.rs with the frozen WHATWG "
              "table (decide +kernel, 2231 rows), lookup/prefix-closure and numeric-accumulator theorems; "
              "model/code correspondence + exhaustive enumeration of names x followers x contexts against a reference decoder",
    text="The named-reference table and the C1 table compiled into html5ever are proved equal to frozen WHATWG references "
         "on every run (translator + kernel); the model of build.rs/phf lookup is proved exact on names, prefix-closed and "
         "empty elsewhere; the wrapping numeric accumulator with its overflow latch is proved to decide 'value > 0x10FFFF' "
         "for digit strings of any length and finish_numeric to return the standard's code point. The char-ref model is tied "
         "to the Rust by the tok correspondence; the property's finite quantifier is enumerated on the real code against an "
         "independent Python decoder (quick: a stratified subset, thorough: the full product and all numeric values).",
    note="Trusted: Lean kernel; tools/extract.py; Python's html.entities as the WHATWG reference; the Python reference "
         "decoder; phf/string_cache are modelled as a finite map. The longest-match walk is carried by the correspondence "
         "and the enumeration, not yet by a theorem.")

CLAIMED["C07"] = dict(
    engine="ser", design_ref="6.7",
    technique="Lean 4 proof about a byte-level model of html5ever/src/serialize/mod.rs and of rcdom's "
              "SerializableHandle traversal (loop invariant for write_escaped's search_start/next_special arithmetic, "
              "per-character UTF-8 case analysis, induction on strings, mutual induction on trees, refinement of the "
              "ElemInfo stack to a pure renderer) + model/code correspondence (engine ser) on exhaustive escape / "
              "element-name × namespace × scope / Serializer-call-sequence covers and seeded random and parsed trees "
              "+ oracles evaluated on the real code",
    text="Proved in Lean (kernel, axioms ⊆ propext/Classical.choice/Quot.sound) for all inputs: "
         "C07_write_escaped_eq — the write_escaped loop never panics and equals a structural byte function for every "
         "byte string; C07_current_write_escaped — for every string and both modes the bytes written are UTF-8 of the "
         "standard's character-level escape; C07_unescape_text / C07_unescape_attr — a reader for the data state / "
         "double-quoted attribute value state (five references, CR/NUL preprocessing) returns the original string from "
         "its escape, also when followed by `<…` / `\"…`, for every string free of CR and NUL (C07_witness_cr/_nul show "
         "why those are excluded); C07_escape_text_no_lt / C07_escape_attr_no_quote — escaped text contains no `<`, `>` "
         "and no `\"` in attribute mode, so nothing leaves its context; C07_serialize_eq_render, C07_no_panic, "
         "C07_runOps_eq, C07_serializeOps_eq — the serializer is a pure function of the tree, reaches no panic site on "
         "trees without Document nodes, and rcdom's op-deque loop equals the recursive traversal; C07_tags + "
         "C07_current_inner_outer — for every element of every tree and all options, serializing the children with "
         "the element named as parent yields exactly the bytes between its start and end tag; C07_raw_only_html + "
         "C07_current_scope_raw — text is written unescaped iff the parent is an HTML-namespace raw-text element "
         "(and scripting is on, for noscript). The `_partial`, `_witness_*` and `C07_pinned_*` theorems record the three "
         "defects of the pinned snapshot that were repaired by fix: commits (0xC2 lead byte dropped; namespace of the "
         "ChildrenOnly parent ignored; void ChildrenOnly parent). NOT proved: the first sentence of the property as a "
         "whole — that parse_fragment(serialize(t)) = t through the real tokenizer and tree builder; it is checked on "
         "the real code only (rt= oracle: real parse_fragment(context div) of the serialized children of seeded random "
         "ordinary trees and boundary strings), together with inner = outer on the real code for every element of "
         "every generated and every parsed tree × both scripting settings, and byte equality with an independent "
         "python reference serializer.",
    note="Trusted: Lean kernel; the hand-written model lean/H5V/Model/HtmlSer.lean + the ser correspondence "
         "(differential; families and counts in evidence); str::as_bytes modelled by core Lean's String.utf8EncodeChar "
         "and memchr2/memchr3 as first-index search (validated by the correspondence, not proved); the reader "
         "`unescape` is a hand-written abstraction of the tokenizer restricted to the references the serializer emits; "
         "the python reference serializer used as byte oracle. Round trip claimed for the ordinary vocabulary only "
         "(no void / raw-text / implied-end-tag / formatting / table / select / template elements, text non-empty, not "
         "adjacent, free of CR and NUL) and with TokenizerOpts.discard_bom = false (with the default, a U+FEFF that "
         "starts the first text node is dropped by the tokenizer by design of that option). Writer I/O errors are not "
         "modelled. The serializer writes text children of void elements and has no leading-newline handling for "
         "pre/textarea/listing; both are outside the property's vocabulary and modelled as they are.")

PENDING_REASON = "not claimed yet: the Lean model / engine for this property is still under construction (see DESIGN.md section 8); no check is registered rather than registering one that is not sound"

def main():
    props = [json.loads(l) for l in open(os.path.join(ROOT, "properties.jsonl"))]
    checks = []
    na = []
    for p in props:
        pid = p["id"]
        c = CLAIMED.get(pid)
        if not c:
            na.append({"property_id": pid, "reason": PENDING_REASON})
            continue
        checks.append({
            "property_id": pid,
            "quick_cmd": "./check %s --tier quick" % pid,
            "thorough_cmd": "./check %s --tier thorough" % pid,
            "evidence_file": "/verif/evidence/%s.json" % pid,
            "replay_cmd_template": "./check %s --replay {path}" % pid,
            "engine": c["engine"],
            "level_claimed": {"category": "proof", "text": c["text"], "design_ref": "DESIGN.md section " + c["design_ref"]},
            "level_note": c["note"],
            "technique": c["technique"],
        })
    hooks_commits = []
    hp = os.path.join(ROOT, "hooks_commits.txt")
    if os.path.exists(hp):
        hooks_commits = [l.strip() for l in open(hp) if l.strip()]
    man = {
        "version": 1,
        "setup_cmd": "./tools/setup.sh",
        "hooks": {
            "guard": "cargo feature `verif-hooks` (html5ever, xml5ever, tendril)",
            "enable": "harness/Cargo.toml depends on the /repo crates by path with features = [\"verif-hooks\"] where hooks exist",
            "baseline_off_cmd": "cd /repo && cargo test --workspace --no-fail-fast --offline",
            "source_commits": hooks_commits,
            "add_only": True,
        },
        "engines": [
            {"name": "h5vharness", "path": "harness/", "serves_properties": sorted(CLAIMED),
             "kind_free_text": "Rust harness running the real crates on protocol cases (one per line)"},
            {"name": "h5vdriver", "path": "lean/Driver/Main.lean", "serves_properties": sorted(CLAIMED),
             "kind_free_text": "compiled Lean model driver speaking the same line protocol"},
            {"name": "lean-proofs", "path": "lean/H5V/Props/", "serves_properties": sorted(CLAIMED),
             "kind_free_text": "Lean 4 theorems, one file per property; lake build + #print axioms audit"},
        ],
        "checks": checks,
        "notes": "All checks: ./check Cxx --tier quick|thorough; they rebuild the Lean modules and the harness from "
                 "/repo's working tree, run the translator, audit axioms, run the correspondence and the oracle. "
                 "known_findings.json lists fixed/known defects.",
        "not_applicable": na,
    }
    json.dump(man, open(os.path.join(ROOT, "MANIFEST.json"), "w"), indent=1)
    print("MANIFEST.json: %d checks, %d not claimed" % (len(checks), len(na)))

if __name__ == "__main__":
    main()
