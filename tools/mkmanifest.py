#!/usr/bin/env python3
"""Regenerates MANIFEST.json from the table below (claimed properties) — run after registering a check."""
import json, os
ROOT = os.path.dirname(os.path.dirname(os.path.abspath(__file__)))

CLAIMED = {
    "C13": dict(
        engine="bq", design_ref="6.13",
        technique="Lean 4 proof (refinement of the buffer list to its concatenation, invariant by induction over "
                  "operation histories) + model/code correspondence on exhaustive op×boundary cover",
        text="Every BufferQueue operation is proved (Lean kernel, no axioms beyond propext/Quot.sound) to act on the "
             "concatenation of the buffers exactly as the property states, for all queues, sets, patterns and histories; "
             "the model is tied to buffer_queue.rs by running both on an exhaustive cover of op × buffer-boundary "
             "placements plus seeded random histories, and a flat-string oracle is evaluated on the real code.",
        note="Trusted: Lean kernel; the hand-written model + the bq correspondence (differential, coverage reported in "
             "evidence); eat proved at character level for ASCII patterns with ==/ASCII-case-insensitive eq; tendril "
             "primitives are C11's subject."),
}

CLAIMED["C14"] = dict(
    engine="tok", design_ref="6.14",
    technique="Lean 4 proof: kernel-checked equality of the table regenerated from entities.rs with the frozen WHATWG "
              "table (decide +kernel, 2231 rows), lookup/prefix-closure and numeric-accumulator theorems; "
              "model/code correspondence + exhaustive enumeration of names x followers x contexts against a reference decoder",
    text="The named-reference table and the C1 table compiled into html5ever are proved equal to frozen WHATWG references "
         "on every run (translator + kernel); the model of build.rs/phf lookup is proved exact on names, prefix-closed and "
         "empty elsewhere; the wrapping numeric accumulator with its overflow latch is proved to decide 'value > 0x10FFFF' "
         "for digit strings of any length and finish_numeric to return the standard's code point. The char-ref model is tied "
         "to the Rust by the tok correspondence; the property's finite quantifier is enumerated on the real code against an "
         "independent Python decoder (quick: a stratified subset, thorough: the full product and all numeric values).",
    note="Trusted: Lean kernel; tools/extract.py; Python's html.entities as the WHATWG reference; the Python reference "
         "decoder; phf/string_cache are modelled as a finite map. The longest-match walk is carried by the correspondence "
         "and the enumeration, not yet by a theorem.")

PENDING_REASON = "not claimed yet: the Lean model / engine for this property is still under construction (see DESIGN.md section 8); no check is registered rather than registering one that is not sound"

def main():
    props = [json.loads(l) for l in open(os.path.join(ROOT, "properties.jsonl"))]
    checks = []
    na = []
    for p in props:
        pid = p["id"]
        c = CLAIMED.get(pid)
        if not c:
            na.append({"property_id": pid, "reason": PENDING_REASON})
            continue
        checks.append({
            "property_id": pid,
            "quick_cmd": "./check %s --tier quick" % pid,
            "thorough_cmd": "./check %s --tier thorough" % pid,
            "evidence_file": "/verif/evidence/%s.json" % pid,
            "replay_cmd_template": "./check %s --replay {path}" % pid,
            "engine": c["engine"],
            "level_claimed": {"category": "proof", "text": c["text"], "design_ref": "DESIGN.md section " + c["design_ref"]},
            "level_note": c["note"],
            "technique": c["technique"],
        })
    hooks_commits = []
    hp = os.path.join(ROOT, "hooks_commits.txt")
    if os.path.exists(hp):
        hooks_commits = [l.strip() for l in open(hp) if l.strip()]
    man = {
        "version": 1,
        "setup_cmd": "./tools/setup.sh",
        "hooks": {
            "guard": "cargo feature `verif-hooks` (html5ever, xml5ever, tendril)",
            "enable": "harness/Cargo.toml depends on the /repo crates by path with features = [\"verif-hooks\"] where hooks exist",
            "baseline_off_cmd": "cd /repo && cargo test --workspace --no-fail-fast --offline",
            "source_commits": hooks_commits,
            "add_only": True,
        },
        "engines": [
            {"name": "h5vharness", "path": "harness/", "serves_properties": sorted(CLAIMED),
             "kind_free_text": "Rust harness running the real crates on protocol cases (one per line)"},
            {"name": "h5vdriver", "path": "lean/Driver/Main.lean", "serves_properties": sorted(CLAIMED),
             "kind_free_text": "compiled Lean model driver speaking the same line protocol"},
            {"name": "lean-proofs", "path": "lean/H5V/Props/", "serves_properties": sorted(CLAIMED),
             "kind_free_text": "Lean 4 theorems, one file per property; lake build + #print axioms audit"},
        ],
        "checks": checks,
        "notes": "All checks: ./check Cxx --tier quick|thorough; they rebuild the Lean modules and the harness from "
                 "/repo's working tree, run the translator, audit axioms, run the correspondence and the oracle. "
                 "known_findings.json lists fixed/known defects.",
        "not_applicable": na,
    }
    json.dump(man, open(os.path.join(ROOT, "MANIFEST.json"), "w"), indent=1)
    print("MANIFEST.json: %d checks, %d not claimed" % (len(checks), len(na)))

if __name__ == "__main__":
    main()
