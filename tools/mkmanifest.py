#!/usr/bin/env python3
"""Regenerates MANIFEST.json from the table below (claimed properties) — run after registering a check."""
import json, os
ROOT = os.path.dirname(os.path.dirname(os.path.abspath(__file__)))

CLAIMED = {
    "C15": dict(
        engine="xmltok", design_ref="6.15",
        technique="Lean 4 proof (reader primitives monotone/resumable, step_mono + step_resume + invariant + simulation up "
                  "to a dead current_char, composed over runs and feed sessions; option simulation equal-up-to-parse-errors through "
                  "every reader, the table, the character-reference machine, feed and end(); side condition on the fast-path sets by "
                  "decide against the regenerated small_char_set! table) + model/code correspondence on an exhaustive "
                  "state × character-class × suffix cover; code-vs-code oracles for options, CR/NUL/BOM and trees",
        text="For the model of xml5ever's tokenizer (all 50 states startable through initial_state, char-ref "
             "sub-tokenizer, qname splitting, duplicate check) it is proved for ALL strings and ALL chunkings that feeding "
             "any list of chunks leaves the tokenizer in the machine a one-piece feed reaches, up to a dead current_char, "
             "with the same tokens delivered (C15_chunking), that end() then emits the same tokens (C15_finish_sim), that "
             "U+FEFF is dropped only as the first character of the stream (C15_bom_once), that every small_char_set! "
             "contains CR, NUL and its state's special characters (C15_sets_cover, against the table regenerated from "
             "the source each run) and that outside the set the fast path equals the slow path (C15_fast_eq_slow). "
             "exact_errors never changes the token stream: for any two option values, any machine and any chunking the "
             "sessions and end() deliver the same tokens once parse errors are erased (C15_exact_errors_tokens). The loop's "
             "fuel bound and totality of end() are proved under C04 (C04_xml_parse_total). No raw CR / NUL reaches the sink (Props/C15Clean.lean, "
             "C15_no_raw_cr_nul: for every input and chunking no token contains U+0000, and U+000D occurs only in character "
             "tokens and attribute values, where only a numeric reference can put it - C15_step_provenance, C15_ref_no_nul; "
             "C15_clean_no_refs: without '&' no CR at all). Tree level (Props/C15Tree.lean): the XML tree-builder model is "
             "insensitive to how text is cut into character tokens (C15_tree_merge_obs; the NUMBER of parse-error reports does "
             "depend on the cut - C15_tree_error_count_depends_on_cut - and is observed only up to repetition). END TO END "
             "(Props/C15Joint.lean): the joint parse on the models (Model/XmlJoint.lean: tokenizer model fed chunk after chunk and "
             "ended, its tokens handed to the tree-builder model as XmlTreeBuilder::process_token does; executed by the driver as "
             "`xmltok jtree` against the real parse_document on every tree case) always succeeds (C15_joint_total) and for ALL "
             "inputs, ALL chunkings and BOTH values of exact_errors ends in the SAME tree-builder state as the one-piece default "
             "parse (C15_joint_end_to_end_state, C15_joint_any_two; C15_joint_run_boundaries: also for any other cut of text runs "
             "into character tokens, which is what the real tokenizer's bulk reads produce). The real code is additionally checked by "
             "code-vs-code oracles (every 2-partition / singletons / random partitions; exact_errors on/off modulo error "
             "tokens; CR and CRLF spellings vs LF; NUL vs U+FFFD; discard_bom on/off; tokens and RcDom trees).",
        note="Trusted: Lean kernel; the hand-written model + the xmltok correspondence (token stream incl. error messages on "
             "state-cover, pair-cover, charref-cover, soup); tools/extract.py; BufferQueue = flat stream (C13). Bulk reads "
             "are modelled one character at a time (tokens compared after merging character tokens)."),
    "C19": dict(
        engine="meta", design_ref="6.19",
        technique="Lean 4 proof (index-based model of encoding.rs refined to the WHATWG extraction algorithm written as "
                  "the standard's loop, by induction on loop fuel / remaining length) + model/code correspondence through "
                  "the real public API; firing rule proved for the tree-builder model over all 21 insertion modes + oracle on the "
                  "real tokenizer + tree builder",
        text="Extraction is a theorem: for ALL byte strings the model of encoding.rs "
             "(extract_a_character_encoding_from_a_meta_element: byte offsets, `?` early returns, every slice index / "
             "usize subtraction / subtendril as a panic branch, both loops on fuel) returns exactly what the WHATWG "
             "'extracting a character encoding from a meta element' algorithm returns (raw label — html5ever does not "
             "perform the final 'get an encoding' lookup) and never panics; the model is tied to the code by feeding "
             "`<meta http-equiv=content-type content=…>` to the real Tokenizer+TreeBuilder+RcDom and comparing the label "
             "of the EncodingIndicator returned by feed() on a grammar-exhaustive set of content strings. "
             "THE FIRING RULE is a theorem about the tree-builder model (Props/C19Fire.lean): C19_in_head_meta - the in-head "
             "rule on a meta start tag answers EncodingIndicator(l) iff the tag qualifies with label l (charset attribute, else "
             "http-equiv = content-type + extractable content; the charset attribute wins: C19_charset_wins), the element "
             "having been created, inserted and popped and nothing else of the builder changed; C19_only_meta_fires - for "
             "every state, insertion mode and token an indicator is answered ONLY for such a meta start tag (not link / base / "
             "other elements' attributes; all 21 modes and foreign content); C19_meta_routing - in which modes a meta start tag "
             "reaches that rule (in head, in head noscript, after head, in body, in template, in caption, in cell, the table "
             "modes via foster-parented in-body, in column group; reprocessed in initial / before html / before head / after "
             "body / after after body / in table text; ignored in the frameset modes; break-out in foreign content); "
             "C19_at_most_once - a token list produces at most one indicator per qualifying meta. On the real code the clause "
             "is additionally checked by an oracle — indicators vs qualifying HTML meta elements of the final tree, for meta / "
             "link / base / basefont / bgsound variants in every insertion-mode context and fragment context, every "
             "split position, and tree + parse-error equality with the same document with the attributes neutralised.",
        note="Trusted: Lean kernel; Spec.MetaExtract (my transcription of the standard's algorithm, cross-checked each run "
             "against an independent Python transcription); byte-level reading of an algorithm that only inspects ASCII; "
             "the hand-written model + the meta correspondence. StrTendril::subtendril's UTF-8 boundary check: the slice is cut next to "
             "ASCII bytes of a UTF-8 string, hence at character boundaries, hence decodes - proved for every content string "
             "(Props/C19Decodes.lean: C19_extract_boundaries, C19_label_decodes, C19_metaDecodes; the primed firing theorems carry "
             "no hypothesis about it any more)."),
    "C10": dict(
        engine="utf8", design_ref="6.10",
        technique="Lean 4 proof (streaming invariant relating the pending incomplete prefix to the unread suffix; "
                  "modelled str::from_utf8 proved equal to a table-driven Unicode Table 3-7 spec) + model/code "
                  "correspondence on exhaustive lead-byte × continuation-class × split-position covers; "
                  "encoding_rs path: abstract-decoder theorem + differential run of the real decoders",
        text="For ALL chunk lists the model of Utf8LossyDecoder (decode_utf8, IncompleteUtf8::try_complete_offsets, "
             "process/finish loops, every unwrap/slice/pop_front as a panic branch) is proved to deliver to the inner "
             "sink exactly the spec's lossy decode of the concatenation (one error + U+FFFD per maximal ill-formed "
             "subpart, in place), never to panic, to be independent of chunking, and to hand over only non-empty "
             "well-formed UTF-8 pieces; the spec's scalar values are proved shortest-form, non-surrogate, ≤ U+10FFFF. "
             "The model is tied to the code by the exact sequence of sink calls on exhaustive covers; the modelled "
             "from_utf8 is validated against the real one. LossyDecoder over encoding_rs: partial — decode_to_sink is "
             "proved against an arbitrary abstract decoder (forwards every output, one replacement per Malformed, drains "
             "at end of stream); the real decoders (40 encodings × partitions) and the parsers behind from_utf8() "
             "are exercised differentially against a one-shot decode / one-piece parse.",
        note="Trusted: Lean kernel; Spec.Utf8 (my transcription of Table 3-7, cross-checked against Python's codec each "
             "run); the model of core::str::from_utf8 (validated, not proved, against the real function); the hand-written "
             "model + the utf8 correspondence. Partial: encoding_rs decoders are an external library — only their "
             "documented streaming contract is assumed, and their agreement with a one-shot decode is tested, not proved; "
             "tree equality through from_utf8() rests on C03 (chunking independence of the tokenizer) and is tested here."),
    "C13": dict(
        engine="bq", design_ref="6.13",
        technique="Lean 4 proof (refinement of the buffer list to its concatenation, invariant by induction over "
                  "operation histories) + model/code correspondence on exhaustive op×boundary cover",
        text="Every BufferQueue operation is proved (Lean kernel, no axioms beyond propext/Quot.sound) to act on the "
             "concatenation of the buffers exactly as the property states, for all queues, sets, patterns and histories; "
             "the model is tied to buffer_queue.rs by running both on an exhaustive cover of op × buffer-boundary "
             "placements plus seeded random histories, and a flat-string oracle is evaluated on the real code. eat, which the Rust "
             "runs on BYTES, is additionally modelled literally at byte level (buffers_exhausted / consumed_from_last over the UTF-8 "
             "encoding, commit through pop_front with its char-boundary check) and proved equal to the character-level model for "
             "ALL patterns under the two comparators html5ever uses, never reaching a panic site (Props/C13Bytes.lean: "
             "C13_eat_bytes_eq_chars_all, C13_eat_bytes_no_panic; witnesses: an arbitrary comparator can commit inside a character).",
        note="Trusted: Lean kernel; the hand-written model + the bq correspondence (differential, coverage reported in "
             "evidence); eat proved at character level and bridged to the byte-level loop for ==/ASCII-case-insensitive eq "
             "(the comparator the harness passes additionally reads the queue while eat runs); tendril primitives are C11's subject."),
}

CLAIMED["C14"] = dict(
    engine="tok", design_ref="6.14",
    technique="Lean 4 proof: kernel-checked equality of the table regenerated from entities.rs with the frozen WHATWG "
              "table (decide +kernel, 2231 rows), lookup/prefix-closure and numeric-accumulator theorems; "
              "model/code correspondence + exhaustive enumeration of names x followers x contexts against a reference decoder",
    text="The named-reference table and the C1 table compiled into html5ever are proved equal to frozen WHATWG references "
         "on every run (translator + kernel); the model of build.rs/phf lookup is proved exact on names, prefix-closed and "
         "empty elsewhere; the wrapping numeric accumulator with its overflow latch is proved to decide 'value > 0x10FFFF' "
         "for digit strings of any length and finish_numeric to return the standard's code point; the named-reference walk is proved to "
         "remember exactly the longest table name that is a prefix of the text after '&' (prefix closure => nothing longer exists). RUN "
         "LEVEL (Props/C14Run.lean): against specCharRef, a register-free transcription of the standard's character-reference "
         "states 13.2.5.72-80 (Spec/CharRef.lean), C14_run_resolves / C14_every_reference prove that from the '&' on, in data / "
         "RCDATA and in attribute values, the sub-tokenizer delivers exactly the standard's characters, gives back exactly the "
         "unconsumed text in order, and reports a parse error iff the standard does - named (longest match, attribute "
         "exception for '=' / alphanumeric followers, missing semicolon, ambiguous ampersand), numeric (no digits, missing "
         "semicolon, 0 / out of range / surrogates -> U+FFFD, C1 table, noncharacters), neither; C14_eof_resolves for a "
         "reference cut off by end(), C14_run_chunked for any chunking. The char-ref model is tied "
         "to the Rust by the tok correspondence; the property's finite quantifier is enumerated on the real code against an "
         "independent Python decoder (quick: a stratified subset, thorough: the full product and all numeric values).",
    note="Trusted: Lean kernel; tools/extract.py; Python's html.entities as the WHATWG reference; the Python reference "
         "decoder; phf/string_cache are modelled as a finite map. The longest-match walk is a theorem (Walk.C14_named_longest + "
         "Walk.C14_walk_is_do_named: the registers of do_named evolve as the walk, and when the buffer leaves the map the "
         "remembered match is the longest table name that is a prefix of the text) and what finish_named then does with it is "
         "part of C14_run_named. Spec/CharRef.lean was additionally compared outside Lean with a literal Python state machine "
         "of 13.2.5.72-80 on 128k texts x 2 contexts (0 mismatches).")

CLAIMED["C07"] = dict(
    engine="ser", design_ref="6.7",
    technique="Lean 4 proof about a byte-level model of html5ever/src/serialize/mod.rs and of rcdom's "
              "SerializableHandle traversal (loop invariant for write_escaped's search_start/next_special arithmetic, "
              "per-character UTF-8 case analysis, induction on strings, mutual induction on trees, refinement of the "
              "ElemInfo stack to a pure renderer) + model/code correspondence (engine ser) on exhaustive escape / "
              "element-name × namespace × scope / Serializer-call-sequence covers and seeded random and parsed trees "
              "+ oracles evaluated on the real code",
    text="Proved in Lean (kernel, axioms ⊆ propext/Classical.choice/Quot.sound) for all inputs: "
         "C07_write_escaped_eq — the write_escaped loop never panics and equals a structural byte function for every "
         "byte string; C07_current_write_escaped — for every string and both modes the bytes written are UTF-8 of the "
         "standard's character-level escape; C07_unescape_text / C07_unescape_attr — a reader for the data state / "
         "double-quoted attribute value state (five references, CR/NUL preprocessing) returns the original string from "
         "its escape, also when followed by `<…` / `\"…`, for every string free of CR and NUL (C07_witness_cr/_nul show "
         "why those are excluded); C07_escape_text_no_lt / C07_escape_attr_no_quote — escaped text contains no `<`, `>` "
         "and no `\"` in attribute mode, so nothing leaves its context; C07_serialize_eq_render, C07_no_panic, "
         "C07_runOps_eq, C07_serializeOps_eq — the serializer is a pure function of the tree, reaches no panic site on "
         "trees without Document nodes, and rcdom's op-deque loop equals the recursive traversal; C07_tags + "
         "C07_current_inner_outer — for every element of every tree and all options, serializing the children with "
         "the element named as parent yields exactly the bytes between its start and end tag; C07_raw_only_html + "
         "C07_current_scope_raw — text is written unescaped iff the parent is an HTML-namespace raw-text element "
         "(and scripting is on, for noscript). The `_partial`, `_witness_*` and `C07_pinned_*` theorems record the three "
         "defects of the pinned snapshot that were repaired by fix: commits (0xC2 lead byte dropped; namespace of the "
         "ChildrenOnly parent ignored; void ChildrenOnly parent). THE ROUND TRIP (Props/C07RT.lean): C07_roundtrip - for "
         "every forest of ordinary elements (names without an in-body rule of their own, the plain block elements, properly "
         "nested formatting elements other than a/nobr; distinct lower-case attribute names; values and text free of CR/NUL; "
         "non-empty non-adjacent text) the serializer model writes renderF f and the fragment parser model (context div; "
         "tokenizer model with the tree-builder model as its sink; feed, end, TreeBuilder::end; every tree-builder option set, "
         "scripting on/off, exact_errors off) run on that text returns exactly f under the root and reports no parse error; "
         "layers C07_tok_roundtrip (token stream of the serialisation) and C07_tb_roundtrip (tree builder on the token "
         "image, any splitting of text into character tokens). Hypothesis noLeadingBom: with the default discard_bom a "
         "U+FEFF that starts the serialisation is dropped (C07_witness_leading_bom; KNOWN FINDING C07-leading-bom, confirmed "
         "on the real code, documented option, recorded not repaired). Outside that vocabulary (p, headings, li, option, a, "
         "nobr ...) and for the real code the round trip is checked by the rt= oracle (real parse_fragment(context div) of "
         "the serialized children of seeded random ordinary trees, formatting-element trees and boundary strings, with "
         "discard_bom off, with the default options, and in pieces), together with inner = outer on the real code for every element of "
         "every generated and every parsed tree × both scripting settings, and byte equality with an independent "
         "python reference serializer.",
    note="Trusted: Lean kernel; the hand-written model lean/H5V/Model/HtmlSer.lean + the ser correspondence "
         "(differential; families and counts in evidence); str::as_bytes modelled by core Lean's String.utf8EncodeChar "
         "and memchr2/memchr3 as first-index search (validated by the correspondence, not proved); the reader "
         "`unescape` is a hand-written abstraction of the tokenizer restricted to the references the serializer emits; "
         "the python reference serializer used as byte oracle. Round trip claimed for the ordinary vocabulary only "
         "(no void / raw-text / implied-end-tag / formatting / table / select / template elements, text non-empty, not "
         "adjacent, free of CR and NUL) and with TokenizerOpts.discard_bom = false (with the default, a U+FEFF that "
         "starts the first text node is dropped by the tokenizer by design of that option). Writer I/O errors are not "
         "modelled. The serializer writes text children of void elements and has no leading-newline handling for "
         "pre/textarea/listing; both are outside the property's vocabulary and modelled as they are.")

CLAIMED["C11"] = dict(
    engine="tendril", design_ref="6.11",
    technique="Lean 4 proof: heap model of tendril.rs / buf32.rs / fmt.rs / futf.rs (index-checked arena, the three "
              "representations inline/owned/shared), well-formedness invariant, refinement of every operation to an "
              "independent pool of owned byte strings with a frame (independence) clause, induction over histories; "
              "UTF-8 format laws proved against Unicode Table 3-7; model/code correspondence on an exhaustive "
              "op × representation × boundary-length cover incl. representation kind, sharing groups and allocation "
              "events; Python owned-string reference as oracle",
    text="For ALL heaps and pools satisfying the invariant WF (ranges inside initialised data, owned buffers referenced "
         "once, refcount = number of referents, ledger consistent) and holding valid contents, every operation of the "
         "model (new/from/push/try_push/push_char/push_tendril incl. the adjacent-slice merge, pop_front/pop_back and "
         "their try_ variants, subtendril, clone, clear, drop, pop_front_char, pop_front_char_run, into_send round trip, "
         "reserve, with_capacity, DerefMut store) is proved to preserve WF, never to reach undefined behaviour, to change "
         "its own slot exactly as the owned-string specification says and to leave every other slot's bytes unchanged; "
         "checked operations answer Err exactly when out of bounds / invalid for the format; lifted to all histories by "
         "induction (C11_run_refines, C11_reachable_wf). Proved for Bytes, ASCII, Latin1 and UTF8 (laws_utf8: the futf "
         "prefix/suffix checks are exact on parts of valid strings; C11_utf8_valid: a UTF-8 tendril always holds "
         "well-formed UTF-8) and for WTF-8 (Props/C11Wtf8.lean: the same refinement with the concatenation FIX-UP, against "
         "Spec.concatWtf8 - decode both operands as generalised UTF-8, join a lead + trail surrogate at the seam into the "
         "supplementary code point, re-encode - written from the WTF-8 document; C11_wtf8_fixup_agrees: WTF8::fixup = that "
         "specification on every pair of well-formed operands; C11_wtf8_valid: every slot and every buffer always holds "
         "well-formed WTF-8, incl. the zero-copy merge of adjacent views, which never calls fixup). Below 2^30 bytes the model panics only where the specification does "
         "(C11_no_spurious_panic). The model is tied to the Rust by the tendril correspondence (result, bytes, "
         "inline/owned/shared kind, sharing groups, allocation sizes after every op; 5 formats × 2 atomicities).",
    note="WTF-8 cannot satisfy Laws (plain append; not_laws_wtf8), so its refinement is proved over LawsFx with the buffer-"
         "level validity invariant BufWf (histories without DerefMut byte stores, which tendril offers for Bytes only). The "
         "check found a genuine defect "
         "there (WTF8::validate accepted a stray continuation byte after a 2-/3-byte character and skipped what "
         "followed: C11_witness_wtf8_validate_pinned), fixed in /repo by 218f57f; the model follows the fix "
         "(C11_wtf8_validate_rejects_stray) and corpus/C11/wtf8_validate.case keeps the witnesses as regression "
         "cases. A push that needs growth beyond 2^31 bytes panics with OFLOW (documented upstream capacity rounding; "
         "C11_witness_oflow_2gib) — outside the exercised range, never an alarm. Trusted: Lean kernel; the "
         "hand-written model + the tendril correspondence (differential, coverage in evidence); str::from_utf8 / "
         "char_indices modelled by a Table 3-7 decoder (validated on boundary sequences, thorough tier on all leading "
         "byte pairs); pointer provenance, transmutes between formats/atomicities and Vec/allocator internals are "
         "abstracted; on a panic the model keeps the old state (OFLOW inside grow after make_owned, > 2 GiB, is the only "
         "panic after a mutation in the Rust).")

CLAIMED["C12"] = dict(
    engine="tendril", design_ref="6.12",
    technique="Lean 4 proof over the same heap model with every raw access a checked primitive and an allocation trace: "
              "invariant preservation + absence of Fault.ub for every operation, an independent ledger monitor accepting "
              "the trace, live-iff-referenced, empty-at-end, and a theorem on all interleavings of atomic "
              "fetch_add/fetch_sub events; correspondence incl. allocation events; harness global allocator with layout "
              "check, canary, poison + quarantine; multi-thread family; Miri sample in the thorough tier",
    text="Partial (model-level): for every operation from every reachable state, for all five formats, the invariant is "
         "preserved and no modelled access is a wild / dangling / out-of-bounds access, double free, wrong-layout "
         "dealloc or refcount underflow (C12_step_safe, C12_reachable, C12_reachable_valid); the monitor replaying the "
         "trace accepts it and agrees with the heap (C12_ledger), in an accepted trace an id is allocated once, freed "
         "at most once and never mentioned after its release (mon_free_once, mon_dead_forever); a buffer is live iff "
         "some tendril refers to it and its refcount is the number of referents (C12_live_iff_referenced); dropping "
         "all tendrils releases every buffer exactly once (C12_empty_at_end); for any interleaving of atomic clone / "
         "drop / send events by threads that hold the references they use, exactly one fetch_sub observes 1 and it is "
         "the last event (C12_atomic_interleaving).",
    note="The theorems are about the model's arithmetic, not about pointer provenance, the transmutes or the memory "
         "model: fetch_add/fetch_sub are assumed linearisable and the Release/Acquire fences assumed to make that "
         "linearisation valid for the buffer contents. Real memory is observed, not proved: the harness allocator "
         "(events with sizes compared with the model after every op, layout/canary/poison/quarantine checks, live=0 at "
         "the end of every case), 4-thread scripts compared with a sequential replay, Miri (no UB on a sample, thorough "
         "tier). UTF-8 safety rests on contents staying valid (via C11's laws).")

CLAIMED["C20"] = dict(
    engine="rcdom", design_ref="6.20",
    technique="Lean 4 proof about a statement-by-statement arena model of rcdom/lib.rs (invariant = parent links "
              "consistent with child lists + no duplicates + acyclic + only documents/elements have children, "
              "preserved by every TreeSink call within the contract, by induction over call sequences; work-list "
              "serializer = recursive pre-order) + model/code correspondence on op x node-kind cover, harvested "
              "parser traces and random contract-abiding sequences + independent Python reference DOM as oracle",
    text="Proved (Lean kernel, axioms within propext/Classical.choice/Quot.sound) for all arenas satisfying the invariant "
         "and all calls satisfying the TreeSink contract `H5V.Model.Dom.Contract`, hence for all contract-abiding call "
         "sequences from RcDom::default(): parent links name exactly the node whose child list holds the node, no node "
         "listed twice, no cycles (C20_parent_links_step/_parent_links/_reachable_inv); text merging of append / "
         "append_before_sibling and `no adjacent text siblings` for every call that cannot detach a node, with iff "
         "characterisations of when remove_from_parent / reparent_children break it; add_attrs_if_missing never "
         "overwrites and adds each missing name once; reparent_children keeps order and empties the source; template "
         "contents; remove_from_parent; the repaired append_before_sibling inserts immediately before the sibling "
         "whatever old parent the node had; the repaired option->selectedcontent mirroring preserves the invariant "
         "and replaces the selectedcontent's children by DEEP copies of the option's children, in order (Props/C20Deep.lean, "
         "C20_clone_option: every copied subtree is isomorphic to the original one to every depth - data, children, template "
         "contents cloned recursively and never shared -, all copy ids fresh, parent links consistent, the originals and "
         "every other node untouched; TcValid, the extra well-formedness it needs, holds in every reachable arena); rcdom's Serialize "
         "visits every node of a tree exactly once in document order within the stated fuel. The model is tied to "
         "rcdom/lib.rs by replaying TreeSink traces on the real RcDom (through the trait, under the contract monitor) "
         "and on the model: dumps incl. Weak parent pointers, template contents, quirks mode, parse errors and the "
         "serializer's call sequence must be identical; a Python reference DOM written from the property recomputes "
         "the expected result of every contract-abiding case.",
    note="Trusted: Lean kernel; the hand-written model lean/H5V/Model/Dom.lean + the rcdom correspondence "
         "(differential; coverage in evidence); the Python reference DOM (oracle). Carried by the correspondence only, "
         "not proved: that contract-abiding calls never panic in RcDom (valid families never panic; see C05; for the mirror "
         "call the contract alone is NOT enough - C05_mirror_needs_more_than_contract: a template placed inside its own "
         "contents makes the clone diverge - which is why C05 keeps its NotMirror exclusion), Rc/Weak lifetimes and Drop (the arena never "
         "frees a node, the engine keeps every handle alive). Two defects found on the pinned tree (selectedcontent "
         "never mirrored; append_before_sibling stale index) are repaired in /repo (ebdbd68, 394a5e0); the pinned "
         "behaviour is kept as named model variants with witness theorems, the minimal inputs as regression corpus.")

CLAIMED["C16"] = dict(
    engine="xmltb", design_ref="6.16",
    technique="Lean 4 proof (token-level model of the xml5ever tree builder + the tokenizer's per-tag attribute step; "
              "balance invariant and panic freedom by induction over token lists; simulation of the model by an "
              "independent lexical-scope resolver S.resolve) + model/code correspondence through XmlTreeBuilder fed "
              "directly and through the real tokenizer; independent Python resolver as oracle on the real code",
    text="For every token list the model of the tree builder never hits an expect and keeps exactly one namespace map per "
         "open element (C16_balance; the one unbalanced End-phase state after an empty <script/> root is part of the "
         "invariant and harmless). With the committed fixes the created elements - prefix, namespace, local name, "
         "attribute namespaces, order, values - equal the recursive scope resolver S.resolve for EVERY sequence of lexed "
         "tags and other tokens, no side condition (C16_resolve_source_fixed = tokenizer duplicate step + builder); the same "
         "holds for the create_element calls in the sink-call trace of the HANDLE-LEVEL model of the builder (Model/XmlTBH.lean, "
         "compared literally with the real XmlTreeBuilder's trace by `xmltb trace`): Props/C16Xml.lean proves a simulation between "
         "the two models (bsim_step, no hypothesis) and C16_xml_trace_resolve_source: those calls carry exactly S.resolve's names "
         "and attributes; an "
         "attribute is dropped only if an earlier attribute of the tag has the same qualified / expanded name "
         "(C16_tok_dropped_only_if_fixed, C16_attr_dropped_only_if, C16_attrs_sublist); process_qname splits exactly at a "
         "single inner colon (C16_splitQName_*). The pre-fix behaviour is kept as named configurations TokCfg.code / "
         "TbCfg.code with _partial theorems and decided witnesses (item 14, p:xmlns, duplicate declarations).",
    note="Trusted: Lean kernel; the hand-written model lean/H5V/Model/XmlTB.lean and Spec lean/H5V/Spec/XmlNs.lean (choices "
         "where the property is silent are listed there: unbound prefix => empty namespace, xmlns-URI / xml / xmlns "
         "declarations without effect, first of duplicate declarations counts); the xmltb correspondence (exhaustive "
         "3-level nestings x closers x tag-kind sequences x attribute orders + seeded random, coverage in evidence). "
         "Lexing of XML text into raw tags is NOT modelled here: src cases carry it on structurally generated documents "
         "only, through the real tokenizer. Tokens are assumed to reach the builder with ns=\"\" (what the tokenizer emits).")

CLAIMED["C17"] = dict(
    engine="xmlser", design_ref="6.17",
    technique="Lean 4 proof (model of XmlSerializer + rcdom Serialize as an event stream; escaping lemmas; the tree-builder "
              "model of C16 run on the lexed events, by induction on the well-nested event stream; simulation between the "
              "serializer's namespace stack, the parser's stack and the Spec environment by induction on the tree) + byte-exact "
              "model/code correspondence of the serialized text + real re-parse equality oracle (tree -> serialize -> parse, "
              "and source -> parse -> serialize -> parse)",
    text="Escaping is proved reversible for every string in text and attribute mode, escaped text contains no '<' and an "
         "escaped value no '\"' (C17_unescape_escape, C17_escape_delimiters, C17_text/attr_roundtrip). Round trip "
         "(C17_roundtrip_partial, for every serializer/lexer/builder configuration): a parsed-shape document (misc* root "
         "misc*, no doctype / empty / adjacent text inside elements) serialized, lexed and rebuilt gives the same tree - "
         "names, namespaces, attribute order and values, text, comments, PIs, nesting; doctype ids dropped - PROVIDED every "
         "written start tag resolves, in the scope of the declarations written so far, to the element's own name and "
         "attributes (okEvs, a decidable check of the output). For the serializer as fixed in /repo okEvs is itself a "
         "theorem (C17_okEvs_fixed: every prefix used by an element or any of its attributes is declared, the default "
         "namespace is un-declared where needed, for every tree with parser-produced tags), giving C17_roundtrip_fixed "
         "without side condition, U+000D included. The five pre-fix defects are decided witnesses about the named "
         "configuration SerCfg.code. WITH THE TOKENIZER MODEL IN THE LOOP (Props/C17RT.lean): C17_tok_events - the XML "
         "tokenizer model fed the serializer model's text (any chunking, either exact_errors value, either discard_bom "
         "setting; the output always starts with '<') and end()ed delivers, after dropping error tokens and merging character "
         "tokens, exactly the event list lexEv; C17_roundtrip_tok composes it with the tree builder: serialize, tokenize, "
         "build = the same tree, no abstract lexer left - under the lexical hypothesis nodesLex (names without blanks / '/' "
         "/ '>' / '=' in the wrong places, no leading ':' on attribute names, comments without '--', PI data not starting "
         "with a blank ...). The hypothesis is needed: three PARSER-PRODUCED trees violate it and do not round-trip "
         "(C17_witness_attr_leading_colon `<r a :b='1'/>`, C17_witness_prefix_eq `<=a:b/>`, C17_witness_pi_blank `<?t? x?>`; "
         "confirmed on the real code; KNOWN FINDINGS C17-lex-colon / -eq / -pi: the error-tolerant XML5 tokenizer accepts "
         "names no XML text can spell; recorded, not repaired). EVERY PARSED DOCUMENT IS IN THE CLASS (Props/C17Shape.lean): "
         "C17_parsed_shape / C17_roundtrip_parsed - for every token list of tokenizer shape the tree-builder model's document "
         "satisfies all hypotheses of the round-trip theorem (class widened to treesOKW: the original `consistent` clause "
         "wrongly excluded an element in a default namespace with an unprefixed attribute, C17_witness_class_gap), rootless "
         "and empty documents included; C17_tok_always + C17_tok_lex_or_corner - every token the tokenizer model ever emits "
         "satisfies the lexical class or is a Corner token (an '=' in a name prefix, an attribute name starting with ':', PI "
         "data starting with a blank - the three known findings and one variant, C17_witness_attr_prefix_eq; no fourth kind); "
         "C17_roundtrip_source - for EVERY input text whose token stream contains no Corner token: tokenize, build, "
         "serialize, tokenize (any chunking/options), build = the same document. Formerly partial: that every tree the parser builds has parser-produced tags / parsed shape "
         "(treesOK, nodesOK) is not proved as one theorem (it follows the C16 statements: one scope per tag, duplicates "
         "removed, declarations consumed) - the src-mode oracle (parse, serialize, parse) covers it on the real code.",
    note="Trusted: Lean kernel; lean/H5V/Model/XmlSer.lean, XmlTok.lean, XmlTB.lean + their correspondences; `lexEv` (names "
         "split at the colon, five references + &#13; decoded, CR/LF normalisation, declarations/attributes through the "
         "modelled attribute step) is now PROVED to be what the tokenizer model delivers under nodesLex (C17_tok_events) and "
         "is still validated on every case: tree-builder model on lexEv tokens = real re-parse of the real bytes. "
         "Doctype public/system ids are outside the serializer API.")

CLAIMED["C05"] = dict(
    engine="rcdom", design_ref="6.5",
    technique="run-time contract monitor on the real HTML and XML tree builders (TracingSink<RcDom>: every sink call is "
              "validated before it is forwarded) over generated documents, fragments, scripting on/off and random "
              "chunking + replay of every harvested call trace on the Lean DOM model, which evaluates the same "
              "contract per call (ties the monitor to the Lean predicate) + Lean 4 theorems about the DOM side of the "
              "contract",
    text="That the tree builders only issue calls satisfying the documented TreeSink contract "
         "(`H5V.Model.Dom.Contract`: element-only operations get elements, appended nodes are parentless, nothing is "
         "inserted under itself or a descendant, insert-before siblings are non-text nodes with a parent, at most one "
         "doctype and before any element, no attribute list with a repeated name) is PROVED for the HTML tree-builder model "
         "(Props/C05TB.lean, C05_tb_contract / _fragment; ~10k lines): for EVERY token list whose tags carry no duplicate "
         "attribute names (what the tokenizer guarantees), every option set, document start and fragment start with any "
         "context element, every one of the builder's sink calls - all queries, create_*, every append variant, foster "
         "parenting (append_based_on_parent_node / append_before_sibling), reparent_children, the frameset remove_from_parent, "
         "and the adoption agency's remove_from_parent + re-insertion of last_node (no cycle: a stack-order vs DOM-ancestry "
         "invariant) - satisfies the contract at the moment it is made, and the DOM invariant of C20 holds at the end. THE XML "
         "BUILDER (Props/C05Xml.lean): a handle-level model of xml5ever's XmlTreeBuilder (Model/XmlTBH.lean: every TreeSink "
         "call incl. elem_name queries and parse_error with its message, every expect/unwrap as an error branch; tied to the "
         "code by `xmltb trace` - literal comparison of the sink-call trace of the real builder fed the same tokens) is proved to "
         "reach no panic site and to make only contract-abiding calls for EVERY token list whose tags carry no two unprefixed "
         "non-declaration attributes of one name (C05_xml_contract; that hypothesis is what the tokenizer's finish_attribute "
         "guarantees and is necessary: C05_xml_witness_dup_attr). On the real parsers the same is "
         "decided by the CONTRACT MONITOR for the inputs of each run and cross-checked by the model-side replay of every trace "
         "(per-call verdicts, call results and final DOM dumps identical). PROVED on the DOM side: the contract is "
         "decidable; a call within it never makes RcDom panic (every TreeSink method except the option->selectedcontent "
         "mirroring; both behaviours of append_before_sibling) and re-establishes the invariant of C20, so a "
         "contract-abiding call sequence runs to its end without a panic (C05_run) and a trace the model-side monitor "
         "does not flag does so (C05_monitor_sound); calls outside the contract do panic or corrupt RcDom (witness "
         "theorems); duplicate-free attribute lists keep elements duplicate-free.",
    note="Trusted: Lean kernel; my reading of the trait documentation as `Contract`; the monitor's shadow structure "
         "(harness/src/sinkops.rs), tied to `Contract` by replay; the DOM model of C20. Level for the quantifier `all "
         "inputs`: proof for the model (tied to the code by the tb/rcdom correspondences) + monitoring of the real parsers "
         "(coverage in evidence: parses, calls, op histogram). C05_no_panic_partial "
         "excludes maybe_clone_an_option_into_selectedcontent (fuel adequacy of three bounded loops and validity of "
         "template-contents links are outside the proved invariant; no such call panics in any case). One defect found "
         "(xml5ever appended a doctype per DOCTYPE token) is repaired in /repo (b61995b); its input stays in corpus/C05.")

CLAIMED["C18"] = dict(
    engine="rcdom", design_ref="6.18",
    technique="translator-backed Lean theorem (field lists of both tree-builder structs and the fields reported inside "
              "trace_handles are regenerated from the source each run; coverage by `decide`) + Lean reachability lemmas "
              "on the DOM model + GC-simulating sink on the real parsers (simulated collection at every chunk boundary "
              "and Script/EncodingIndicator pause, poisoned handles must never come back)",
    text="PROVED (Lean kernel): every field of html5ever's TreeBuilder and xml5ever's XmlTreeBuilder whose type mentions "
         "`Handle` is reported to the tracer inside trace_handles (C18_fields_html / _xml, on lists regenerated by "
         "tools/extract.py from /repo: an untraced new Handle field or a deleted trace_handle call breaks the proof and "
         "names the field); on the DOM model, every sink call that cannot detach a node keeps every parent / child / "
         "template-contents link, so whatever was connected to a traced handle stays connected (C18_reach_step/_run), "
         "remove_from_parent and reparent_children keep it connected once the two ends of the cut are roots "
         "(C18_reach_remove/_reparent), template contents are connected to their element (C18_reach_template). "
         "PROVENANCE (Props/C18Reach.lean, for the HTML tree-builder model, every token list, every split into 'before the "
         "suspension' and 'after'): every handle the builder passes to the sink after the suspension is one of the handles "
         "held in the traced fields at the suspension (open elements, active formatting list, head / form / context "
         "element, document) or was returned by the sink since (create_element, create_comment, get_template_contents, "
         "get_document) - the builder holds handles nowhere else, conjures none, and never obtains one from a DOM query "
         "(C18_suspension, C18_process_token, C18_answers for Script answers, C18_finish for end()). The same for the "
         "handle-level model of xml5ever's builder (Props/C18Xml.lean: C18_xml_suspension / _suspension_end / _all_from_sink, "
         "no hypothesis; `held` = doc_handle, open_elems, curr_elem in trace_handles order, compared with what the real "
         "trace_handles reports after every token - field @H of `xmltb trace`). Together with the "
         "translator theorem this is the property for the model. CHECKED AT RUN TIME on the real code (HTML and XML): "
         "a GC-simulating sink runs a collection at every chunk boundary (all 2-partitions and "
         "one-character chunkings of the document families of C05) and at every Script / EncodingIndicator return, "
         "poisons every node not connected to a traced handle, and fails if a poisoned handle is used again; a self-test "
         "(last traced handle dropped) shows the oracle fires.",
    note="Trusted: Lean kernel; the extractor's criteria (field type mentions `Handle`; a top-level statement of "
         "trace_handles mentions self.<field> and calls tracer.trace_handle); the shadow DOM of the monitoring sink "
         "(tied to the Lean DOM model by the C05/C20 correspondence); the DOM model. Assumes collections happen only "
         "between feed calls and at Script/EncodingIndicator returns, and that the embedder keeps the script node it was "
         "handed. The link between `traced fields` and `future sink arguments` needs the tree-builder models (separate "
         "package) to be proved; here it is decided by the oracle on the inputs x suspension points of each run.")

CLAIMED["C03"] = dict(
    engine="tok", design_ref="6.3",
    technique="Lean 4 proof: step monotonicity + resumability + invariant => chunk-merging theorem by induction over "
              "big-step runs (simulation up to a dead register); model/code correspondence on exhaustive "
              "state x character x boundary cover; chunked-vs-whole oracle on the real code",
    text="C03_chunk_independence is proved for the tokenizer model for every input, every partition into chunks (empty and "
         "single-character chunks included), every start state, sink policy and exact_errors setting: the chunked session "
         "and the one-piece run deliver the same (token, line) sequence including parse errors and Script/EncodingIndicator "
         "pause positions; C03_chunked_then_end extends it across Tokenizer::end (pending character reference, final run at "
         "EOF, eof_step loop): chunks then end() = one piece then end(). TREE LEVEL (Props/C03Tree.lean): the tree-builder "
         "model is insensitive to how character runs are cut into character tokens - C03_tb_char_split (one token a++b vs two "
         "tokens a, b from related states, all 21 insertion modes, foreign content, foster-parented and pending table text, "
         "ignore_lf), C03_tb_sim_step (congruence for every token), C03_tree_merge_obs: token lists equal after merging "
         "adjacent character tokens give the same DOM, quirks mode and pause answers, for documents and fragments (the number "
         "of tree-builder parse errors legitimately depends on the cut and is not part of the observation). The proof rests on three per-step theorems (a completed step is unaffected by appended input; a "
         "suspended step has consumed everything and re-executes like the step on the concatenation; an invariant on "
         "temp_buf/ignore_lf/reconsume is preserved by all 73 states) and a simulation that ignores the dead current_char. "
         "The model is tied to tokenizer/mod.rs + char_ref/mod.rs by the tok correspondence on ~150k chunked cases per quick "
         "run (every boundary position of every cover input); the same cases decide chunked = whole on the real code, and "
         "text injected at a script pause is compared with the same text written inline.",
    note="Trusted: Lean kernel; the hand-written tokenizer model + tok correspondence; BufferQueue abstracted to a flat list "
         "(C13); bulk reads modelled per character (tokens compared after merging character runs). Not one theorem: the composition of the "
         "tokenizer theorem with the tree-level theorem through the joint driver (checked end to end on the real code by the "
         "chunked-vs-whole tree oracle); termination of runs is C04.")

CLAIMED["C08"] = dict(
    engine="tok", design_ref="6.8",
    technique="Lean 4 proof: simulation between two runs of the tokenizer model that differ only in TokenizerOpts (equal up "
              "to parse errors and a dead current_char), through every reader, all 73 states, the character-reference "
              "machine, feed and end(); char sets regenerated from the source equal the model's; option-flipping oracle "
              "on the real code + correspondence under all option combinations",
    text="Proved (C08_exact_errors_tokens): for any two values of exact_errors, any machine, any chunking and any sink whose "
         "answers do not depend on parse errors, the sessions deliver the same (token, line) sequence once parse errors are "
         "erased, and Tokenizer::end() adds the same tokens - so exact_errors changes the wording and number of parse errors "
         "and nothing else. Also proved: the small_char_set of every pop_except_from state (regenerated from tokenizer/mod.rs on "
         "every run) is the model's set, contains CR/LF/NUL, and the SIMD stop sets are derived from the data-state set; a "
         "character outside the set is handled identically as FromSet (slow path) and inside a NotFromSet run (fast path, SIMD), "
         "except five characters in the unquoted attribute state for which the slow path only adds a parse error; discard_bom "
         "acts on the first character of the stream only. On the real code every cover input and chunking is run under all "
         "exact_errors x profile x discard_bom combinations (code vs code) and the tree-builder options exact_errors x "
         "drop_doctype through the full parser; the model is tied by the correspondence under the same combinations.",
    note="Trusted: Lean kernel; tools/extract.py; tokenizer model + tok correspondence; hypothesis PolE (the sink ignores parse "
         "errors: true of html5ever's tree builder). SIMD lane arithmetic is not modelled (exact_errors forces the scalar "
         "path, so the oracle compares SIMD and scalar on the real code). `profile` and the tree-builder options are decided "
         "by the oracle, xml5ever's options by C15.")

CLAIMED["C09"] = dict(
    engine="tok", design_ref="6.9",
    technique="Lean 4 proof of an end-to-end counting invariant of the tokenizer model (potential: current_line + line breaks "
              "still ahead in stash ++ queue is conserved by every step, all six reading disciplines, character references and "
              "look-ahead included) + C03 for chunking; prefix and EOF-line oracles on the real code; correspondence on every "
              "line number",
    text="Proved for the tokenizer model, for all options, sink policies, start states, inputs and chunkings: every "
         "Tokenizer::step conserves current_line + (number of line breaks - CR, LF, CRLF once - in the logically unread "
         "text: what eat()/a character reference in progress hold back, then the queue), under an invariant that a fresh "
         "tokenizer satisfies and every step preserves; hence at every suspension current_line = 1 + breaks of all text fed "
         "so far, under any chunking (C09_line_after_input), and at every step line + breaks ahead = 1 + breaks of the "
         "whole text (C09_line_at_any_step); every token a step delivers is stamped with the line that step ends on "
         "(C09_tokens_of_a_step, a whole-table lemma), i.e. with 1 + the line breaks consumed when it is emitted. The table "
         "fact 'no entity name contains a line break' is kernel-checked over the regenerated table. Tokenizer::end never "
         "moves the line (C09_eof_line: the EOF token carries 1 + breaks of the whole input). Outside the model: the tree "
         "builder's forwarding (set_current_line; compared by the tb engine) and the byte-level SIMD popcount; the "
         "EOF-line and prefix oracles decide the statement on the real code for every token of every cover input.",
    note="Trusted: Lean kernel; tokenizer model + tok correspondence (compares every line number); the prefix oracle allows the "
         "one-character window in which a look-ahead may or may not have consumed the current character.")
CLAIMED["C01"] = dict(
    engine="tok", design_ref="6.1",
    technique="independent executable specification of HTML Standard 13.2.5 in Lean 4 (all 80 states, transcribed state by "
              "state by a separate agent without reading html5ever's tokenizer or the model) + Lean proof that the MODEL of "
              "html5ever's tokenizer produces the specification's tokens for every input (simulation relation through all "
              "state groups, look-ahead states, character references, EOF; ~9000 lines) + proofs about the specification "
              "itself + model/code correspondence + direct differential of the REAL tokenizer against the specification",
    text="Proved (Props/C01Sim.lean, C01_model_eq_spec; kernel, axioms within propext/Classical.choice/Quot.sound): for EVERY "
         "input string, every start state reachable through TokenizerOpts.initial_state that the standard knows (65 of 73; "
         "see note), every last-start-tag name, both discard_bom settings and every sink policy that answers as the "
         "standard's tree-construction feedback (tokenizer-state switches on start tags and the CDATA answer, both allowed to "
         "depend on the whole token history), feed + end of the model of tokenizer/mod.rs + char_ref/mod.rs succeed and the "
         "tokens delivered - parse errors, pause markers and line numbers dropped, character tokens split into characters "
         "(or merged: C01_model_eq_spec_merged) - are exactly Spec.tokenize of the newline-normalised input: doctypes with "
         "ids and force-quirks, tags with lower-cased names, de-duplicated attributes in source order, self-closing and "
         "duplicate flags, comments, characters with NUL kept distinct, one final EOF. Corollaries: either exact_errors value "
         "(C01_model_eq_spec_exact, via C08), every chunking (C01_model_eq_spec_chunked, via C03). The simulation relation "
         "accounts for html5ever's differences in mechanism: inline CR handling vs up-front normalisation, parametrised "
         "states, un-consuming a failed reference vs the standard's temporary buffer, de-duplication at attribute end vs at "
         "emission, CDATA text held in temp_buf, big-step EOF. About the specification itself: total within 8(|x|+1)+1 steps, "
         "exactly one EOF last, newline normalisation idempotent, emitted tags have distinct attribute names. The REAL "
         "tokenizer is tied to the model by the tok correspondence and is also compared directly with the executable "
         "specification on every case (~4.9e5 quick / 2.2e6 thorough: every start state x 41 character classes x 6 suffixes "
         "x last-start-tag relations x CDATA answers, look-ahead keyword families, 15 bounded-exhaustive token grammars, "
         "character-reference families incl. the u32 wrap points, chunked families, seeded soup).",
    note="Trusted: Lean kernel; the hand transcription of the standard (written from memory of its text, no network); frozen "
         "entity/C1 reference tables; the model + tok correspondence; the harness's recording sink. Outside the theorem: the "
         "two html5ever states without a counterpart in the standard (RawEndTagOpen/RawEndTagName(ScriptDataEscaped("
         "DoubleEscaped))) and runs started inside an attribute name/value state (no current attribute exists: undefined by "
         "the standard, html5ever keeps the orphan value); sink policies that pause the tokenizer (Script / EncodingIndicator): "
         "covered by C03's pause theorems and the correspondence.")

CLAIMED["C04"] = dict(
    engine="tok+xmltok+total", design_ref="6.4",
    technique="Lean 4 proof for the HTML tokenizer model: no-panic invariant (all panic sites explicit), termination of the "
              "run loop by a strictly decreasing measure below the fuel bound, feed drains, end() total with EOF last; the "
              "same four results ported to the XML tokenizer model; no-panic invariant of the HTML tree-builder model over all "
              "insertion modes (49 panic sites unreachable for every token list, documents and fragments), XML tree-builder "
              "model total; runtime totality (catch_unwind, per-case watchdog with bisection, 10^4..10^6 depth/length "
              "families) for RcDom's contract, real stack and time",
    text="PARTIAL. Proved for html5ever's tokenizer + character-reference tokenizer (model, every input, chunking, start state, "
         "sink policy, option set): (1) every assert!/unwrap/expect/panic!/slice index/from_u32().unwrap() is unreachable from any "
         "freshly created tokenizer (invariant Safe preserved by every step; kernel-checked fact that all 2231 table values are "
         "Unicode scalar values); (2) NO HANG: a measure (16 per unread or stashed character + the characters that can still "
         "travel through name_buf and come back + ranks for pending reconsume, look-ahead and character-reference sub-states) "
         "strictly decreases on every step that answers Continue and is below the fuel feed()/end() give the loop, so the loop "
         "terminates after at most 17*(unread+stashed)+16 steps from every reachable machine, after any earlier feeds and pauses "
         "(kernel-checked fact: every entity-name character is alphanumeric or ';'); (3) a step that asks for more input has "
         "emptied the queue (also at EOF); (4) end() completes for EVERY sink from every machine a feed can stop in - it never "
         "delivers a tag, so neither assert of end() can fail - and its last token is EOF; the eof_step loop needs at most 3 of its "
         "rounds. Proved for xml5ever's tokenizer model as well: (1), (2) with the same measure, (3), and end() total with EOF last "
         "(C04_xml_parse_total: any chunk list then end() completes); the XML tree-builder model completes on every token list "
         "(C16_no_panic). Proved for the HTML tree-builder model (Props/C04TB.lean; invariant TI preserved by all 21 insertion "
         "modes, foreign content, the adoption agency, foster parenting, reset-the-insertion-mode; for EVERY token list, option "
         "set, document start and fragment start with any context element): none of the 49 unwrap/expect/index/assert/"
         "unreachable sites of tree_builder/mod.rs and rules.rs is reachable (open_elems non-empty and its html bottom never "
         "popped, orig_mode set in Text / InTableText, template_modes non-empty under a template, head pointer set after head, "
         "indices into the active formatting list in range, bookmark / furthest block found ...), the helper loops' fuel "
         "suffices, end() is total; the Text-mode unreachable!() (rules.rs:1037) is reachable only by token lists that break "
         "the tokenizer protocol (C04_tb_protocol_not_text); the fuel of the model's reprocess loop suffices (Props/C04TB2.lean: a "
         "measure over tables on the stack, template modes and a mode/token-class rank decreases on every Reprocess edge of "
         "all 21 rules); every sink call is inside the TreeSink contract (Props/C05TB.lean), so RcDom's own asserts are "
         "unreachable too - C04_tb_total_full': under the tokenizer protocol, for tags without duplicate attribute names, the "
         "ONLY failures the model can still report are the option->selectedcontent mirror call's own (called within its "
         "contract; its success needs more than the contract) and the two encoding.rs messages about the slice being UTF-8 (which "
         "Props/C19Decodes.lean shows cannot arise). THE JOINT PARSE (Props/C04Joint.lean): for EVERY input text, tokenizer and "
         "tree-builder option set, BOM flag and chunking there is a budget N0 of the driver's loop beyond which the outcome of the "
         "joint model (tokenizer model with the tree-builder model as its sink, driver loop, Parser::finish) is fixed and is either "
         "success or the failure of a mutating sink op / one of those two messages - no panic site of tokenizer, character-reference "
         "tokenizer, tree builder or driver (incl. the asserts of driver.rs and Tokenizer::end), no fuel or budget bound is ever hit "
         "(C04_joint_total_chunked_partial; `_partial`: the failure disjunct is not yet narrowed to the mirror op alone); with it the "
         "capstone of C02 no longer assumes that the run succeeds (C02_parse_eq_spec_total_nohrun). "
         "Real stack exhaustion, allocator aborts and wall-clock time cannot be exhibited by a model. Exercised instead - every tokenizer cover case and stress string (HTML and XML, whole and chunked), "
         "whole-parser runs on pathological documents/fragments/XML (every element class nested 3*10^3 deep in quick, 10^5 deep "
         "and 10^6 long in thorough), every element name x every fragment context, the adoption-agency / Noah's-ark / foster-"
         "parenting / foreign-named-element / CDATA-edge families as documents and fragments, must complete without panic/abort/hang, drain "
         "the queue after every feed and deliver exactly one EOF last; the model's fuel must never run out.",
    note="Trusted: Lean kernel; tokenizer models + tok/xmltok correspondence (a Rust panic surfaces as PANIC/ABORT, a hang as HANG "
         "through the harness watchdog); tools/vlib.py bisection; contract-abiding sinks (RcDom / recording sink). The sink is "
         "modelled as a pure policy over the token history.")

PENDING_REASON = "not claimed yet: the Lean model / engine for this property is still under construction (see DESIGN.md section 8); no check is registered rather than registering one that is not sound"

CLAIMED["C06"] = dict(
    engine="tb", design_ref="6.6",
    technique="Lean 4: executable model of html5ever's tree builder (every insertion mode, adoption agency, foster "
              "parenting, foreign content, fragments; every TreeSink call as a Dom operation) composed with the tokenizer "
              "model; Skeleton as a decidable predicate on the abstract DOM; universally quantified lemmas (whitespace "
              "splitter, empty-token dropping, adjacency across non-detaching sink calls on top of C20, EOF closure from "
              "the initial mode for all options) + kernel-evaluated finite instances; model/code correspondence on an "
              "exhaustive single-step cover; the Skeleton oracle on the real RcDom tree of every document case",
    text="Proved for all inputs (model): the whitespace splitter of process_to_completion never yields an empty piece and "
         "loses nothing; an empty character token (also one emptied by ignore_lf) makes no tree-changing sink call; every "
         "text insertion the builder can make is a non-detaching call and every contract-abiding sequence of non-detaching "
         "calls keeps 'no two adjacent text siblings' (on C20's sink theorems); for every option set EOF in the initial "
         "mode synthesises html/head/body, satisfies Skeleton and does not panic. Proved for ALL token lists and option sets "
         "(Props/C06Inv.lean, invariant over every insertion mode, the adoption agency, foster parenting and the "
         "selectedcontent mirror): the document's children are comment* doctype? comment* html comment* with html present "
         "once EOF has been processed, no text node is a child of the document, no text node anywhere is empty, only "
         "elements / the document / template-contents fragments have children, template contents are fragments distinct "
         "from the document; and (Props/C06Inv2.lean, stack-shape invariant per insertion mode through all 21 modes, foreign "
         "content and every EOF arm) C06_html_children: after every completed parse the element children of html are head "
         "followed by body, or head, frameset followed ONLY by noframes elements and formatting elements (the known finding: "
         "these are exactly the entries still in the list of active formatting elements, C06_html_children_fmt_in_af; when "
         "that list holds no element at the end the clause holds in full, C06_html_children_partial), and every text child "
         "of html is white space; and (Props/C06Inv3.lean) C06_no_adjacent_text: no two text nodes are ever adjacent siblings, "
         "in every reachable state - invariant AdjD (an open element is never directly followed by text, parents of open "
         "elements sit lower on the stack ...) carried through every rule incl. the detaching calls of the adoption agency, "
         "foster parenting, frameset-replaces-body and the selectedcontent mirror. Hence C06_skeleton_or_known: after every "
         "completed parse EVERY clause of the property's predicate holds, with the html-children clause in the form "
         "head body | head frameset (noframes | formatting element)*, and C06_skeleton_partial: the predicate exactly as "
         "stated whenever the final list of active formatting elements holds no element (the only way it fails is the known "
         "finding). The real code is additionally checked by (a) the "
         "oracle: Skeleton (document children comment* doctype? comment* html comment*; html's element children head then "
         "body | frameset noframes*; no empty text; no text under the document; only whitespace text under html; only "
         "elements/documents/template contents have children; no adjacent text siblings; parent pointers consistent; "
         "exactly one EOF token, last) evaluated on the real tree of every document case under one-piece, random and "
         "all-singleton chunkings and both scripting settings, and (b) the tb correspondence tying the model to the code: "
         "every TreeSink call including elem_name/same_node queries at token level (insertion mode x stack shape x every "
         "tag name x start/end/self-closing x attribute shapes, character runs, comments, doctypes, EOF; pair cover; "
         "foreign tables; fragments for all context elements; adoption/Noah/foster families; random token runs) and every "
         "tree mutation + final DOM + quirks mode + process_token answers at text level. FINDING (proved as "
         "C06_witness_frameset_reconstruct, confirmed on the real code, same in the standard's algorithm): "
         "`<b><frameset></frameset></html> ` yields html > head, frameset, b — a formatting element left in the active "
         "formatting list when <frameset> replaces body is reconstructed under html by the whitespace after </html>; the "
         "check reports it (known-finding id C06-frameset-reconstruct once recorded). No other violating document was "
         "found (thorough tier: 1.47 M non-trivial document parses).",
    note="Trusted: Lean kernel; the hand-written model lean/H5V/Model/HtmlTB/*.lean + the tb correspondence (differential; "
         "families and counts in evidence); Dom as the model of RcDom (C20); the tokenizer model HtmlTok (C01/C03); the Python "
         "Skeleton predicate. `noframes*` rather than `noframes?` (the standard's own algorithm yields several). Finite "
         "instances (EOF closure from a canonical state of each of the 21 modes) are kernel evaluations of the model, not "
         "theorems about all states.")


CLAIMED["C02"] = dict(
    engine="tb", design_ref="6.2",
    technique="Lean 4: executable model HtmlTB of html5ever's tree builder + translator-regenerated tables "
              "(tools/extract.py -> lean/H5V/Gen/TreeTables.lean from tag_sets.rs/data.rs/mod.rs/rules.rs on every run, "
              "shape-checked) proved equal to frozen WHATWG tables (lean/H5V/Spec/TreeTables.lean) and to the model's "
              "tables + per-mechanism spec-equivalence theorems against independent transcriptions of the standard "
              "(lean/H5V/Spec/TreeAlgo.lean: quirks mode, scope predicates, implied end tags, reset the insertion mode, "
              "tree-construction dispatcher, attribute / tag-name adjustment and foreign break-out; Spec/TreeAlgo2.lean: "
              "appropriate place / foster parenting, element / character / comment insertion, reconstruct the active "
              "formatting elements, Noah's ark, the adoption agency algorithm in full, clear-the-stack, close p / cell) + model/code correspondence on the tb engine + differential of the real code against the patched "
              "html5lib reference + option relations and a prefix oracle on the real code",
    text="Proved (kernel-checked, for all inputs; 114 theorems): (1) every table of the tree builder as "
         "regenerated from the source equals the standard's — special category, the scope sets, implied end tags, "
         "formatting elements, table contexts, foster-parenting targets, integration points, the 55+3+1+2+2 quirks "
         "identifiers, SVG tag-name / SVG attribute / MathML attribute / foreign attribute adjust tables incl. prefixes, "
         "the foreign-content break-out lists, the 8/3/3 loop limits, the fragment tokenizer states (C02_table_*) — and "
         "the model's tables are the regenerated ones (C02_model_*); (2) the model's sub-algorithms equal the spec "
         "functions: C02_spec_quirks_mode (doctype -> quirks mode incl. srcdoc/force-quirks), C02_spec_in_scope (default/"
         "list-item/button/table scope over every stack), C02_spec_implied_end_tags (plain / except x / thorough, fuel "
         "shown sufficient), C02_spec_reset_insertion_mode (fragment context, template modes, head pointer), "
         "C02_spec_dispatcher (is_foreign = not useHtmlRules), C02_spec_adjust_attributes, "
         "C02_spec_svg_tag_name_and_breakout, C02_spec_adoption_outer_loop (bounded loop of 8); and (Props/C02Algo.lean, "
         "against Spec/TreeAlgo2.lean, as total-correctness triples that fix the exact list of TreeSink calls, i.e. the "
         "DOM edit log): the appropriate place for inserting a node incl. foster parenting and template contents, insert "
         "an HTML / foreign element, a character, a comment, reconstruct the active formatting elements, the Noah's-ark "
         "push, clear the list up to the last marker, THE ADOPTION AGENCY ALGORITHM IN FULL (steps 1-20: shortcut, "
         "formatting-element lookup, furthest block, inner loop with the 3-iteration rule, bookmark, reparenting, stack and "
         "list updates, fallback to 'any other end tag'), any-other-end-tag, generate implied end tags, clear the stack "
         "back to a table / table body / table row context, pop-until, close a p element, close the cell, stop parsing. "
         "THE INSERTION MODES THEMSELVES (Props/C02Modes.lean, ~22 000 lines, against Spec/TreeModes*.lean - an independent "
         "literal transcription of 13.2.6.4 / 13.2.6.5 / the dispatcher written by an agent that was not allowed to see "
         "html5ever or the model): C02_mode_<name> for all 21 modes, C02_foreign, C02_dispatcher, and the headlines "
         "C02_model_eq_spec_modes (documents) / _fragment (any context element): for every token list that keeps the "
         "tokenizer protocol the model's parse and Spec.TreeModes.parseDocument / parseFragment (2025 edition) make the same "
         "DOM calls in the same order (text compared per character, parse errors left out), reach the same quirks mode and "
         "final insertion mode and give the same answers to the tokenizer. C02_model_eq_spec_modes_strict / "
         "_fragment_strict conclude parseDocument / parseFragment = .ok of the UNMODIFIED transcription (no development layer): "
         "the standard's own Assert in 'in cell' is proved never to fail along these runs (C02_cell_assert_never_fails, via a "
         "new invariant of the specification's own run over all 21 modes, Lemmas/HtmlTBModesInv*.lean) and the protocol "
         "hypothesis has no adjusted-current-node clause any more. THE PROOF FOUND "
         "FOUR DEFECTS of html5ever (it could first be completed only against a specification carrying four deviations; each "
         "was confirmed on the real code and repaired, F38-F41: DOCTYPE in 'in table text', characters under a template "
         "current node in table modes, unmatched end tag reaching the root of a foreign-context fragment, <input> in a "
         "select-context fragment); the theorem is now against the unmodified specification. "
         "THE CAPSTONE (Props/C02Parse.lean, Spec/Parse.lean, Lemmas/HtmlParseSpec*.lean): C02_parse_eq_spec_facts / _chunked - for EVERY input "
         "text, either exact_errors, both discard_bom, any chunking: the JOINT model of driver.rs (tokenizer model with the "
         "tree-builder model as its sink, C03Joint's parseChunks) delivers exactly the token stream of Spec.HtmlTokenizer "
         "coupled with the unmodified Spec.TreeModes by the standard's own feedback (Spec.Parse.specParse), and the DOM calls, "
         "quirks mode, final insertion mode and tokenizer answers of specParse are those of the model (composition of C01Sim, "
         "C02Modes strict, C03Joint/C03Tree; the tokenizer-protocol hypothesis Respects2 of C02Modes is PROVED as a fact of "
         "every joint run: lower-case tag names, distinct attribute names, no U+0000 in character tokens, EOF once and last, "
         "the 'text' mode protocol). Remaining hypotheses: the joint run succeeds (totality: C04), noQuirks start, "
         "drop_doctype off, no shadowrootmode attribute (C02_parse_eq_spec_total, Props/C02ParseTotal.lean: the further hypothesis "
         "EmptyOk of _facts - ignore_lf clear whenever the EMPTY character token that `<![CDATA[]]>` produces arrives - is proved "
         "as a joint invariant, parse_hist_empty). "
         "NOT proved: C02_table_body_end_ok_partial (parse-error-only table lacks rb/rtc), parse errors, the self-closing "
         "acknowledgement, declarative shadow roots, documents started in quirks / limited-quirks mode by TreeBuilderOpts, and "
         "that the MODEL is the CODE: that tie is carried by (a) the differential against the patched html5lib 1.1 "
         "reference on documents and HTML-context fragments, scripting on/off (directed token families rendered as text, "
         "dispatcher cover, themed tag soup, doctype identifiers in mixed case / truncated / extended; thorough tier: "
         "0.93 M reference-compared parses, tree and quirks mode, both trees in the replay); (b) the tb correspondence "
         "(every TreeSink call at token level, every mutation at text level) tying the model to the code, which also "
         "covers the vocabulary on which the reference is not authoritative (template, select family, ruby children, "
         "menuitem/isindex/command, </p> and </br> in foreign content, frameset/colgroup with mixed text runs, noscript "
         "and non-HTML fragment contexts; 0.32 M such parses + 0.44 M correspondence-only cases); (c) option relations on "
         "the real code (iframe_srcdoc never leaves no-quirks and changes nothing else, drop_doctype changes only the "
         "doctype node, exact_errors and the initial quirks mode of a document parse change nothing) and a direct oracle "
         "on every dump (element and attribute prefixes are those of the standard's table). A table edit in /repo fails "
         "`Gen = Spec`; the check names the differing row and runs inputs built for that row through the real code and "
         "the reference.",
    note="Trusted: Lean kernel; tools/extract.py (shape-checked regex translator); my transcription of the standard in "
         "Spec/TreeTables.lean and Spec/TreeAlgo.lean (edition notes there: select in the scope list and no select steps "
         "in reset-insertion-mode after the 2025 customizable-select change); the model HtmlTB + the tb correspondence; "
         "html5lib 1.1 as patched (tools/third_party/PATCHES.md) for the rule arms; Dom as the model of RcDom (C20). "
         "Parse errors are not compared. Defects found and fixed through this check: F28–F36 (known_findings.json); "
         "reference deviations found and patched: xml:base, four removed SVG attributes, feDropShadow, <table> start tag "
         "in table-part fragments.")


def main():
    props = [json.loads(l) for l in open(os.path.join(ROOT, "properties.jsonl"))]
    checks = []
    na = []
    for p in props:
        pid = p["id"]
        c = CLAIMED.get(pid)
        if not c:
            na.append({"property_id": pid, "reason": PENDING_REASON})
            continue
        checks.append({
            "property_id": pid,
            "quick_cmd": "./check %s --tier quick" % pid,
            "thorough_cmd": "./check %s --tier thorough" % pid,
            "evidence_file": "/verif/evidence/%s.json" % pid,
            "replay_cmd_template": "./check %s --replay {path}" % pid,
            "engine": c["engine"],
            "level_claimed": {"category": "proof", "text": c["text"], "design_ref": "DESIGN.md section " + c["design_ref"]},
            "level_note": c["note"],
            "technique": c["technique"],
        })
    hooks_commits = []
    hp = os.path.join(ROOT, "hooks_commits.txt")
    if os.path.exists(hp):
        hooks_commits = [l.strip() for l in open(hp) if l.strip()]
    man = {
        "version": 1,
        "setup_cmd": "./tools/setup.sh",
        "hooks": {
            "guard": "cargo feature `verif-hooks` (html5ever, xml5ever, tendril)",
            "enable": "harness/Cargo.toml depends on the /repo crates by path with features = [\"verif-hooks\"] where hooks exist",
            "baseline_off_cmd": "cd /repo && cargo test --workspace --no-fail-fast --offline",
            "source_commits": hooks_commits,
            "add_only": True,
        },
        "engines": [
            {"name": "h5vharness", "path": "harness/", "serves_properties": sorted(CLAIMED),
             "kind_free_text": "Rust harness running the real crates on protocol cases (one per line)"},
            {"name": "h5vdriver", "path": "lean/Driver/Main.lean", "serves_properties": sorted(CLAIMED),
             "kind_free_text": "compiled Lean model driver speaking the same line protocol"},
            {"name": "lean-proofs", "path": "lean/H5V/Props/", "serves_properties": sorted(CLAIMED),
             "kind_free_text": "Lean 4 theorems, one file per property; lake build + #print axioms audit"},
        ],
        "checks": checks,
        "notes": "All checks: ./check Cxx --tier quick|thorough; they rebuild the Lean modules and the harness from "
                 "/repo's working tree, run the translator, audit axioms, run the correspondence and the oracle. "
                 "known_findings.json lists fixed/known defects.",
        "not_applicable": na,
    }
    json.dump(man, open(os.path.join(ROOT, "MANIFEST.json"), "w"), indent=1)
    print("MANIFEST.json: %d checks, %d not claimed" % (len(checks), len(na)))

if __name__ == "__main__":
    main()
