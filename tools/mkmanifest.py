#!/usr/bin/env python3
"""Regenerates MANIFEST.json from the table below (claimed properties) — run after registering a check."""
import json, os
ROOT = os.path.dirname(os.path.dirname(os.path.abspath(__file__)))

CLAIMED = {
    "C19": dict(
        engine="meta", design_ref="6.19",
        technique="Lean 4 proof (index-based model of encoding.rs refined to the WHATWG extraction algorithm written as "
                  "the standard's loop, by induction on loop fuel / remaining length) + model/code correspondence through "
                  "the real public API; firing rule checked by an oracle on the real tokenizer + tree builder",
        text="Extraction is a theorem: for ALL byte strings the model of encoding.rs "
             "(extract_a_character_encoding_from_a_meta_element: byte offsets, `?` early returns, every slice index / "
             "usize subtraction / subtendril as a panic branch, both loops on fuel) returns exactly what the WHATWG "
             "'extracting a character encoding from a meta element' algorithm returns (raw label — html5ever does not "
             "perform the final 'get an encoding' lookup) and never panics; the model is tied to the code by feeding "
             "`<meta http-equiv=content-type content=…>` to the real Tokenizer+TreeBuilder+RcDom and comparing the label "
             "of the EncodingIndicator returned by feed() on a grammar-exhaustive set of content strings. "
             "The clause 'feed() suspends exactly once per meta start tag inserted as an HTML meta element with charset "
             "or http-equiv=content-type + extractable content, the element is already in the tree, resuming continues as "
             "if nothing had happened' is NOT a theorem yet (tree-builder model is a separate work package): it is carried "
             "by an oracle on the real code — indicators vs qualifying HTML meta elements of the final tree, for meta / "
             "link / base / basefont / bgsound variants in every insertion-mode context and fragment context, every "
             "split position, and tree + parse-error equality with the same document with the attributes neutralised.",
        note="Trusted: Lean kernel; Spec.MetaExtract (my transcription of the standard's algorithm, cross-checked each run "
             "against an independent Python transcription); byte-level reading of an algorithm that only inspects ASCII; "
             "the hand-written model + the meta correspondence. StrTendril::subtendril's UTF-8 boundary check is not "
             "modelled (cuts are adjacent to ASCII bytes). Firing rule: differential/oracle evidence only, to be joined by "
             "a tree-builder theorem (C02/C05 work package)."),
    "C10": dict(
        engine="utf8", design_ref="6.10",
        technique="Lean 4 proof (streaming invariant relating the pending incomplete prefix to the unread suffix; "
                  "modelled str::from_utf8 proved equal to a table-driven Unicode Table 3-7 spec) + model/code "
                  "correspondence on exhaustive lead-byte × continuation-class × split-position covers; "
                  "encoding_rs path: abstract-decoder theorem + differential run of the real decoders",
        text="For ALL chunk lists the model of Utf8LossyDecoder (decode_utf8, IncompleteUtf8::try_complete_offsets, "
             "process/finish loops, every unwrap/slice/pop_front as a panic branch) is proved to deliver to the inner "
             "sink exactly the spec's lossy decode of the concatenation (one error + U+FFFD per maximal ill-formed "
             "subpart, in place), never to panic, to be independent of chunking, and to hand over only non-empty "
             "well-formed UTF-8 pieces; the spec's scalar values are proved shortest-form, non-surrogate, ≤ U+10FFFF. "
             "The model is tied to the code by the exact sequence of sink calls on exhaustive covers; the modelled "
             "from_utf8 is validated against the real one. LossyDecoder over encoding_rs: partial — decode_to_sink is "
             "proved against an arbitrary abstract decoder (forwards every output, one replacement per Malformed, drains "
             "at end of stream); the real decoders (40 encodings × partitions) and the parsers behind from_utf8() "
             "are exercised differentially against a one-shot decode / one-piece parse.",
        note="Trusted: Lean kernel; Spec.Utf8 (my transcription of Table 3-7, cross-checked against Python's codec each "
             "run); the model of core::str::from_utf8 (validated, not proved, against the real function); the hand-written "
             "model + the utf8 correspondence. Partial: encoding_rs decoders are an external library — only their "
             "documented streaming contract is assumed, and their agreement with a one-shot decode is tested, not proved; "
             "tree equality through from_utf8() rests on C03 (chunking independence of the tokenizer) and is tested here."),
    "C13": dict(
        engine="bq", design_ref="6.13",
        technique="Lean 4 proof (refinement of the buffer list to its concatenation, invariant by induction over "
                  "operation histories) + model/code correspondence on exhaustive op×boundary cover",
        text="Every BufferQueue operation is proved (Lean kernel, no axioms beyond propext/Quot.sound) to act on the "
             "concatenation of the buffers exactly as the property states, for all queues, sets, patterns and histories; "
             "the model is tied to buffer_queue.rs by running both on an exhaustive cover of op × buffer-boundary "
             "placements plus seeded random histories, and a flat-string oracle is evaluated on the real code.",
        note="Trusted: Lean kernel; the hand-written model + the bq correspondence (differential, coverage reported in "
             "evidence); eat proved at character level for ASCII patterns with ==/ASCII-case-insensitive eq; tendril "
             "primitives are C11's subject."),
}

CLAIMED["C14"] = dict(
    engine="tok", design_ref="6.14",
    technique="Lean 4 proof: kernel-checked equality of the table regenerated from entities.rs with the frozen WHATWG "
              "table (decide +kernel, 2231 rows), lookup/prefix-closure and numeric-accumulator theorems; "
              "model/code correspondence + exhaustive enumeration of names x followers x contexts against a reference decoder",
    text="The named-reference table and the C1 table compiled into html5ever are proved equal to frozen WHATWG references "
         "on every run (translator + kernel); the model of build.rs/phf lookup is proved exact on names, prefix-closed and "
         "empty elsewhere; the wrapping numeric accumulator with its overflow latch is proved to decide 'value > 0x10FFFF' "
         "for digit strings of any length and finish_numeric to return the standard's code point. The char-ref model is tied "
         "to the Rust by the tok correspondence; the property's finite quantifier is enumerated on the real code against an "
         "independent Python decoder (quick: a stratified subset, thorough: the full product and all numeric values).",
    note="Trusted: Lean kernel; tools/extract.py; Python's html.entities as the WHATWG reference; the Python reference "
         "decoder; phf/string_cache are modelled as a finite map. The longest-match walk is carried by the correspondence "
         "and the enumeration, not yet by a theorem.")

CLAIMED["C07"] = dict(
    engine="ser", design_ref="6.7",
    technique="Lean 4 proof about a byte-level model of html5ever/src/serialize/mod.rs and of rcdom's "
              "SerializableHandle traversal (loop invariant for write_escaped's search_start/next_special arithmetic, "
              "per-character UTF-8 case analysis, induction on strings, mutual induction on trees, refinement of the "
              "ElemInfo stack to a pure renderer) + model/code correspondence (engine ser) on exhaustive escape / "
              "element-name × namespace × scope / Serializer-call-sequence covers and seeded random and parsed trees "
              "+ oracles evaluated on the real code",
    text="Proved in Lean (kernel, axioms ⊆ propext/Classical.choice/Quot.sound) for all inputs: "
         "C07_write_escaped_eq — the write_escaped loop never panics and equals a structural byte function for every "
         "byte string; C07_current_write_escaped — for every string and both modes the bytes written are UTF-8 of the "
         "standard's character-level escape; C07_unescape_text / C07_unescape_attr — a reader for the data state / "
         "double-quoted attribute value state (five references, CR/NUL preprocessing) returns the original string from "
         "its escape, also when followed by `<…` / `\"…`, for every string free of CR and NUL (C07_witness_cr/_nul show "
         "why those are excluded); C07_escape_text_no_lt / C07_escape_attr_no_quote — escaped text contains no `<`, `>` "
         "and no `\"` in attribute mode, so nothing leaves its context; C07_serialize_eq_render, C07_no_panic, "
         "C07_runOps_eq, C07_serializeOps_eq — the serializer is a pure function of the tree, reaches no panic site on "
         "trees without Document nodes, and rcdom's op-deque loop equals the recursive traversal; C07_tags + "
         "C07_current_inner_outer — for every element of every tree and all options, serializing the children with "
         "the element named as parent yields exactly the bytes between its start and end tag; C07_raw_only_html + "
         "C07_current_scope_raw — text is written unescaped iff the parent is an HTML-namespace raw-text element "
         "(and scripting is on, for noscript). The `_partial`, `_witness_*` and `C07_pinned_*` theorems record the three "
         "defects of the pinned snapshot that were repaired by fix: commits (0xC2 lead byte dropped; namespace of the "
         "ChildrenOnly parent ignored; void ChildrenOnly parent). NOT proved: the first sentence of the property as a "
         "whole — that parse_fragment(serialize(t)) = t through the real tokenizer and tree builder; it is checked on "
         "the real code only (rt= oracle: real parse_fragment(context div) of the serialized children of seeded random "
         "ordinary trees and boundary strings), together with inner = outer on the real code for every element of "
         "every generated and every parsed tree × both scripting settings, and byte equality with an independent "
         "python reference serializer.",
    note="Trusted: Lean kernel; the hand-written model lean/H5V/Model/HtmlSer.lean + the ser correspondence "
         "(differential; families and counts in evidence); str::as_bytes modelled by core Lean's String.utf8EncodeChar "
         "and memchr2/memchr3 as first-index search (validated by the correspondence, not proved); the reader "
         "`unescape` is a hand-written abstraction of the tokenizer restricted to the references the serializer emits; "
         "the python reference serializer used as byte oracle. Round trip claimed for the ordinary vocabulary only "
         "(no void / raw-text / implied-end-tag / formatting / table / select / template elements, text non-empty, not "
         "adjacent, free of CR and NUL) and with TokenizerOpts.discard_bom = false (with the default, a U+FEFF that "
         "starts the first text node is dropped by the tokenizer by design of that option). Writer I/O errors are not "
         "modelled. The serializer writes text children of void elements and has no leading-newline handling for "
         "pre/textarea/listing; both are outside the property's vocabulary and modelled as they are.")

CLAIMED["C11"] = dict(
    engine="tendril", design_ref="6.11",
    technique="Lean 4 proof: heap model of tendril.rs / buf32.rs / fmt.rs / futf.rs (index-checked arena, the three "
              "representations inline/owned/shared), well-formedness invariant, refinement of every operation to an "
              "independent pool of owned byte strings with a frame (independence) clause, induction over histories; "
              "UTF-8 format laws proved against Unicode Table 3-7; model/code correspondence on an exhaustive "
              "op × representation × boundary-length cover incl. representation kind, sharing groups and allocation "
              "events; Python owned-string reference as oracle",
    text="For ALL heaps and pools satisfying the invariant WF (ranges inside initialised data, owned buffers referenced "
         "once, refcount = number of referents, ledger consistent) and holding valid contents, every operation of the "
         "model (new/from/push/try_push/push_char/push_tendril incl. the adjacent-slice merge, pop_front/pop_back and "
         "their try_ variants, subtendril, clone, clear, drop, pop_front_char, pop_front_char_run, into_send round trip, "
         "reserve, with_capacity, DerefMut store) is proved to preserve WF, never to reach undefined behaviour, to change "
         "its own slot exactly as the owned-string specification says and to leave every other slot's bytes unchanged; "
         "checked operations answer Err exactly when out of bounds / invalid for the format; lifted to all histories by "
         "induction (C11_run_refines, C11_reachable_wf). Proved for Bytes, ASCII, Latin1 and UTF8 (laws_utf8: the futf "
         "prefix/suffix checks are exact on parts of valid strings; C11_utf8_valid: a UTF-8 tendril always holds "
         "well-formed UTF-8). Below 2^30 bytes the model panics only where the specification does "
         "(C11_no_spurious_panic). The model is tied to the Rust by the tendril correspondence (result, bytes, "
         "inline/owned/shared kind, sharing groups, allocation sizes after every op; 5 formats × 2 atomicities).",
    note="Partial: WTF-8 (the only format with a concatenation fix-up) has no proved format laws — it is covered by the "
         "safety theorems of C12, the correspondence and the Python reference only; the check found a genuine defect "
         "there (WTF8::validate accepts a stray continuation byte after a 2-/3-byte character and skips what follows: "
         "C11_witness_wtf8_validate, minimal case `tendril wtf8 N from 0 c2 80 80`), reported as VIOLATION until fixed "
         "or listed in known_findings.json (matcher ids F22 / F-C11-WTF8-VALIDATE). Trusted: Lean kernel; the "
         "hand-written model + the tendril correspondence (differential, coverage in evidence); str::from_utf8 / "
         "char_indices modelled by a Table 3-7 decoder (validated on boundary sequences, thorough tier on all leading "
         "byte pairs); pointer provenance, transmutes between formats/atomicities and Vec/allocator internals are "
         "abstracted; on a panic the model keeps the old state (OFLOW inside grow after make_owned, > 2 GiB, is the only "
         "panic after a mutation in the Rust).")

CLAIMED["C12"] = dict(
    engine="tendril", design_ref="6.12",
    technique="Lean 4 proof over the same heap model with every raw access a checked primitive and an allocation trace: "
              "invariant preservation + absence of Fault.ub for every operation, an independent ledger monitor accepting "
              "the trace, live-iff-referenced, empty-at-end, and a theorem on all interleavings of atomic "
              "fetch_add/fetch_sub events; correspondence incl. allocation events; harness global allocator with layout "
              "check, canary, poison + quarantine; multi-thread family; Miri sample in the thorough tier",
    text="Partial (model-level): for every operation from every reachable state, for all five formats, the invariant is "
         "preserved and no modelled access is a wild / dangling / out-of-bounds access, double free, wrong-layout "
         "dealloc or refcount underflow (C12_step_safe, C12_reachable, C12_reachable_valid); the monitor replaying the "
         "trace accepts it and agrees with the heap (C12_ledger), in an accepted trace an id is allocated once, freed "
         "at most once and never mentioned after its release (mon_free_once, mon_dead_forever); a buffer is live iff "
         "some tendril refers to it and its refcount is the number of referents (C12_live_iff_referenced); dropping "
         "all tendrils releases every buffer exactly once (C12_empty_at_end); for any interleaving of atomic clone / "
         "drop / send events by threads that hold the references they use, exactly one fetch_sub observes 1 and it is "
         "the last event (C12_atomic_interleaving).",
    note="The theorems are about the model's arithmetic, not about pointer provenance, the transmutes or the memory "
         "model: fetch_add/fetch_sub are assumed linearisable and the Release/Acquire fences assumed to make that "
         "linearisation valid for the buffer contents. Real memory is observed, not proved: the harness allocator "
         "(events with sizes compared with the model after every op, layout/canary/poison/quarantine checks, live=0 at "
         "the end of every case), 4-thread scripts compared with a sequential replay, Miri (no UB on a sample, thorough "
         "tier). UTF-8 safety rests on contents staying valid (via C11's laws).")

CLAIMED["C20"] = dict(
    engine="rcdom", design_ref="6.20",
    technique="Lean 4 proof about a statement-by-statement arena model of rcdom/lib.rs (invariant = parent links "
              "consistent with child lists + no duplicates + acyclic + only documents/elements have children, "
              "preserved by every TreeSink call within the contract, by induction over call sequences; work-list "
              "serializer = recursive pre-order) + model/code correspondence on op x node-kind cover, harvested "
              "parser traces and random contract-abiding sequences + independent Python reference DOM as oracle",
    text="Proved (Lean kernel, axioms within propext/Classical.choice/Quot.sound) for all arenas satisfying the invariant "
         "and all calls satisfying the TreeSink contract `H5V.Model.Dom.Contract`, hence for all contract-abiding call "
         "sequences from RcDom::default(): parent links name exactly the node whose child list holds the node, no node "
         "listed twice, no cycles (C20_parent_links_step/_parent_links/_reachable_inv); text merging of append / "
         "append_before_sibling and `no adjacent text siblings` for every call that cannot detach a node, with iff "
         "characterisations of when remove_from_parent / reparent_children break it; add_attrs_if_missing never "
         "overwrites and adds each missing name once; reparent_children keeps order and empties the source; template "
         "contents; remove_from_parent; the repaired append_before_sibling inserts immediately before the sibling "
         "whatever old parent the node had; the repaired option->selectedcontent mirroring preserves the invariant "
         "and replaces the selectedcontent's children by fresh copies of the option's children; rcdom's Serialize "
         "visits every node of a tree exactly once in document order within the stated fuel. The model is tied to "
         "rcdom/lib.rs by replaying TreeSink traces on the real RcDom (through the trait, under the contract monitor) "
         "and on the model: dumps incl. Weak parent pointers, template contents, quirks mode, parse errors and the "
         "serializer's call sequence must be identical; a Python reference DOM written from the property recomputes "
         "the expected result of every contract-abiding case.",
    note="Trusted: Lean kernel; the hand-written model lean/H5V/Model/Dom.lean + the rcdom correspondence "
         "(differential; coverage in evidence); the Python reference DOM (oracle). Carried by the correspondence only, "
         "not proved: that contract-abiding calls never panic in RcDom (valid families never panic; see C05), the "
         "deep structure of the option copies below the first level, Rc/Weak lifetimes and Drop (the arena never "
         "frees a node, the engine keeps every handle alive). Two defects found on the pinned tree (selectedcontent "
         "never mirrored; append_before_sibling stale index) are repaired in /repo (ebdbd68, 394a5e0); the pinned "
         "behaviour is kept as named model variants with witness theorems, the minimal inputs as regression corpus.")

PENDING_REASON = "not claimed yet: the Lean model / engine for this property is still under construction (see DESIGN.md section 8); no check is registered rather than registering one that is not sound"

def main():
    props = [json.loads(l) for l in open(os.path.join(ROOT, "properties.jsonl"))]
    checks = []
    na = []
    for p in props:
        pid = p["id"]
        c = CLAIMED.get(pid)
        if not c:
            na.append({"property_id": pid, "reason": PENDING_REASON})
            continue
        checks.append({
            "property_id": pid,
            "quick_cmd": "./check %s --tier quick" % pid,
            "thorough_cmd": "./check %s --tier thorough" % pid,
            "evidence_file": "/verif/evidence/%s.json" % pid,
            "replay_cmd_template": "./check %s --replay {path}" % pid,
            "engine": c["engine"],
            "level_claimed": {"category": "proof", "text": c["text"], "design_ref": "DESIGN.md section " + c["design_ref"]},
            "level_note": c["note"],
            "technique": c["technique"],
        })
    hooks_commits = []
    hp = os.path.join(ROOT, "hooks_commits.txt")
    if os.path.exists(hp):
        hooks_commits = [l.strip() for l in open(hp) if l.strip()]
    man = {
        "version": 1,
        "setup_cmd": "./tools/setup.sh",
        "hooks": {
            "guard": "cargo feature `verif-hooks` (html5ever, xml5ever, tendril)",
            "enable": "harness/Cargo.toml depends on the /repo crates by path with features = [\"verif-hooks\"] where hooks exist",
            "baseline_off_cmd": "cd /repo && cargo test --workspace --no-fail-fast --offline",
            "source_commits": hooks_commits,
            "add_only": True,
        },
        "engines": [
            {"name": "h5vharness", "path": "harness/", "serves_properties": sorted(CLAIMED),
             "kind_free_text": "Rust harness running the real crates on protocol cases (one per line)"},
            {"name": "h5vdriver", "path": "lean/Driver/Main.lean", "serves_properties": sorted(CLAIMED),
             "kind_free_text": "compiled Lean model driver speaking the same line protocol"},
            {"name": "lean-proofs", "path": "lean/H5V/Props/", "serves_properties": sorted(CLAIMED),
             "kind_free_text": "Lean 4 theorems, one file per property; lake build + #print axioms audit"},
        ],
        "checks": checks,
        "notes": "All checks: ./check Cxx --tier quick|thorough; they rebuild the Lean modules and the harness from "
                 "/repo's working tree, run the translator, audit axioms, run the correspondence and the oracle. "
                 "known_findings.json lists fixed/known defects.",
        "not_applicable": na,
    }
    json.dump(man, open(os.path.join(ROOT, "MANIFEST.json"), "w"), indent=1)
    print("MANIFEST.json: %d checks, %d not claimed" % (len(checks), len(na)))

if __name__ == "__main__":
    main()
