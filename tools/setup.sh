#!/bin/sh
# one-time build after a fresh restore (offline): Lean library + model driver, Rust harness
set -e
cd "$(dirname "$0")/.."
export CARGO_NET_OFFLINE=true
mkdir -p .work evidence replays
if [ -f tools/extract.py ]; then python3 tools/extract.py; fi
(cd lean && lake build)
(cd harness && cargo build --offline)
echo setup-ok
