#!/usr/bin/env python3
"""dev-time: html5ever (tb engine, real code) vs html5lib 1.1 on generated tag soup; prints grouped differences."""
import os, random, subprocess, sys, collections
ROOT = os.path.dirname(os.path.dirname(os.path.dirname(os.path.abspath(__file__))))
sys.path.insert(0, os.path.join(ROOT, "tools"))
from ref import h5l

HARNESS = os.path.join(ROOT, "harness/target/debug/h5vharness")

TAGS = ["a", "b", "i", "p", "div", "span", "table", "tr", "td", "th", "tbody", "caption", "colgroup", "col", "ul", "li", "dl", "dd", "dt",
        "h1", "h2", "form", "input", "button", "textarea", "title", "style", "script", "noscript", "head", "body", "html",
        "frameset", "frame", "noframes", "svg", "math", "mi", "mo", "mtext", "annotation-xml", "foreignObject", "desc", "g", "path",
        "br", "hr", "img", "pre", "listing", "plaintext", "xmp", "iframe", "nobr", "font", "marquee", "object", "applet", "address",
        "center", "blockquote", "ol", "em", "strong", "tt", "u", "s", "small", "big", "code", "strike", "base", "link", "meta", "bgsound",
        "area", "embed", "wbr", "param", "image", "label", "fieldset", "section", "article", "aside", "header", "footer", "nav", "ruby",
        "tfoot", "thead", "malignmark", "mglyph", "sup", "sub", "var", "dialog", "main", "details", "summary", "menu", "figure", "hgroup",
        "noembed", "source", "track", "picture", "slot"]
ATTRS = ["", "", "", " id=x", " class='a b'", " type=hidden", " type=text", " encoding=text/html", " encoding=application/xhtml+xml",
         " color=red", " xlink:href=y", " xml:lang=en", " xmlns=z", " definitionurl=q", " a=1 a=2", " selected", " /"]
TEXTS = ["x", " ", "\n", "a b", "&amp;", "\0", "<!--c-->", "<!-- -->", "<![CDATA[q]]>", "<!DOCTYPE html>", "</", "<", "\r\n", "é"]


def soup(rng, n):
    out = []
    theme = [rng.choice(TAGS) for _ in range(rng.randint(2, 7))]
    for _ in range(n):
        r = rng.random()
        if r < 0.45:
            out.append("<%s%s>" % (rng.choice(theme), rng.choice(ATTRS)))
        elif r < 0.75:
            out.append("</%s>" % rng.choice(theme))
        else:
            out.append(rng.choice(TEXTS))
    return "".join(out)


def hx(s):
    return " ".join("%x" % ord(c) for c in s) or "-"


def run(cases):
    inp = "".join(c + "\n" for c in cases)
    p = subprocess.run([HARNESS], input=inp.encode(), stdout=subprocess.PIPE, stderr=subprocess.DEVNULL)
    outs = [l[1:] for l in p.stdout.decode("utf-8", "replace").split("\n") if l.startswith("\x01")]
    return outs


HTML = "http://www.w3.org/1999/xhtml"; SVG = "http://www.w3.org/2000/svg"; MML = "http://www.w3.org/1998/Math/MathML"
CTXS = [(HTML, t) for t in ["div", "body", "html", "head", "table", "tbody", "tr", "td", "th", "caption", "colgroup", "title", "textarea",
                            "style", "script", "xmp", "iframe", "noembed", "noframes", "noscript", "plaintext", "frameset", "p", "a", "form",
                            "button", "li", "pre", "h1", "object", "marquee", "span"]] + \
       [(SVG, t) for t in ["svg", "foreignObject", "desc", "title", "g", "path"]] + \
       [(MML, t) for t in ["math", "mi", "mo", "mtext", "annotation-xml", "mrow"]]
PUBS = ["", "-//W3C//DTD HTML 4.01//EN", "-//W3C//DTD HTML 4.01 Transitional//EN", "-//W3C//DTD HTML 4.01 Frameset//EN",
        "-//W3C//DTD XHTML 1.0 Transitional//EN", "-//W3C//DTD XHTML 1.0 Frameset//EN", "-//W3C//DTD XHTML 1.0 Strict//EN",
        "-//W3O//DTD W3 HTML Strict 3.0//EN//", "-/W3C/DTD HTML 4.0 Transitional/EN", "HTML", "-//IETF//DTD HTML 2.0//EN",
        "-//Netscape Comm. Corp.//DTD HTML//EN", "-//SoftQuad Software//DTD HoTMetaL PRO 6.0::19990601::extensions to HTML 4.0//EN",
        "-//W3C//DTD HTML 3.2 Final//EN", "-//WebTechs//DTD Mozilla HTML//EN", "-//W3C//DTD W3 HTML//EN", "-//W3C//DTD HTML 4.0 Transitional//EN",
        "+//Silmaril//dtd html Pro v0r11 19970101//EN", "-//AS//DTD HTML 3.0 asWedit + extensions//EN", "-//Spyglass//DTD HTML 2.0 Extended//EN",
        "-//W3C//DTD HTML Experimental 970421//EN", "-//W3C//DTD HTML 3 1995-03-24//EN", "-//IETF//DTD HTML Strict Level 3//EN//2.0", "x"]
SYSS = [None, "", "http://www.w3.org/TR/html4/strict.dtd", "http://www.ibm.com/data/dtd/v11/ibmxhtml1-transitional.dtd", "about:legacy-compat", "y"]
NAMES = ["html", "HTML", "htm", "", "svg"]


def doctypes(rng):
    pub = rng.choice(PUBS)
    if rng.random() < 0.3:
        pub = "".join(c.upper() if rng.random() < 0.5 else c.lower() for c in pub)
    if rng.random() < 0.15:
        pub = pub + "x"
    if rng.random() < 0.15:
        pub = pub[:-1]
    sysid = rng.choice(SYSS)
    name = rng.choice(NAMES)
    r = rng.random()
    if r < 0.1:
        return "<!DOCTYPE %s>" % name
    if r < 0.2:
        return "<!DOCTYPE %s SYSTEM \"%s\">" % (name, sysid or "")
    if sysid is None:
        return "<!DOCTYPE %s PUBLIC \"%s\">" % (name, pub)
    return "<!DOCTYPE %s PUBLIC \"%s\" \"%s\">" % (name, pub, sysid)


def main():
    seed = int(sys.argv[1]) if len(sys.argv) > 1 else 1
    n = int(sys.argv[2]) if len(sys.argv) > 2 else 2000
    mode = sys.argv[3] if len(sys.argv) > 3 else "doc"
    rng = random.Random(seed)
    docs = []
    while len(docs) < n:
        s = soup(rng, rng.randint(2, 22))
        ctx = None
        if mode == "frag":
            ctx = rng.choice([c for c in CTXS if c[0] == HTML])
        elif mode == "dt":
            s = doctypes(rng) + soup(rng, rng.randint(0, 5))
        elif rng.random() < 0.3:
            s = "<!DOCTYPE html>" + s
        if h5l.excluded(s, ctx):
            continue
        docs.append((s, ctx))
    for scripting in (0, 1):
        cases = ["tb\ttxt\ts=%d\t%s\t%s" % (scripting, "-" if c is None else "~/%s/%s,-,0" % (hx(c[0]), hx(c[1])), hx(d)) for d, c in docs]
        outs = run(cases)
        assert len(outs) == len(cases), (len(outs), len(cases))
        diffs = collections.OrderedDict()
        nd = 0
        for (d, ctx), o in zip(docs, outs):
            if "@D=" not in o:
                print("NO DUMP", repr(d), o[:200])
                continue
            dump = o.split("@D=")[1].split("@")[0]
            mine, mq = h5l.dump_lines(dump, fragment=ctx is not None)
            try:
                ref, rq = h5l.ref_lines(d, ctx, bool(scripting))
            except Exception as e:
                print("html5lib raised", repr(d), repr(e)[:100])
                continue
            if mine != ref or mq != rq:
                nd += 1
                # key: first differing line pair
                k = None
                for a, b in zip(mine + ["<end>"], ref + ["<end>"]):
                    if a != b:
                        k = (a.strip("| "), b.strip("| "))
                        break
                if k is None:
                    k = ("Q=" + mq, "Q=" + rq)
                diffs.setdefault(k, []).append((d, ctx) if ctx else d)
        print("scripting=%d: %d docs, %d differ, %d kinds" % (scripting, len(docs), nd, len(diffs)))
        for k, ds in sorted(diffs.items(), key=lambda kv: -len(kv[1]))[:40]:
            ds.sort(key=lambda x: len(x[0]) if isinstance(x, tuple) else len(x))
            print("  %4d  html5ever %r  vs html5lib %r   e.g. %r" % (len(ds), k[0], k[1], ds[0]))


if __name__ == "__main__":
    main()
