#!/usr/bin/env python3
"""dev-time: verify a seeded change produced by a mutation agent, store it under /verif/seeded, and run
the affected checks against it.

  tools/dev/seed.py verify <PID> <k> [--crate html5ever]     # confirm: tests pass with change, demo fails with / passes without
  tools/dev/seed.py run <seed-id> [Cxx ...]                  # apply to /repo, run quick checks, undo; records results in meta.json
"""
import json, os, re, shutil, subprocess, sys, time

ROOT = os.path.dirname(os.path.dirname(os.path.dirname(os.path.abspath(__file__))))
SEEDED = os.path.join(ROOT, "seeded")
ENV = dict(os.environ, CARGO_NET_OFFLINE="true")


def sh(cmd, cwd=None, timeout=3600):
    p = subprocess.run(cmd, cwd=cwd, shell=True, env=ENV, stdout=subprocess.PIPE, stderr=subprocess.STDOUT, text=True, timeout=timeout)
    return p.returncode, p.stdout


def tests_summary(out):
    passed = sum(int(m.group(1)) for m in re.finditer(r"test result: \w+\. (\d+) passed", out))
    failed = sum(int(m.group(1)) for m in re.finditer(r"test result: \w+\. \d+ passed; (\d+) failed", out))
    return passed, failed


def verify(pid, k, crate=None):
    src = "/tmp/mutout-%s/m%s" % (pid, k)
    wt = "/tmp/mut-%s" % pid
    readme = open(os.path.join(src, "README.md")).read()
    if crate is None:
        m = re.search(r"\b(html5ever|xml5ever|markup5ever|rcdom|tendril|web_atoms)/tests", readme)
        crate = m.group(1) if m else "html5ever"
    name = "seed_%s_m%s" % (pid.lower(), k)
    sh("git checkout -- . && git clean -fdq", cwd=wt)
    os.makedirs(os.path.join(wt, crate, "tests"), exist_ok=True)
    demo_dst = os.path.join(wt, crate, "tests", name + ".rs")
    shutil.copy(os.path.join(src, "demo.rs"), demo_dst)
    pkg = {"rcdom": "markup5ever_rcdom"}.get(crate, crate)
    feat = " --features encoding_rs" if "encoding_rs" in readme and crate == "tendril" else ""
    rel = " --release" if "--release" in readme else ""      # a change that only exists without debug_assertions
    cmd = "cargo test --offline%s -p %s --test %s%s" % (rel, pkg, name, feat)
    rc0, out0 = sh(cmd, cwd=wt)
    ok_without = rc0 == 0
    rc, out = sh("git apply %s" % os.path.join(src, "patch.diff"), cwd=wt)
    if rc != 0:
        print("patch does not apply:", out)
        return None
    rc1, out1 = sh(cmd, cwd=wt)
    fails_with = rc1 != 0 and "error: could not compile" not in out1
    os.remove(demo_dst)
    rc2, out2 = sh("cargo test --workspace --no-fail-fast --offline", cwd=wt)
    p, f = tests_summary(out2)
    suite_ok = (p == 142 and f == 0)
    sh("git checkout -- . && git clean -fdq", cwd=wt)
    print("%s m%s: demo passes without=%s, fails with=%s, suite with change: %d passed %d failed" % (pid, k, ok_without, fails_with, p, f))
    if not (ok_without and fails_with and suite_ok):
        print(out0[-600:] if not ok_without else "")
        print(out1[-600:] if not fails_with else "")
        return False
    sid = "%s-m%s" % (pid, k)
    dst = os.path.join(SEEDED, sid)
    os.makedirs(dst, exist_ok=True)
    shutil.copy(os.path.join(src, "patch.diff"), os.path.join(dst, "patch.diff"))
    shutil.copy(os.path.join(src, "demo.rs"), os.path.join(dst, "demo.rs"))
    shutil.copy(os.path.join(src, "README.md"), os.path.join(dst, "README.md"))
    files = re.findall(r"^\+\+\+ b/(\S+)", open(os.path.join(src, "patch.diff")).read(), flags=re.M)
    meta = {"id": sid, "breaks_property": pid, "files": files, "demo_crate": crate, "demo_cmd": cmd,
            "needs_to_manifest": "see README.md",
            "confirmed": {"demo_passes_without_change": ok_without, "demo_fails_with_change": fails_with,
                          "suite_passed_with_change": p, "suite_failed_with_change": f,
                          "how": "tools/dev/seed.py verify in scratch worktree %s" % wt,
                          "when": time.strftime("%Y-%m-%d %H:%M:%S")},
            "checks": {}}
    json.dump(meta, open(os.path.join(dst, "meta.json"), "w"), indent=1)
    return True


def run(sid, checks):
    dst = os.path.join(SEEDED, sid)
    meta = json.load(open(os.path.join(dst, "meta.json")))
    if not checks:
        checks = [meta["breaks_property"]]
    rc, out = sh("git status --porcelain", cwd="/repo")
    if out.strip():
        print("/repo is not clean; refusing")
        return
    rc, out = sh("git apply %s" % os.path.join(dst, "patch.diff"), cwd="/repo")
    if rc != 0:
        print("patch does not apply to /repo:", out)
        return
    saved = {}
    for c in checks:
        ev = os.path.join(ROOT, "evidence", c + ".json")
        if os.path.exists(ev):
            saved[ev] = open(ev).read()
    try:
        for c in checks:
            t = time.time()
            rc, out = sh("./check %s --tier quick" % c, cwd=ROOT, timeout=3600)
            viol = [l for l in out.split("\n") if l.startswith("VIOLATION")]
            meta["checks"][c] = {"exit": rc, "violations": viol[:5], "detected": rc == 1 and bool(viol),
                                 "concrete_replay": any("no-failing-input-found" not in v for v in viol),
                                 "wall_s": round(time.time() - t, 1), "tail": out.strip().split("\n")[-1][:300]}
            print("%s vs %s: exit=%d detected=%s %s" % (sid, c, rc, meta["checks"][c]["detected"], viol[:2]))
    finally:
        sh("git checkout -- .", cwd="/repo")
        for ev, txt in saved.items():      # evidence must describe the unchanged tree, not the seeded one
            open(ev, "w").write(txt)
    json.dump(meta, open(os.path.join(dst, "meta.json"), "w"), indent=1)


if __name__ == "__main__":
    if sys.argv[1] == "verify":
        crate = None
        if "--crate" in sys.argv:
            crate = sys.argv[sys.argv.index("--crate") + 1]
        verify(sys.argv[2], sys.argv[3], crate)
    else:
        run(sys.argv[2], sys.argv[3:])
