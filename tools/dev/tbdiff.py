#!/usr/bin/env python3
"""dev aid (not a registered command): run tb cases through harness and model, show disagreements.
usage: tbdiff.py <family> [tier] [seed] [max-shown]     family ∈ step doctype frag adoption noah foster random randtok all"""
import os, random, sys, time
sys.path.insert(0, os.path.join(os.path.dirname(__file__), ".."))
import vlib
from props import tbcommon as T

fam = sys.argv[1] if len(sys.argv) > 1 else "all"
tier = sys.argv[2] if len(sys.argv) > 2 else "quick"
seed = int(sys.argv[3]) if len(sys.argv) > 3 else 1
show = int(sys.argv[4]) if len(sys.argv) > 4 else 5
rng = random.Random(seed)
cases = []
if fam in ("step", "all"): cases += T.single_step_cover(tier, rng)
if fam in ("doctype", "all"): cases += T.doctype_cover()
if fam in ("pair", "all"): cases += T.pair_cover(tier)
if fam in ("ftab", "all"): cases += T.foreign_tables_cover()
if fam in ("frag", "all"): cases += T.fragment_cover(tier)
if fam in ("adoption", "all"): cases += T.adoption_family(tier, rng)
if fam in ("noah", "all"): cases += T.noahs_ark_family(tier)
if fam in ("foster", "all"): cases += T.foster_family(tier, rng)
if fam in ("random", "all"): cases += T.random_docs(rng, 3000 if tier == "quick" else 100000)
if fam in ("randtok", "all"): cases += T.random_token_runs(rng, 3000 if tier == "quick" else 100000)
if fam == "c06":
    from props import C06
    cases = C06.gen_cases(tier, rng)
if fam.startswith("file:"):
    cases = [(l.rstrip("\n"), "file") for l in open(fam[5:]) if l.strip()]
seen = set(); u = []
for c in cases:
    if c[0] not in seen:
        seen.add(c[0]); u.append(c)
cases = u
lines = [c[0] for c in cases]
t = time.time(); impl = vlib.run_impl(lines); ti = time.time() - t
t = time.time(); model = vlib.run_model(lines); tm = time.time() - t
bad = [(c, i, m) for c, i, m in zip(cases, impl, model) if not T.compare(c[0], i, m)]
print("%d cases, impl %.1fs, model %.1fs, %d disagreements, %d impl panics, %d impl bytes" % (
    len(cases), ti, tm, len(bad), sum(1 for i in impl if i and i.startswith("PANIC")), sum(len(i or "") for i in impl)))
from collections import Counter
print(Counter(c[1] for c, _, _ in bad).most_common(12))
print("panic classes:", Counter(i for i in impl if i and not i.startswith("T=")).most_common(12))
def firstdiff(a, b):
    a = a or ""; b = b or ""
    k = 0
    while k < min(len(a), len(b)) and a[k] == b[k]: k += 1
    return k
if fam == "c06":
    ov = [(c, i, C06.oracle(c[0], i)) for c, i in zip(cases, impl)]
    ov = [x for x in ov if x[2]]
    print("ORACLE failures:", len(ov), "nontrivial:", sum(1 for c, i in zip(cases, impl) if C06.nontrivial(c[0], i)))
    ov.sort(key=lambda x: len(x[0][0]))
    for (line, tag), i, why in ov[:show]:
        print("---", tag, why); print(line); print("".join(T.txt_chunks(line)) if line.split("\t")[1] == "txt" else ""); print((i or "")[-600:])
    print(Counter(w[:60] for _, _, w in ov).most_common(10))
bad.sort(key=lambda x: len(x[0][0]))
for (line, tag), i, m in bad[:show]:
    k = firstdiff(i, m)
    print("---", tag); print(line)
    print(" impl : …%s" % (i or "None")[max(0, k - 150):k + 200])
    print(" model: …%s" % (m or "None")[max(0, k - 150):k + 200])
if bad:
    with open(os.path.join(vlib.WORK, "tbdiff_bad.cases"), "w") as f:
        for (line, tag), i, m in bad: f.write(line + "\n")
