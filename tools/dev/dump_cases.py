#!/usr/bin/env python3
"""dev-time: write the quick-tier case lines of every registered check to a directory (one file per property)"""
import importlib, os, random, sys
ROOT = os.path.dirname(os.path.dirname(os.path.dirname(os.path.abspath(__file__))))
sys.path.insert(0, os.path.join(ROOT, "tools"))
out = sys.argv[1]
tier = sys.argv[2] if len(sys.argv) > 2 else "quick"
os.makedirs(out, exist_ok=True)
for i in range(1, 21):
    pid = "C%02d" % i
    try:
        m = importlib.import_module("props." + pid)
    except Exception as e:
        print(pid, "import failed", e); continue
    cases = m.gen_cases(tier, random.Random(1))
    cdir = os.path.join(ROOT, "corpus", pid)
    lines = []
    if os.path.isdir(cdir):
        for fn in sorted(os.listdir(cdir)):
            for l in open(os.path.join(cdir, fn), encoding="utf-8"):
                l = l.rstrip("\n")
                if l and not l.startswith("#"):
                    lines.append(l)
    lines += [c[0] for c in cases]
    with open(os.path.join(out, pid + ".cases"), "w", encoding="utf-8") as f:
        for l in dict.fromkeys(lines):
            f.write(l + "\n")
    print(pid, len(lines))
