#!/usr/bin/env python3
"""dev-time: print the seeded-change result table (markdown) from seeded/*/meta.json"""
import glob, json, os, re
ROOT = os.path.dirname(os.path.dirname(os.path.dirname(os.path.abspath(__file__))))
rows = []
for f in sorted(glob.glob(os.path.join(ROOT, "seeded", "*", "meta.json"))):
    m = json.load(open(f))
    cs = m.get("checks", {})
    conc = sorted(c for c, v in cs.items() if v.get("detected") and v.get("concrete_replay"))
    det = sorted(c for c, v in cs.items() if v.get("detected"))
    rows.append((m["id"], m.get("files", []), det, conc))
print("| seed | files changed | caught by (concrete replay) | caught by (no failing input) |")
print("|---|---|---|---|")
for sid, files, det, conc in rows:
    print("| %s | %s | %s | %s |" % (sid, ", ".join(os.path.basename(x) for x in files), ", ".join(conc) or "–",
                                   ", ".join(c for c in det if c not in conc) or "–"))
print()
print("%d seeds; %d caught with a concrete replay by at least one check; %d only without; %d missed" % (
    len(rows), sum(1 for r in rows if r[3]), sum(1 for r in rows if r[2] and not r[3]), sum(1 for r in rows if not r[2])))
