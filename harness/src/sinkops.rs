//! Shared TreeSink op-trace format and a tracing / contract-monitoring sink wrapper.
//!
//! Trace format (identical to the `ops` field of engine `rcdom`, see
//! lean/H5V/Model/DomDriver.lean): ops joined by `;`, fields by `,`, strings as hex code points,
//! qualified names `prefix/ns/local` (`~` = no prefix), attribute lists `qn=value&…` or `-`,
//! children `n<handle>` | `t<hex>`.  Nodes are named by *handle numbers* in creation order:
//! h0 = document, each `create_element`/`create_comment`/`create_pi` takes the next number, a
//! template element takes two (element, then template contents).
//!
//! `TracingSink<S>` wraps any `TreeSink`:
//!  * records every call as an op line (`trace`),
//!  * validates every call *before* forwarding it against the TreeSink contract
//!    (`H5V.Model.Dom.contractOk` in Lean) on a shadow structure of the handle-bearing nodes
//!    (kind, parent) and records `(op index, which clause)` in `violations`
//!    (reported by engines as `CONTRACT-VIOLATION <which>`),
//!  * optionally keeps every handle alive (`handles`), which engines use to dump the result,
//!  * simulates a garbage-collected DOM (property C18): `collect(roots)` marks every handle-bearing
//!    node that is not connected (parent / children / template-contents links) to one of the
//!    traced roots as *poisoned*; a later sink call that receives a poisoned handle is recorded in
//!    `poison_hits` (`POISONED-HANDLE-USED`).
use crate::proto::{parse_string, show_str};
use markup5ever::interface::tree_builder::{ElementFlags, NodeOrText, QuirksMode, TreeSink};
use markup5ever::{Attribute, LocalName, Namespace, Prefix, QualName};
use std::borrow::Cow;
use std::cell::{Cell, RefCell};
use tendril::StrTendril;

// ------------------------------------------------------------------ text encoding

pub fn show_qual(q: &QualName) -> String {
    format!(
        "{}/{}/{}",
        match &q.prefix {
            None => "~".to_string(),
            Some(p) => show_str(p),
        },
        show_str(&q.ns),
        show_str(&q.local)
    )
}

pub fn show_attrs<'a, I: IntoIterator<Item = (&'a QualName, &'a str)>>(attrs: I) -> String {
    let v: Vec<String> = attrs
        .into_iter()
        .map(|(n, v)| format!("{}={}", show_qual(n), show_str(v)))
        .collect();
    if v.is_empty() {
        "-".into()
    } else {
        v.join("&")
    }
}

pub fn show_attr_vec(attrs: &[Attribute]) -> String {
    show_attrs(attrs.iter().map(|a| (&a.name, &a.value[..])))
}

pub fn parse_qual(s: &str) -> Option<QualName> {
    let parts: Vec<&str> = s.split('/').collect();
    if parts.len() != 3 {
        return None;
    }
    let prefix = if parts[0] == "~" {
        None
    } else {
        Some(Prefix::from(&*parse_string(parts[0])?))
    };
    Some(QualName::new(
        prefix,
        Namespace::from(&*parse_string(parts[1])?),
        LocalName::from(&*parse_string(parts[2])?),
    ))
}

pub fn parse_attrs(s: &str) -> Option<Vec<Attribute>> {
    if s == "-" {
        return Some(vec![]);
    }
    s.split('&')
        .map(|a| {
            let kv: Vec<&str> = a.split('=').collect();
            if kv.len() != 2 {
                return None;
            }
            Some(Attribute {
                name: parse_qual(kv[0])?,
                value: StrTendril::from_slice(&parse_string(kv[1])?),
            })
        })
        .collect()
}

pub fn show_flags(f: &ElementFlags) -> String {
    let mut s = String::new();
    if f.template {
        s.push('t');
    }
    if f.mathml_annotation_xml_integration_point {
        s.push('m');
    }
    if f.had_duplicate_attributes {
        s.push('d');
    }
    if s.is_empty() {
        "-".into()
    } else {
        s
    }
}

pub fn parse_flags(s: &str) -> Option<ElementFlags> {
    let mut f = ElementFlags::default();
    if s == "-" {
        return Some(f);
    }
    for c in s.chars() {
        match c {
            't' => f.template = true,
            'm' => f.mathml_annotation_xml_integration_point = true,
            'd' => f.had_duplicate_attributes = true,
            _ => return None,
        }
    }
    Some(f)
}

// ------------------------------------------------------------------ shadow structure

#[derive(Clone, Copy, PartialEq, Eq, Debug)]
pub enum Kind {
    Document,
    Element,
    Comment,
    Pi,
}

#[derive(Clone, Debug)]
pub struct ShadowNode {
    pub kind: Kind,
    pub parent: Option<usize>,
    /// the handle-bearing children, in document order (text nodes, doctypes and clones left out)
    pub children: Vec<usize>,
    pub local: Option<String>,
    /// attribute names of an element (kept up to date by `add_attrs_if_missing`)
    pub attr_names: Vec<QualName>,
    pub template_contents: Option<usize>,
}

/// The handle-bearing nodes of the DOM being built: kind, parent link, ordered child list.  Text
/// nodes, doctypes and clones have no handle and can never be a parent, so the contract does not
/// need them (except "the document has a doctype child": `doctypes` holds the parent of every
/// doctype node, which only `reparent_children` can change).  The order of the children is needed
/// for one thing only: `maybe_clone_an_option_into_selectedcontent` detaches the children of the
/// select's *first* selectedcontent descendant *in tree order*.
#[derive(Default)]
pub struct Shadow {
    pub nodes: Vec<ShadowNode>,
    pub doctypes: Vec<usize>,
}

impl Shadow {
    fn detach(&mut self, c: usize) {
        if let Some(p) = self.nodes[c].parent.take() {
            self.nodes[p].children.retain(|&x| x != c);
        }
    }
    fn attach_last(&mut self, p: usize, c: usize) {
        self.nodes[c].parent = Some(p);
        self.nodes[p].children.push(c);
    }
    /// `c` becomes the child of `sibling`'s parent immediately before `sibling` (detached first)
    fn attach_before(&mut self, sibling: usize, c: usize) {
        self.detach(c);
        if let Some(p) = self.nodes[sibling].parent {
            let i = self.nodes[p]
                .children
                .iter()
                .position(|&x| x == sibling)
                .unwrap_or(self.nodes[p].children.len());
            self.nodes[c].parent = Some(p);
            self.nodes[p].children.insert(i, c);
        }
    }
    fn has_attr_local(&self, h: usize, local: &str) -> bool {
        self.nodes[h].attr_names.iter().any(|q| &*q.local == local)
    }
    /// the standard's (and, since /repo ebdbd68, RcDom's) choice of the selectedcontent that
    /// mirrors `option`, over the handle-bearing nodes: `H5V.Model.Dom.cloneTarget .fixed`
    fn clone_target(&self, option: usize) -> Option<usize> {
        let mut seen_optgroup = false;
        let mut cur = self.nodes[option].parent;
        let mut select = None;
        let mut steps = 0;
        while let Some(c) = cur {
            steps += 1;
            if steps > self.nodes.len() + 1 {
                return None;
            }
            if self.nodes[c].kind == Kind::Element {
                match self.nodes[c].local.as_deref() {
                    Some("datalist") | Some("hr") | Some("option") => return None,
                    Some("optgroup") => {
                        if seen_optgroup {
                            return None;
                        }
                        seen_optgroup = true;
                    },
                    Some("select") => {
                        select = Some(c);
                        break;
                    },
                    _ => {},
                }
            }
            cur = self.nodes[c].parent;
        }
        let select = select?;
        if self.has_attr_local(select, "multiple") {
            return None;
        }
        let mut stack: Vec<usize> = self.nodes[select].children.iter().rev().cloned().collect();
        let mut budget = 4 * self.nodes.len() + 4;
        let mut found = None;
        while let Some(n) = stack.pop() {
            if budget == 0 {
                return None;
            }
            budget -= 1;
            if self.nodes[n].kind == Kind::Element && self.nodes[n].local.as_deref() == Some("selectedcontent") {
                found = Some(n);
                break;
            }
            stack.extend(self.nodes[n].children.iter().rev().cloned());
        }
        let sc = found?;
        if self.has_attr_local(option, "selected") {
            Some(sc)
        } else {
            None
        }
    }
    fn is_container(&self, h: usize) -> bool {
        matches!(self.nodes[h].kind, Kind::Document | Kind::Element)
    }
    fn is_element(&self, h: usize) -> bool {
        self.nodes[h].kind == Kind::Element
    }
    fn is_insertable(&self, h: usize) -> bool {
        matches!(self.nodes[h].kind, Kind::Element | Kind::Comment | Kind::Pi)
    }
    /// is `a` equal to `x` or an ancestor of `x`? (bounded walk, like `Dom.isAncOrSelf`)
    fn is_anc_or_self(&self, a: usize, x: usize) -> bool {
        let mut cur = Some(x);
        let mut steps = 0;
        while let Some(c) = cur {
            if c == a {
                return true;
            }
            steps += 1;
            if steps > self.nodes.len() + 1 {
                return false;
            }
            cur = self.nodes[c].parent;
        }
        false
    }
    /// `H5V.Model.Dom.attrKey`: what identifies an attribute — the expanded name (namespace, local);
    /// in no namespace the (unresolved) prefix is kept
    fn attr_key(q: &QualName) -> (Option<String>, String, String) {
        if q.ns.is_empty() {
            (q.prefix.as_ref().map(|p| p.to_string()), String::new(), q.local.to_string())
        } else {
            (None, q.ns.to_string(), q.local.to_string())
        }
    }
    fn attr_names_nodup(attrs: &[Attribute]) -> bool {
        for (i, a) in attrs.iter().enumerate() {
            let ka = Self::attr_key(&a.name);
            if attrs[i + 1..].iter().any(|b| Self::attr_key(&b.name) == ka) {
                return false;
            }
        }
        true
    }
    /// the clauses of `childOk`
    fn child_ok(&self, new_parent: usize, must_be_parentless: bool, child: Option<usize>, which: &mut Vec<&'static str>) {
        if let Some(c) = child {
            if !self.is_insertable(c) {
                which.push("child-not-created-by-builder");
            }
            if must_be_parentless && self.nodes[c].parent.is_some() {
                which.push("child-has-parent");
            }
            if self.is_anc_or_self(c, new_parent) {
                which.push("insert-under-self-or-descendant");
            }
        }
    }
    fn check_append(&self, parent: usize, child: Option<usize>, which: &mut Vec<&'static str>) {
        if !self.is_container(parent) {
            which.push("parent-not-container");
        }
        self.child_ok(parent, true, child, which);
    }
    fn check_abs(&self, sibling: usize, child: Option<usize>, which: &mut Vec<&'static str>) {
        if !self.is_insertable(sibling) {
            which.push("sibling-not-created-by-builder");
        }
        match self.nodes[sibling].parent {
            None => which.push("sibling-without-parent"),
            Some(p) => {
                if !self.is_container(p) {
                    which.push("parent-not-container");
                }
                self.child_ok(p, false, child, which);
                if child == Some(sibling) {
                    which.push("insert-before-itself");
                }
            },
        }
    }
}

// ------------------------------------------------------------------ the wrapper

pub struct TracedHandle<H> {
    pub id: usize,
    pub inner: H,
}

impl<H: Clone> Clone for TracedHandle<H> {
    fn clone(&self) -> Self {
        TracedHandle {
            id: self.id,
            inner: self.inner.clone(),
        }
    }
}

/// when set, `TracingSink::attach_declarative_shadow` reports success whatever the inner sink says (engine `tb`, `sh=1`)
pub static SHADOW_ATTACH_OK: std::sync::atomic::AtomicBool = std::sync::atomic::AtomicBool::new(false);

pub struct TracingSink<S: TreeSink> {
    pub inner: S,
    pub trace: RefCell<Vec<String>>,
    pub violations: RefCell<Vec<(usize, String)>>,
    pub shadow: RefCell<Shadow>,
    /// every handle ever handed out, by number (only when `keep_handles`)
    pub handles: RefCell<Vec<S::Handle>>,
    /// C18: nodes a simulated collection has discarded, and the calls that used one afterwards
    pub poisoned: RefCell<Vec<bool>>,
    pub poison_hits: RefCell<Vec<(usize, String)>>,
    keep_handles: bool,
    next: Cell<usize>,
}

/// `Tracer` that records the numbers of the handles reported by `trace_handles`
pub struct IdTracer<H> {
    pub ids: RefCell<Vec<usize>>,
    _h: std::marker::PhantomData<H>,
}

impl<H> Default for IdTracer<H> {
    fn default() -> Self {
        IdTracer {
            ids: RefCell::new(vec![]),
            _h: std::marker::PhantomData,
        }
    }
}

impl<H> markup5ever::interface::tree_builder::Tracer for IdTracer<H> {
    type Handle = TracedHandle<H>;
    fn trace_handle(&self, node: &TracedHandle<H>) {
        self.ids.borrow_mut().push(node.id);
    }
}

/// the handle numbers among the fields of an op line (see the module documentation)
pub fn handle_args(line: &str) -> Vec<usize> {
    let f: Vec<&str> = line.split(',').collect();
    let num = |s: &str| s.parse::<usize>().ok();
    let child = |s: &str| s.strip_prefix('n').and_then(|x| x.parse::<usize>().ok());
    let mut v: Vec<Option<usize>> = vec![];
    match f[0] {
        "en" | "ms" | "pop" | "tc" | "rm" | "ip" | "adsr" | "mc" | "aa" => v.push(num(f[1])),
        "sn" | "rc" | "ads" => {
            v.push(num(f[1]));
            v.push(num(f[2]));
        },
        "ap" | "abs" => {
            v.push(num(f[1]));
            v.push(child(f[2]));
        },
        "abp" => {
            v.push(num(f[1]));
            v.push(num(f[2]));
            v.push(child(f[3]));
        },
        "af" => {
            for x in &f[1..5] {
                v.push(num(x));
            }
        },
        _ => {},
    }
    v.into_iter().flatten().collect()
}

pub struct TraceOutput<S: TreeSink> {
    pub inner: S::Output,
    pub trace: Vec<String>,
    pub violations: Vec<(usize, String)>,
    pub handles: Vec<S::Handle>,
}

fn child_str<H>(c: &NodeOrText<TracedHandle<H>>) -> String {
    match c {
        NodeOrText::AppendNode(h) => format!("n{}", h.id),
        NodeOrText::AppendText(t) => format!("t{}", show_str(t)),
    }
}

fn child_id<H>(c: &NodeOrText<TracedHandle<H>>) -> Option<usize> {
    match c {
        NodeOrText::AppendNode(h) => Some(h.id),
        NodeOrText::AppendText(_) => None,
    }
}

fn child_inner<H>(c: NodeOrText<TracedHandle<H>>) -> NodeOrText<H> {
    match c {
        NodeOrText::AppendNode(h) => NodeOrText::AppendNode(h.inner),
        NodeOrText::AppendText(t) => NodeOrText::AppendText(t),
    }
}

impl<S: TreeSink> TracingSink<S> {
    pub fn new(inner: S, keep_handles: bool) -> Self {
        let doc = inner.get_document();
        let s = TracingSink {
            inner,
            trace: RefCell::new(vec![]),
            violations: RefCell::new(vec![]),
            shadow: RefCell::new(Shadow::default()),
            handles: RefCell::new(vec![]),
            poisoned: RefCell::new(vec![]),
            poison_hits: RefCell::new(vec![]),
            keep_handles,
            next: Cell::new(0),
        };
        s.register(doc, Kind::Document, None);
        s
    }

    fn register(&self, h: S::Handle, kind: Kind, local: Option<String>) -> TracedHandle<S::Handle> {
        let id = self.next.get();
        self.next.set(id + 1);
        self.shadow.borrow_mut().nodes.push(ShadowNode {
            kind,
            parent: None,
            children: vec![],
            local,
            attr_names: vec![],
            template_contents: None,
        });
        if self.keep_handles {
            self.handles.borrow_mut().push(h.clone());
        }
        TracedHandle { id, inner: h }
    }

    /// record the call and the contract clauses it violates
    fn log(&self, line: String, which: Vec<&'static str>) {
        let idx = self.trace.borrow().len();
        let op = line.split(',').next().unwrap_or("").to_string();
        {
            let poisoned = self.poisoned.borrow();
            if !poisoned.is_empty() {
                for h in handle_args(&line) {
                    if poisoned.get(h).copied().unwrap_or(false) {
                        self.poison_hits
                            .borrow_mut()
                            .push((idx, format!("{}:h{}", op, h)));
                    }
                }
            }
        }
        self.trace.borrow_mut().push(line);
        for w in which {
            self.violations.borrow_mut().push((idx, format!("{}:{}", op, w)));
        }
    }

    fn need_element(&self, h: usize, which: &mut Vec<&'static str>) {
        if !self.shadow.borrow().is_element(h) {
            which.push("not-an-element");
        }
    }

    /// C18: simulate a collection.  Everything connected to one of `roots` through parent, children
    /// and template-contents links survives; every other handle-bearing node created so far is
    /// poisoned.  Returns (number of surviving nodes, number of nodes poisoned by this collection).
    pub fn collect(&self, roots: &[usize]) -> (usize, usize) {
        let sh = self.shadow.borrow();
        let n = sh.nodes.len();
        let mut live = vec![false; n];
        let mut stack: Vec<usize> = vec![];
        for &r in roots {
            if r < n && !live[r] {
                live[r] = true;
                stack.push(r);
            }
        }
        while let Some(x) = stack.pop() {
            let node = &sh.nodes[x];
            let mut next: Vec<usize> = node.children.clone();
            if let Some(p) = node.parent {
                next.push(p);
            }
            if let Some(t) = node.template_contents {
                next.push(t);
            }
            for y in next {
                if y < n && !live[y] {
                    live[y] = true;
                    stack.push(y);
                }
            }
        }
        let mut poisoned = self.poisoned.borrow_mut();
        poisoned.resize(n, false);
        let mut newly = 0;
        for i in 0..n {
            if !live[i] && !poisoned[i] {
                poisoned[i] = true;
                newly += 1;
            }
        }
        (live.iter().filter(|&&b| b).count(), newly)
    }

    pub fn number_of_handles(&self) -> usize {
        self.next.get()
    }

    pub fn violation_count(&self) -> usize {
        self.violations.borrow().len()
    }
}

impl<S: TreeSink> TreeSink for TracingSink<S> {
    type Handle = TracedHandle<S::Handle>;
    type Output = TraceOutput<S>;
    type ElemName<'a>
        = S::ElemName<'a>
    where
        Self: 'a;

    fn finish(self) -> Self::Output {
        TraceOutput {
            trace: self.trace.into_inner(),
            violations: self.violations.into_inner(),
            handles: self.handles.into_inner(),
            inner: self.inner.finish(),
        }
    }

    fn parse_error(&self, msg: Cow<'static, str>) {
        self.log(format!("pe,{}", show_str(&msg)), vec![]);
        self.inner.parse_error(msg)
    }

    fn get_document(&self) -> Self::Handle {
        self.log("doc".into(), vec![]);
        TracedHandle {
            id: 0,
            inner: self.inner.get_document(),
        }
    }

    fn elem_name<'a>(&'a self, target: &'a Self::Handle) -> Self::ElemName<'a> {
        let mut w = vec![];
        self.need_element(target.id, &mut w);
        self.log(format!("en,{}", target.id), w);
        self.inner.elem_name(&target.inner)
    }

    fn create_element(&self, name: QualName, attrs: Vec<Attribute>, flags: ElementFlags) -> Self::Handle {
        let mut w = vec![];
        if !Shadow::attr_names_nodup(&attrs) {
            w.push("duplicate-attribute-name");
        }
        self.log(
            format!("ce,{},{},{}", show_qual(&name), show_flags(&flags), show_attr_vec(&attrs)),
            w,
        );
        let template = flags.template;
        let local = name.local.to_string();
        let names: Vec<QualName> = attrs.iter().map(|a| a.name.clone()).collect();
        let h = self.inner.create_element(name, attrs, flags);
        let th = self.register(h, Kind::Element, Some(local));
        self.shadow.borrow_mut().nodes[th.id].attr_names = names;
        if template {
            // number the template contents right away (element k, contents k+1)
            let tc = self.inner.get_template_contents(&th.inner);
            let tch = self.register(tc, Kind::Document, None);
            self.shadow.borrow_mut().nodes[th.id].template_contents = Some(tch.id);
        }
        th
    }

    fn create_comment(&self, text: StrTendril) -> Self::Handle {
        self.log(format!("cc,{}", show_str(&text)), vec![]);
        let h = self.inner.create_comment(text);
        self.register(h, Kind::Comment, None)
    }

    fn create_pi(&self, target: StrTendril, data: StrTendril) -> Self::Handle {
        self.log(format!("cp,{},{}", show_str(&target), show_str(&data)), vec![]);
        let h = self.inner.create_pi(target, data);
        self.register(h, Kind::Pi, None)
    }

    fn append(&self, parent: &Self::Handle, child: NodeOrText<Self::Handle>) {
        let mut w = vec![];
        let cid = child_id(&child);
        self.shadow.borrow().check_append(parent.id, cid, &mut w);
        self.log(format!("ap,{},{}", parent.id, child_str(&child)), w);
        self.inner.append(&parent.inner, child_inner(child));
        if let Some(c) = cid {
            self.shadow.borrow_mut().attach_last(parent.id, c);
        }
    }

    fn append_based_on_parent_node(
        &self,
        element: &Self::Handle,
        prev_element: &Self::Handle,
        child: NodeOrText<Self::Handle>,
    ) {
        let mut w = vec![];
        let cid = child_id(&child);
        let has_parent;
        {
            let sh = self.shadow.borrow();
            if !sh.is_element(element.id) || !sh.is_element(prev_element.id) {
                w.push("not-an-element");
            }
            has_parent = sh.nodes[element.id].parent.is_some();
            if has_parent {
                sh.check_abs(element.id, cid, &mut w);
            } else {
                sh.check_append(prev_element.id, cid, &mut w);
            }
        }
        self.log(
            format!("abp,{},{},{}", element.id, prev_element.id, child_str(&child)),
            w,
        );
        self.inner
            .append_based_on_parent_node(&element.inner, &prev_element.inner, child_inner(child));
        if let Some(c) = cid {
            let mut sh = self.shadow.borrow_mut();
            if has_parent {
                sh.attach_before(element.id, c);
            } else {
                sh.attach_last(prev_element.id, c);
            }
        }
    }

    fn append_doctype_to_document(&self, name: StrTendril, public_id: StrTendril, system_id: StrTendril) {
        let mut w = vec![];
        {
            let sh = self.shadow.borrow();
            let element_in_document = sh
                .nodes
                .iter()
                .any(|n| n.parent == Some(0) && n.kind == Kind::Element);
            if sh.doctypes.contains(&0) || element_in_document {
                w.push("second-doctype-or-after-element");
            }
        }
        self.log(
            format!("dt,{},{},{}", show_str(&name), show_str(&public_id), show_str(&system_id)),
            w,
        );
        self.inner.append_doctype_to_document(name, public_id, system_id);
        self.shadow.borrow_mut().doctypes.push(0);
    }

    fn mark_script_already_started(&self, node: &Self::Handle) {
        let mut w = vec![];
        self.need_element(node.id, &mut w);
        self.log(format!("ms,{}", node.id), w);
        self.inner.mark_script_already_started(&node.inner)
    }

    fn pop(&self, node: &Self::Handle) {
        let mut w = vec![];
        self.need_element(node.id, &mut w);
        self.log(format!("pop,{}", node.id), w);
        self.inner.pop(&node.inner)
    }

    fn get_template_contents(&self, target: &Self::Handle) -> Self::Handle {
        let tc = self.shadow.borrow().nodes[target.id].template_contents;
        let mut w = vec![];
        if tc.is_none() {
            w.push("not-a-template");
        }
        self.log(format!("tc,{}", target.id), w);
        let inner = self.inner.get_template_contents(&target.inner);
        match tc {
            Some(id) => TracedHandle { id, inner },
            // contract violation that the sink tolerated: give the result a number of its own
            None => self.register(inner, Kind::Document, None),
        }
    }

    fn same_node(&self, x: &Self::Handle, y: &Self::Handle) -> bool {
        self.log(format!("sn,{},{}", x.id, y.id), vec![]);
        self.inner.same_node(&x.inner, &y.inner)
    }

    fn set_quirks_mode(&self, mode: QuirksMode) {
        let m = match mode {
            QuirksMode::Quirks => "q",
            QuirksMode::LimitedQuirks => "l",
            QuirksMode::NoQuirks => "n",
        };
        self.log(format!("qm,{}", m), vec![]);
        self.inner.set_quirks_mode(mode)
    }

    fn append_before_sibling(&self, sibling: &Self::Handle, new_node: NodeOrText<Self::Handle>) {
        let mut w = vec![];
        let cid = child_id(&new_node);
        self.shadow.borrow().check_abs(sibling.id, cid, &mut w);
        self.log(format!("abs,{},{}", sibling.id, child_str(&new_node)), w);
        self.inner.append_before_sibling(&sibling.inner, child_inner(new_node));
        if let Some(c) = cid {
            self.shadow.borrow_mut().attach_before(sibling.id, c);
        }
    }

    fn add_attrs_if_missing(&self, target: &Self::Handle, attrs: Vec<Attribute>) {
        let mut w = vec![];
        self.need_element(target.id, &mut w);
        if !Shadow::attr_names_nodup(&attrs) {
            w.push("duplicate-attribute-name");
        }
        self.log(format!("aa,{},{}", target.id, show_attr_vec(&attrs)), w);
        {
            let mut sh = self.shadow.borrow_mut();
            let have = sh.nodes[target.id].attr_names.clone();
            for a in &attrs {
                if !have.contains(&a.name) {
                    sh.nodes[target.id].attr_names.push(a.name.clone());
                }
            }
        }
        self.inner.add_attrs_if_missing(&target.inner, attrs)
    }

    fn associate_with_form(
        &self,
        target: &Self::Handle,
        form: &Self::Handle,
        nodes: (&Self::Handle, Option<&Self::Handle>),
    ) {
        let mut w = vec![];
        self.need_element(target.id, &mut w);
        self.need_element(form.id, &mut w);
        self.need_element(nodes.0.id, &mut w);
        if let Some(p) = nodes.1 {
            self.need_element(p.id, &mut w);
        }
        w.dedup();
        self.log(
            format!(
                "af,{},{},{},{}",
                target.id,
                form.id,
                nodes.0.id,
                nodes.1.map(|h| h.id.to_string()).unwrap_or("-".into())
            ),
            w,
        );
        self.inner.associate_with_form(
            &target.inner,
            &form.inner,
            (&nodes.0.inner, nodes.1.map(|h| &h.inner)),
        )
    }

    fn remove_from_parent(&self, target: &Self::Handle) {
        self.log(format!("rm,{}", target.id), vec![]);
        self.inner.remove_from_parent(&target.inner);
        self.shadow.borrow_mut().detach(target.id);
    }

    fn reparent_children(&self, node: &Self::Handle, new_parent: &Self::Handle) {
        let mut w = vec![];
        {
            let sh = self.shadow.borrow();
            if !sh.is_container(node.id) || !sh.is_container(new_parent.id) {
                w.push("parent-not-container");
            }
            if sh.is_anc_or_self(node.id, new_parent.id) {
                w.push("insert-under-self-or-descendant");
            }
        }
        self.log(format!("rc,{},{}", node.id, new_parent.id), w);
        self.inner.reparent_children(&node.inner, &new_parent.inner);
        let mut sh = self.shadow.borrow_mut();
        if node.id != new_parent.id {
            let moved = std::mem::take(&mut sh.nodes[node.id].children);
            for &c in &moved {
                sh.nodes[c].parent = Some(new_parent.id);
            }
            sh.nodes[new_parent.id].children.extend(moved);
        }
        for d in sh.doctypes.iter_mut() {
            if *d == node.id {
                *d = new_parent.id;
            }
        }
    }

    fn is_mathml_annotation_xml_integration_point(&self, handle: &Self::Handle) -> bool {
        let mut w = vec![];
        self.need_element(handle.id, &mut w);
        self.log(format!("ip,{}", handle.id), w);
        self.inner.is_mathml_annotation_xml_integration_point(&handle.inner)
    }

    fn set_current_line(&self, line_number: u64) {
        self.log(format!("ln,{}", line_number), vec![]);
        self.inner.set_current_line(line_number)
    }

    fn allow_declarative_shadow_roots(&self, intended_parent: &Self::Handle) -> bool {
        let mut w = vec![];
        if !self.shadow.borrow().is_container(intended_parent.id) {
            w.push("parent-not-container");
        }
        self.log(format!("adsr,{}", intended_parent.id), w);
        self.inner.allow_declarative_shadow_roots(&intended_parent.inner)
    }

    fn attach_declarative_shadow(&self, location: &Self::Handle, template: &Self::Handle, attrs: &[Attribute]) -> bool {
        let mut w = vec![];
        self.need_element(location.id, &mut w);
        self.need_element(template.id, &mut w);
        w.dedup();
        if !Shadow::attr_names_nodup(attrs) {
            w.push("duplicate-attribute-name");
        }
        self.log(
            format!("ads,{},{},{}", location.id, template.id, show_attr_vec(attrs)),
            w,
        );
        let r = self
            .inner
            .attach_declarative_shadow(&location.inner, &template.inner, attrs);
        r || SHADOW_ATTACH_OK.load(std::sync::atomic::Ordering::SeqCst)
    }

    fn maybe_clone_an_option_into_selectedcontent(&self, option: &Self::Handle) {
        let mut w = vec![];
        if self.shadow.borrow().nodes[option.id].local.as_deref() != Some("option") {
            w.push("not-an-option-element");
        }
        self.log(format!("mc,{}", option.id), w);
        self.inner.maybe_clone_an_option_into_selectedcontent(&option.inner);
        // "replace all" within the selectedcontent: its old children are detached (the copies that
        // replace them have no handle).  Sinks that leave the trait's default (no mirroring) keep
        // the old children attached; the shadow then over-approximates nothing the contract uses
        // except `child-has-parent` for a re-appended old child, which a builder never does.
        let mut sh = self.shadow.borrow_mut();
        if let Some(sc) = sh.clone_target(option.id) {
            let old = std::mem::take(&mut sh.nodes[sc].children);
            for c in old {
                sh.nodes[c].parent = None;
            }
        }
    }
}
