//! engine `xmltok` (C15) — the real xml5ever tokenizer with a recording sink, and the real XML
//! parser into RcDom for tree-level oracles (protocol: lean/H5V/Model/XmlTokDriver.lean).
//!
//! `xmltok<TAB>tok<TAB><opts><TAB><state><TAB><chunks>`
//!     opts = `exact=0|1,bom=0|1`; state = Rust Debug name of an `XmlState` or `-` (Data);
//!     chunks = strings as space-hex code points, `|`-separated (`-` = empty chunk).
//!     output: canonical tokens `;`-separated (adjacent character tokens merged):
//!       `C:<hex>`  `T:<s|e|m|h>:<prefix|~>:<local>:[<prefix|~>/<local>=<value>,…]`  (m = EmptyTag, h = ShortTag)
//!       `P:<target>:<data>`  `M:<comment>`  `D:<name|~>:<public|~>:<system|~>`  `E:<message>`  `EOF`  `N`
//!     hex strings use `.` as separator inside a token (`-` = empty).
//! `xmltok<TAB>tree<TAB><opts><TAB><chunks>`
//!     the same chunks through `xml5ever::driver::parse_document(RcDom)`: `T=<tree dump>` (no model).
use super::meta::dump_dom;
use crate::proto::*;
use markup5ever::buffer_queue::BufferQueue;
use markup5ever_rcdom::RcDom;
use std::cell::RefCell;
use tendril::{StrTendril, TendrilSink};
use xml5ever::driver::{parse_document, XmlParseOpts};
use xml5ever::tokenizer::states::{AttrValueKind::*, DoctypeKind::*, XmlState};
use xml5ever::tokenizer::{ProcessResult, TagKind, Token, TokenSink, XmlTokenizer, XmlTokenizerOpts};

pub fn all_states() -> Vec<XmlState> {
    use XmlState::*;
    let mut v = vec![
        Data,
        TagState,
        EndTagState,
        EndTagName,
        EndTagNameAfter,
        Pi,
        PiTarget,
        PiTargetAfter,
        PiData,
        PiAfter,
        MarkupDecl,
        CommentStart,
        CommentStartDash,
        Comment,
        CommentLessThan,
        CommentLessThanBang,
        CommentLessThanBangDash,
        CommentLessThanBangDashDash,
        CommentEnd,
        CommentEndDash,
        CommentEndBang,
        Cdata,
        CdataBracket,
        CdataEnd,
        TagName,
        TagEmpty,
        TagAttrNameBefore,
        TagAttrName,
        TagAttrNameAfter,
        TagAttrValueBefore,
        TagAttrValue(Unquoted),
        TagAttrValue(SingleQuoted),
        TagAttrValue(DoubleQuoted),
        Doctype,
        BeforeDoctypeName,
        DoctypeName,
        AfterDoctypeName,
    ];
    for k in [Public, System] {
        v.push(AfterDoctypeKeyword(k));
        v.push(BeforeDoctypeIdentifier(k));
        v.push(DoctypeIdentifierDoubleQuoted(k));
        v.push(DoctypeIdentifierSingleQuoted(k));
        v.push(AfterDoctypeIdentifier(k));
    }
    v.extend([BetweenDoctypePublicAndSystemIdentifiers, BogusDoctype, BogusComment]);
    v
}

fn parse_state(s: &str) -> Option<XmlState> {
    all_states().into_iter().find(|st| format!("{:?}", st) == s)
}

fn dh(s: &str) -> String {
    if s.is_empty() {
        return "-".into();
    }
    let v: Vec<String> = s.chars().map(|c| format!("{:x}", c as u32)).collect();
    v.join(".")
}

fn opt_dh(o: &Option<StrTendril>) -> String {
    match o {
        None => "~".into(),
        Some(s) => dh(s),
    }
}

enum Rec {
    Chars(String),
    Other(String),
}

#[derive(Default)]
struct RecSink {
    out: RefCell<Vec<Rec>>,
    /// `script=1`: answer `Script` to every `</script>` end tag, like the XML tree builder does
    script: bool,
}

impl RecSink {
    fn push(&self, r: Rec) {
        let mut out = self.out.borrow_mut();
        if let Rec::Chars(ref s) = r {
            if let Some(Rec::Chars(prev)) = out.last_mut() {
                prev.push_str(s);
                return;
            }
        }
        out.push(r);
    }
    fn render(&self) -> String {
        let v: Vec<String> = self
            .out
            .borrow()
            .iter()
            .map(|r| match r {
                Rec::Chars(s) => format!("C:{}", dh(s)),
                Rec::Other(s) => s.clone(),
            })
            .collect();
        v.join(";")
    }
}

impl TokenSink for RecSink {
    type Handle = ();

    fn process_token(&self, token: Token) -> ProcessResult<()> {
        match token {
            Token::Characters(s) => self.push(Rec::Chars(s.to_string())),
            Token::NullCharacter => self.push(Rec::Other("N".into())),
            Token::Tag(t) => {
                let wants_script = self.script && t.kind == TagKind::EndTag && &*t.name.local == "script";
                let k = match t.kind {
                    TagKind::StartTag => "s",
                    TagKind::EndTag => "e",
                    TagKind::EmptyTag => "m",
                    TagKind::ShortTag => "h",
                };
                let attrs: Vec<String> = t
                    .attrs
                    .iter()
                    .map(|a| {
                        format!(
                            "{}/{}={}",
                            a.name.prefix.as_ref().map(|p| dh(p)).unwrap_or("~".into()),
                            dh(&a.name.local),
                            dh(&a.value)
                        )
                    })
                    .collect();
                self.push(Rec::Other(format!(
                    "T:{}:{}:{}:[{}]",
                    k,
                    t.name.prefix.as_ref().map(|p| dh(p)).unwrap_or("~".into()),
                    dh(&t.name.local),
                    attrs.join(",")
                )));
                if wants_script {
                    return ProcessResult::Script(());
                }
            },
            Token::ProcessingInstruction(p) => {
                self.push(Rec::Other(format!("P:{}:{}", dh(&p.target), dh(&p.data))))
            },
            Token::Comment(s) => self.push(Rec::Other(format!("M:{}", dh(&s)))),
            Token::Doctype(d) => self.push(Rec::Other(format!(
                "D:{}:{}:{}",
                opt_dh(&d.name),
                opt_dh(&d.public_id),
                opt_dh(&d.system_id)
            ))),
            Token::ParseError(e) => self.push(Rec::Other(format!("E:{}", dh(&e)))),
            Token::EndOfFile => self.push(Rec::Other("EOF".into())),
        }
        ProcessResult::Continue
    }
}

fn get_opt(opts: &str, key: &str, default: bool) -> bool {
    for p in opts.split(',') {
        let kv: Vec<&str> = p.split('=').collect();
        if kv.len() == 2 && kv[0] == key {
            return kv[1] == "1";
        }
    }
    default
}

fn tok_opts(opts: &str, state: Option<XmlState>) -> XmlTokenizerOpts {
    XmlTokenizerOpts {
        exact_errors: get_opt(opts, "exact", false),
        discard_bom: get_opt(opts, "bom", true),
        profile: false,
        initial_state: state,
    }
}

fn run_tok(opts: &str, state: &str, chunks: &str) -> String {
    let state = if state == "-" {
        Some(None)
    } else {
        parse_state(state).map(Some)
    };
    let chunks: Option<Vec<String>> = chunks.split('|').map(parse_string).collect();
    let (Some(state), Some(chunks)) = (state, chunks) else {
        return "bad-case".into();
    };
    let sink = RecSink {
        script: get_opt(opts, "script", false),
        ..Default::default()
    };
    let tok = XmlTokenizer::new(sink, tok_opts(opts, state));
    let queue = BufferQueue::default();
    for ch in chunks {
        queue.push_back(StrTendril::from_slice(&ch));
        // a Script answer pauses the tokenizer: resume at once (nothing is injected)
        let mut guard = 0;
        while let markup5ever::TokenizerResult::Script(_) = tok.feed(&queue) {
            guard += 1;
            if guard > 100000 {
                return format!("HANG {}", tok.sink.render());
            }
        }
        if !queue.is_empty() {
            return format!("QUEUE-NOT-DRAINED {}", tok.sink.render());
        }
    }
    tok.end();
    tok.sink.render()
}

fn run_tree(opts: &str, chunks: &str) -> String {
    let chunks: Option<Vec<String>> = chunks.split('|').map(parse_string).collect();
    let Some(chunks) = chunks else {
        return "bad-case".into();
    };
    let mut p = parse_document(
        RcDom::default(),
        XmlParseOpts {
            tokenizer: tok_opts(opts, None),
            tree_builder: Default::default(),
        },
    );
    for ch in chunks {
        p.process(StrTendril::from_slice(&ch));
    }
    let dom = p.finish();
    format!("T={}", dump_dom(&dom))
}

/// the joint parse, printed as the `xmltb` engine prints a tree-builder result (tree-builder parse errors with
/// adjacent repetitions collapsed: their number depends on how the tokenizer cuts a run of text)
fn run_jtree(opts: &str, chunks: &str) -> String {
    let chunks: Option<Vec<String>> = chunks.split('|').map(parse_string).collect();
    let Some(chunks) = chunks else {
        return "bad-case".into();
    };
    let mut p = parse_document(
        RcDom::default(),
        XmlParseOpts {
            tokenizer: tok_opts(opts, None),
            tree_builder: Default::default(),
        },
    );
    for ch in chunks {
        p.process(StrTendril::from_slice(&ch));
    }
    let dom = p.finish();
    let mut codes: Vec<&str> = dom
        .errors
        .borrow()
        .iter()
        .filter_map(|e| super::xmltb::err_code(e))
        .collect();
    codes.dedup();
    let mut tree = String::new();
    super::xmltb::dump_children(&dom.document, &mut tree);
    format!(
        "J=err={};tree={}",
        if codes.is_empty() { "-".to_string() } else { codes.join(",") },
        if tree.is_empty() { "-" } else { &tree }
    )
}

pub fn run(fields: &[&str]) -> String {
    match fields {
        ["tok", opts, state, chunks] => run_tok(opts, state, chunks),
        ["tree", opts, chunks] => run_tree(opts, chunks),
        ["jtree", opts, chunks] => run_jtree(opts, chunks),
        _ => "bad-case".into(),
    }
}
