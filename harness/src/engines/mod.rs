pub mod bq;

pub fn dispatch(engine: &str, fields: &[&str]) -> String {
    match engine {
        "bq" => bq::run(fields),
        _ => "bad-engine".to_string(),
    }
}
