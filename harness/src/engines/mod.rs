pub mod bq;
pub mod total;
pub mod utf8;
pub mod meta;
pub mod ser;
pub mod xmlser;
pub mod xmltb;
pub mod tendril;
pub mod tendril2;
pub mod rcdom;
pub mod tok;
pub mod tb;
pub mod xmltok;

pub fn dispatch(engine: &str, fields: &[&str]) -> String {
    match engine {
        "bq" => bq::run(fields),
        "total" => total::run(fields),
        "utf8" => utf8::run(fields),
        "meta" => meta::run(fields),
        "ser" => ser::run(fields),
        "xmlser" => xmlser::run(fields),
        "xmltb" => xmltb::run(fields),
        "tendril" => tendril::run(fields),
        "tendril2" => tendril2::run(fields),
        "rcdom" => rcdom::run(fields),
        "tok" => tok::run(fields),
        "tb" => tb::run(fields),
        "xmltok" => xmltok::run(fields),
        _ => "bad-engine".to_string(),
    }
}
