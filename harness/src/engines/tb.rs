//! engine `tb` — the real html5ever tree builder (protocol: lean/H5V/Model/HtmlTBDriver.lean)
//!
//!   tb <TAB> tok <TAB> opts <TAB> ctx <TAB> tokens   tokens straight into `TreeBuilder::process_token`, then `end()`
//!   tb <TAB> txt <TAB> opts <TAB> ctx <TAB> chunks   text through the real Tokenizer + TreeBuilder
//!
//! Everything goes through `TracingSink<RcDom>` (op trace + TreeSink contract monitor).  In `txt`
//! mode the tree builder is wrapped in a recording `TokenSink` (answers of `process_token`, EOF
//! count) and driven exactly like `driver.rs` drives it; the same input is then parsed a second
//! time through the real `parse_document` / `parse_fragment` and the two op traces must be equal
//! (`DRIVER-MISMATCH` otherwise).
use crate::proto::*;
use crate::sinkops::*;
use html5ever::tendril::{StrTendril, TendrilSink};
use html5ever::tokenizer::states::{self, RawKind};
use html5ever::tokenizer::{
    BufferQueue, Doctype, Tag, TagKind, Token, TokenSink, TokenSinkResult, Tokenizer, TokenizerOpts,
};
use html5ever::tree_builder::{create_element, TreeBuilder, TreeBuilderOpts};
use html5ever::ParseOpts;
use markup5ever::interface::tree_builder::QuirksMode;
#[allow(unused_imports)]
use markup5ever::{namespace_url, ns, Attribute, LocalName, QualName};
use markup5ever::TokenizerResult;
use markup5ever_rcdom::{Handle, NodeData, RcDom};
use std::cell::{Cell, RefCell};
use std::panic::{self, catch_unwind, AssertUnwindSafe};
use std::rc::Rc;

type TS = TracingSink<RcDom>;
type TH = TracedHandle<Handle>;
type TB = TreeBuilder<TH, TS>;

// ------------------------------------------------------------------ case parsing

#[derive(Clone)]
struct Cfg {
    opts: TreeBuilderOpts,
    cs: Option<bool>,
    tx: bool,
    /// `ln=1`: append `@L=` — whether the line the sink was last told (`set_current_line`) equals the
    /// line of the token being processed at every other sink call
    ln: bool,
    /// `sh=1`: the sink's `attach_declarative_shadow` succeeds (a provided trait method a DOM with shadow roots
    /// overrides; RcDom inherits the default `false`)
    sh: bool,
}

fn parse_bool(s: &str) -> Option<bool> {
    match s {
        "0" => Some(false),
        "1" => Some(true),
        _ => None,
    }
}

fn parse_opts(s: &str) -> Option<Cfg> {
    let mut c = Cfg {
        opts: TreeBuilderOpts::default(),
        cs: None,
        tx: false,
        ln: false,
        sh: false,
    };
    if s == "-" {
        return Some(c);
    }
    for kv in s.split(',') {
        let p: Vec<&str> = kv.split('=').collect();
        match p.as_slice() {
            ["s", v] => c.opts.scripting_enabled = parse_bool(v)?,
            ["srcdoc", v] => c.opts.iframe_srcdoc = parse_bool(v)?,
            ["exact", v] => c.opts.exact_errors = parse_bool(v)?,
            ["dropdt", v] => c.opts.drop_doctype = parse_bool(v)?,
            ["q", "n"] => c.opts.quirks_mode = QuirksMode::NoQuirks,
            ["q", "l"] => c.opts.quirks_mode = QuirksMode::LimitedQuirks,
            ["q", "q"] => c.opts.quirks_mode = QuirksMode::Quirks,
            ["cs", v] => c.cs = Some(parse_bool(v)?),
            ["tx", v] => c.tx = parse_bool(v)?,
            ["ln", v] => c.ln = parse_bool(v)?,
            ["sh", v] => c.sh = parse_bool(v)?,
            _ => return None,
        }
    }
    Some(c)
}

struct Ctx {
    name: QualName,
    attrs: Vec<Attribute>,
    form: bool,
}

fn parse_ctx(s: &str) -> Option<Option<Ctx>> {
    if s == "-" {
        return Some(None);
    }
    let p: Vec<&str> = s.split(',').collect();
    match p.as_slice() {
        [q, a, f] => Some(Some(Ctx {
            name: parse_qual(q)?,
            attrs: parse_attrs(a)?,
            form: parse_bool(f)?,
        })),
        _ => None,
    }
}

fn st(s: &str) -> Option<StrTendril> {
    Some(StrTendril::from_slice(&parse_string(s)?))
}

fn opt_st(s: &str) -> Option<Option<StrTendril>> {
    if s == "~" {
        Some(None)
    } else {
        st(s).map(Some)
    }
}

/// same as Lean's `String.toNat?`
fn parse_dec(s: &str) -> Option<u64> {
    if s.is_empty() || !s.bytes().all(|b| b.is_ascii_digit()) {
        return None;
    }
    s.parse().ok()
}

fn parse_token(s: &str) -> Option<(Token, u64)> {
    let parts: Vec<&str> = s.split('@').collect();
    let (body, line) = match parts.as_slice() {
        [b] => (*b, 1),
        [b, l] => (*b, parse_dec(l)?),
        _ => return None,
    };
    let f: Vec<&str> = body.split(',').collect();
    let tok = match f.as_slice() {
        ["D", n, p, sy, fq] => Token::DoctypeToken(Doctype {
            name: opt_st(n)?,
            public_id: opt_st(p)?,
            system_id: opt_st(sy)?,
            force_quirks: parse_bool(fq)?,
        }),
        ["T", t] => Token::CharacterTokens(st(t)?),
        ["N"] => Token::NullCharacterToken,
        ["C", t] => Token::CommentToken(st(t)?),
        ["Z"] => Token::EOFToken,
        ["X", m] => Token::ParseError(parse_string(m)?.into()),
        [k @ ("S" | "E"), name, sc, dup, rest @ ..] => {
            if rest.len() % 2 != 0 {
                return None;
            }
            let mut attrs = vec![];
            for a in rest.chunks(2) {
                attrs.push(Attribute {
                    name: QualName::new(None, ns!(), LocalName::from(&*parse_string(a[0])?)),
                    value: st(a[1])?,
                });
            }
            Token::TagToken(Tag {
                kind: if *k == "S" { TagKind::StartTag } else { TagKind::EndTag },
                name: LocalName::from(&*parse_string(name)?),
                self_closing: parse_bool(sc)?,
                attrs,
                had_duplicate_attributes: parse_bool(dup)?,
            })
        },
        _ => return None,
    };
    Some((tok, line))
}

fn parse_tokens(s: &str) -> Option<Vec<(Token, u64)>> {
    if s == "-" {
        return Some(vec![]);
    }
    s.split(';').map(parse_token).collect()
}

fn parse_chunks(s: &str) -> Option<Vec<String>> {
    s.split('|').map(parse_string).collect()
}

// ------------------------------------------------------------------ rendering

fn data_str(d: &NodeData) -> String {
    match d {
        NodeData::Document => "doc".into(),
        NodeData::Doctype {
            name,
            public_id,
            system_id,
        } => format!("dt,{},{},{}", show_str(name), show_str(public_id), show_str(system_id)),
        NodeData::Text { contents } => format!("tx,{}", show_str(&contents.borrow())),
        NodeData::Comment { contents } => format!("cm,{}", show_str(contents)),
        NodeData::Element {
            name,
            attrs,
            mathml_annotation_xml_integration_point,
            ..
        } => format!(
            "el,{},{},{}",
            show_qual(name),
            show_attr_vec(&attrs.borrow()),
            if *mathml_annotation_xml_integration_point { "m" } else { "-" }
        ),
        NodeData::ProcessingInstruction { target, contents } => {
            format!("pi,{},{}", show_str(target), show_str(contents))
        },
    }
}

fn parent_ptr(n: &Handle) -> Option<Option<Handle>> {
    let w = n.parent.take();
    let r = w.as_ref().map(|w| w.upgrade());
    n.parent.set(w);
    r
}

/// `Dom.dumpAux`: `(<data>[^]{template contents}children…)`, `^` = the node's parent pointer is
/// not the node that lists it as a child
pub fn dump_node(n: &Handle, expected_parent: Option<&Handle>, out: &mut String) {
    out.push('(');
    out.push_str(&data_str(&n.data));
    let ok = match (parent_ptr(n), expected_parent) {
        (None, None) => true,
        (Some(Some(p)), Some(e)) => Rc::ptr_eq(&p, e),
        _ => false,
    };
    if !ok {
        out.push('^');
    }
    if let NodeData::Element {
        template_contents, ..
    } = &n.data
    {
        if let Some(tc) = &*template_contents.borrow() {
            out.push('{');
            dump_node(tc, None, out);
            out.push('}');
        }
    }
    for c in n.children.borrow().iter() {
        dump_node(c, Some(n), out);
    }
    out.push(')');
}

pub fn dump_dom(document: &Handle, quirks: QuirksMode) -> String {
    let mut s = String::new();
    dump_node(document, None, &mut s);
    s.push_str(";Q=");
    s.push_str(match quirks {
        QuirksMode::Quirks => "quirks",
        QuirksMode::LimitedQuirks => "limited",
        QuirksMode::NoQuirks => "no",
    });
    s
}

fn clean_op(op: &str) -> String {
    if op.starts_with("pe,") {
        "pe".into()
    } else {
        op.to_string()
    }
}

fn op_name(op: &str) -> &str {
    op.split(',').next().unwrap_or("")
}

fn is_query(op: &str) -> bool {
    matches!(op_name(op), "en" | "sn" | "tc" | "ip" | "ln" | "adsr" | "pe")
}

/// `(place, text)` of a text insertion
fn text_insertion(op: &str) -> Option<(String, String)> {
    let f: Vec<&str> = op.split(',').collect();
    let (place, child) = match f.as_slice() {
        ["ap", p, c] => (format!("ap,{}", p), *c),
        ["abp", e, p, c] => (format!("abp,{},{}", e, p), *c),
        ["abs", s, c] => (format!("abs,{}", s), *c),
        _ => return None,
    };
    child.strip_prefix('t').map(|t| (place, t.to_string()))
}

/// canonical trace of `txt` cases: queries dropped, adjacent text insertions at one place merged
fn canon_ops(trace: &[String]) -> Vec<String> {
    let mut out: Vec<String> = vec![];
    for op in trace {
        if is_query(op) {
            continue;
        }
        let op = clean_op(op);
        if let (Some((p2, t2)), Some(prev)) = (text_insertion(&op), out.last()) {
            if let Some((p1, t1)) = text_insertion(prev) {
                if p1 == p2 {
                    let merged = format!("{},t{} {}", p1, t1, t2);
                    *out.last_mut().unwrap() = merged;
                    continue;
                }
            }
        }
        out.push(op);
    }
    out
}

fn join_or(sep: &str, v: &[String]) -> String {
    if v.is_empty() {
        "-".into()
    } else {
        v.join(sep)
    }
}

fn show_result(r: &TokenSinkResult<TH>) -> Option<String> {
    Some(match r {
        TokenSinkResult::Continue => return None,
        TokenSinkResult::Script(h) => format!("S{}", h.id),
        TokenSinkResult::Plaintext => "P".into(),
        TokenSinkResult::RawData(k) => match k {
            RawKind::Rcdata => "R0".into(),
            RawKind::Rawtext => "R1".into(),
            RawKind::ScriptData => "R2".into(),
            RawKind::ScriptDataEscaped(states::Escaped) => "R3".into(),
            RawKind::ScriptDataEscaped(states::DoubleEscaped) => "R4".into(),
        },
        TokenSinkResult::EncodingIndicator(t) => format!("I:{}", show_str(t)),
    })
}

fn violation_indices(sink: &TS) -> Vec<usize> {
    let mut v: Vec<usize> = sink.violations.borrow().iter().map(|(i, _)| *i).collect();
    v.dedup();
    v
}

fn render_common(sink: &TS, results: &[String], txt: bool) -> String {
    let trace = sink.trace.borrow();
    let ops: Vec<String> = if txt {
        canon_ops(&trace)
    } else {
        trace.iter().map(|o| clean_op(o)).collect()
    };
    let viol = violation_indices(sink);
    let v = if txt {
        viol.len().to_string()
    } else {
        join_or(",", &viol.iter().map(|i| i.to_string()).collect::<Vec<_>>())
    };
    let errors = if txt {
        "-".to_string()
    } else {
        trace.iter().filter(|o| op_name(o) == "pe").count().to_string()
    };
    let doc = sink.handles.borrow()[0].clone();
    format!(
        "T={}@V={}@D={}@R={}@E={}",
        join_or(";", &ops),
        v,
        dump_dom(&doc, sink.inner.quirks_mode.get()),
        join_or(",", results),
        errors
    )
}

// ------------------------------------------------------------------ panics

thread_local! {
    static PANIC_LOC: RefCell<Option<(String, u32)>> = const { RefCell::new(None) };
}

fn panic_message(e: &(dyn std::any::Any + Send)) -> String {
    if let Some(s) = e.downcast_ref::<&str>() {
        s.to_string()
    } else if let Some(s) = e.downcast_ref::<String>() {
        s.clone()
    } else {
        "?".to_string()
    }
}

fn panic_class(msg: &str, sink: bool) -> String {
    let table: &[(&str, &str)] = if sink {
        &[
            ("previous_parent.is_none()", "append-has-parent"),
            ("not a template element", "not-template"),
            ("not an element", "not-element"),
            ("couldn't find in parent's children", "parent-mismatch"),
            ("append_before_sibling called on node without parent", "abs-no-parent"),
            ("insertion index", "insert-oob"),
            ("already borrowed", "borrow"),
            ("already mutably borrowed", "borrow"),
            ("Option::unwrap()", "unwrap-none"),
            ("Rc::ptr_eq", "reparent-assert"),
            ("Trying to get selectedcontent of non-element", "sc-non-element"),
            ("called with non-element node", "mc-non-element"),
            ("left == right", "debug-assert"),
            ("dangling weak", "dangling-weak"),
            ("index out of bounds", "index-oob"),
        ]
    } else {
        &[
            ("no current element", "no-current-element"),
            ("no context element", "no-context-element"),
            ("no head element", "no-head-element"),
            ("Option::unwrap()", "unwrap-none"),
            ("index out of bounds", "index-oob"),
            ("attempt to subtract with overflow", "sub-overflow"),
            ("Found marker during adoption agency", "marker-in-aa"),
            ("Found marker during formatting element reconstruction", "marker-in-reconstruct"),
            ("bookmark not found", "bookmark-missing"),
            ("formatting element not found", "fmt-missing"),
            ("furthest block missing", "fb-missing"),
            ("matches with no index", "matches-no-index"),
            ("entered unreachable code", "unreachable"),
            ("not prepared to handle this", "not-prepared"),
            ("impossible case in foreign content", "eof-foreign"),
            ("removal index", "remove-oob"),
            ("insertion index", "insert-oob"),
            ("assertion failed", "assert"),
            ("parser finished with remaining input", "assert"),
        ]
    };
    for (pat, class) in table {
        if msg.contains(pat) {
            return class.to_string();
        }
    }
    format!("other({})", msg.replace(['\n', '\t', ';', '@', ' '], "_"))
}

/// `class@file:line` (`class@sink` for a panic inside RcDom or the tracing sink)
fn describe_panic(e: &(dyn std::any::Any + Send)) -> String {
    let msg = panic_message(e);
    let loc = PANIC_LOC.with(|l| l.borrow_mut().take());
    match loc {
        None => format!("{}@?", panic_class(&msg, false)),
        Some((file, line)) => {
            if file.contains("rcdom/") || file.contains("sinkops.rs") {
                return format!("{}@sink", panic_class(&msg, true));
            }
            let base = file.rsplit('/').next().unwrap_or(&file).to_string();
            let short = if file.contains("tree_builder/") {
                base
            } else if file.contains("/tokenizer/") {
                format!("tokenizer/{}", base)
            } else if file.contains("html5ever/src/") {
                base
            } else {
                // a panic raised inside std / another crate on behalf of the tree builder
                format!("ext/{}", base)
            };
            format!("{}@{}:{}", panic_class(&msg, false), short, line)
        },
    }
}

/// run `f`, turning a panic into `Err(class@site)`.  The process-wide panic hook (silent, set by
/// main.rs) is replaced for the duration of the call by one that records the panic location.
fn guarded<F: FnOnce() -> String>(f: F) -> String {
    PANIC_LOC.with(|l| *l.borrow_mut() = None);
    let prev = panic::take_hook();
    panic::set_hook(Box::new(|info| {
        let loc = info.location().map(|l| (l.file().to_string(), l.line()));
        PANIC_LOC.with(|l| {
            // keep the first panic (a second one can only come from a destructor)
            if l.borrow().is_none() {
                *l.borrow_mut() = loc;
            }
        });
    }));
    let r = catch_unwind(AssertUnwindSafe(f));
    panic::set_hook(prev);
    match r {
        Ok(s) => s,
        Err(e) => format!("PANIC {}", describe_panic(&*e)),
    }
}

// ------------------------------------------------------------------ token level

fn make_builder(cfg: &Cfg, ctx: &Option<Ctx>) -> TB {
    let sink: TS = TracingSink::new(RcDom::default(), true);
    match ctx {
        None => TreeBuilder::new(sink, cfg.opts),
        Some(c) => {
            let ctx_elem = create_element(&sink, c.name.clone(), c.attrs.clone());
            let form = if c.form {
                Some(create_element(
                    &sink,
                    QualName::new(None, ns!(html), LocalName::from("form")),
                    vec![],
                ))
            } else {
                None
            };
            TreeBuilder::new_for_fragment(sink, ctx_elem, form, cfg.opts)
        },
    }
}

fn run_tok(cfg: &Cfg, ctx: &Option<Ctx>, toks: Vec<(Token, u64)>) -> String {
    let tb = make_builder(cfg, ctx);
    let mut results = vec![];
    for (t, line) in toks {
        if let Some(r) = show_result(&tb.process_token(t, line)) {
            results.push(r);
        }
    }
    tb.end();
    render_common(&tb.sink, &results, false)
}

// ------------------------------------------------------------------ text level

/// the tree builder behind a recording `TokenSink`
struct Wrap {
    tb: TB,
    results: RefCell<Vec<String>>,
    n_eof: Cell<usize>,
    last_eof: Cell<bool>,
    /// the line the sink believes it is on (last `set_current_line`, 1 before the first)
    sink_line: Cell<u64>,
    line_mismatch: RefCell<Option<String>>,
}

impl TokenSink for Wrap {
    type Handle = TH;

    fn process_token(&self, token: Token, line: u64) -> TokenSinkResult<TH> {
        let is_eof = matches!(token, Token::EOFToken);
        if is_eof {
            self.n_eof.set(self.n_eof.get() + 1);
        }
        self.last_eof.set(is_eof);
        let before = self.tb.sink.trace.borrow().len();
        let r = self.tb.process_token(token, line);
        {
            let trace = self.tb.sink.trace.borrow();
            for op in trace[before..].iter() {
                let name = op_name(op);
                if name == "ln" {
                    if let Some(v) = op.split(',').nth(1).and_then(|x| x.split(|c: char| !c.is_ascii_digit()).next()) {
                        if let Ok(n) = v.parse::<u64>() {
                            self.sink_line.set(n);
                        }
                    }
                } else if self.sink_line.get() != line && self.line_mismatch.borrow().is_none() {
                    *self.line_mismatch.borrow_mut() =
                        Some(format!("token-line={} sink-line={} at-op={}", line, self.sink_line.get(), name));
                }
            }
        }
        if let Some(s) = show_result(&r) {
            self.results.borrow_mut().push(s);
        }
        r
    }

    fn end(&self) {
        self.tb.end()
    }

    fn adjusted_current_node_present_but_not_in_html_namespace(&self) -> bool {
        self.tb.adjusted_current_node_present_but_not_in_html_namespace()
    }
}

fn run_txt(cfg: &Cfg, ctx: &Option<Ctx>, chunks: &[String]) -> String {
    let allows_scripting = cfg.cs.unwrap_or(cfg.opts.scripting_enabled);
    let tok_opts = TokenizerOpts {
        exact_errors: cfg.tx,
        ..Default::default()
    };
    // --- as driver.rs does it, with the recording wrapper in between
    let tb = make_builder(cfg, ctx);
    let initial_state = match ctx {
        None => None,
        Some(_) => Some(tb.tokenizer_state_for_context_elem(allows_scripting)),
    };
    let wrap = Wrap {
        tb,
        results: RefCell::new(vec![]),
        n_eof: Cell::new(0),
        last_eof: Cell::new(false),
        sink_line: Cell::new(1),
        line_mismatch: RefCell::new(None),
    };
    let tok = Tokenizer::new(
        wrap,
        TokenizerOpts {
            initial_state,
            ..tok_opts.clone()
        },
    );
    let input = BufferQueue::default();
    let loop_until_done = |tok: &Tokenizer<Wrap>| loop {
        if matches!(tok.feed(&input), TokenizerResult::Done) {
            break;
        }
    };
    for c in chunks {
        input.push_back(StrTendril::from_slice(c));
        loop_until_done(&tok);
    }
    loop_until_done(&tok);
    assert!(input.is_empty(), "parser finished with remaining input");
    tok.end();
    let w = &tok.sink;
    let mut mine = format!(
        "{}@K={},{}",
        render_common(&w.tb.sink, &w.results.borrow(), true),
        w.n_eof.get(),
        w.last_eof.get() as u8
    );
    if cfg.ln {
        mine.push_str(&format!("@L={}", w.line_mismatch.borrow().clone().unwrap_or("-".into())));
    }
    // --- the same input through the real driver (no form pointer there)
    let form = ctx.as_ref().map(|c| c.form).unwrap_or(false);
    if !form {
        let opts = ParseOpts {
            tokenizer: tok_opts,
            tree_builder: cfg.opts,
        };
        let sink: TS = TracingSink::new(RcDom::default(), true);
        let mut parser = match ctx {
            None => html5ever::parse_document(sink, opts),
            Some(c) => html5ever::parse_fragment(sink, opts, c.name.clone(), c.attrs.clone(), allows_scripting),
        };
        for c in chunks {
            parser.process(StrTendril::from_slice(c));
        }
        let out = parser.finish();
        if out.trace != *w.tb.sink.trace.borrow() {
            return format!("DRIVER-MISMATCH {}", mine);
        }
    }
    mine
}

/// the six namespace URLs are abbreviated in the output
fn abbrev(s: String) -> String {
    let table = [
        ("http://www.w3.org/1999/xhtml", "$h"),
        ("http://www.w3.org/1998/Math/MathML", "$m"),
        ("http://www.w3.org/2000/svg", "$s"),
        ("http://www.w3.org/1999/xlink", "$l"),
        ("http://www.w3.org/XML/1998/namespace", "$x"),
        ("http://www.w3.org/2000/xmlns/", "$n"),
    ];
    let mut s = s;
    for (url, r) in table {
        s = s.replace(&show_str(url), r);
    }
    s
}

pub fn run(fields: &[&str]) -> String {
    abbrev(run1(fields))
}

fn run1(fields: &[&str]) -> String {
    let [mode, opts, ctx, payload] = fields else {
        return "bad-case".into();
    };
    let (Some(cfg), Some(ctx)) = (parse_opts(opts), parse_ctx(ctx)) else {
        return "bad-case".into();
    };
    crate::sinkops::SHADOW_ATTACH_OK.store(cfg.sh, std::sync::atomic::Ordering::SeqCst);
    match *mode {
        "tok" => match parse_tokens(payload) {
            Some(toks) => guarded(|| run_tok(&cfg, &ctx, toks)),
            None => "bad-case".into(),
        },
        "txt" => match parse_chunks(payload) {
            Some(chunks) => guarded(|| run_txt(&cfg, &ctx, &chunks)),
            None => "bad-case".into(),
        },
        _ => "bad-case".into(),
    }
}
