//! engine `tok` — the real HTML tokenizer with a recording, policy-driven sink
//! (protocol: lean/H5V/Model/HtmlTokDriver.lean)
use crate::proto::*;
use html5ever::tendril::StrTendril;
use html5ever::tokenizer::states::{self, RawKind, State};
use html5ever::tokenizer::{
    BufferQueue, Tag, TagKind, Token, TokenSink, TokenSinkResult, Tokenizer, TokenizerOpts,
};
use markup5ever::TokenizerResult;
use std::cell::RefCell;

#[derive(Clone)]
pub enum Res {
    Plaintext,
    Raw(RawKind),
    Script,
    Indicator,
    Continue,
}

pub struct Rules {
    pub cdata: bool,
    pub rules: Vec<(bool, String, Res)>,
}

pub fn parse_rules(s: &str) -> Option<Rules> {
    let mut r = Rules {
        cdata: false,
        rules: vec![],
    };
    for p in s.split(';').filter(|p| !p.is_empty()) {
        let kv: Vec<&str> = p.split('=').collect();
        if kv.len() != 2 {
            return None;
        }
        if kv[0] == "cdata" {
            r.cdata = kv[1] == "1";
            continue;
        }
        let (is_end, nm) = match kv[0].strip_prefix('/') {
            Some(n) => (true, n),
            None => (false, kv[0]),
        };
        let name = parse_string(nm)?;
        let res = match kv[1] {
            "P" => Res::Plaintext,
            "R0" => Res::Raw(RawKind::Rcdata),
            "R1" => Res::Raw(RawKind::Rawtext),
            "R2" => Res::Raw(RawKind::ScriptData),
            "R3" => Res::Raw(RawKind::ScriptDataEscaped(states::Escaped)),
            "R4" => Res::Raw(RawKind::ScriptDataEscaped(states::DoubleEscaped)),
            "S" => Res::Script,
            "I" => Res::Indicator,
            "C" => Res::Continue,
            _ => return None,
        };
        r.rules.push((is_end, name, res));
    }
    Some(r)
}

pub fn all_states() -> Vec<State> {
    use states::*;
    let raw = [
        Rcdata,
        Rawtext,
        ScriptData,
        ScriptDataEscaped(Escaped),
        ScriptDataEscaped(DoubleEscaped),
    ];
    let esc = [Escaped, DoubleEscaped];
    let ids = [Public, System];
    let mut v = vec![Data, Plaintext, TagOpen, EndTagOpen, TagName];
    v.extend(raw.iter().map(|&k| RawData(k)));
    v.extend(raw.iter().map(|&k| RawLessThanSign(k)));
    v.extend(raw.iter().map(|&k| RawEndTagOpen(k)));
    v.extend(raw.iter().map(|&k| RawEndTagName(k)));
    v.extend(esc.iter().map(|&k| ScriptDataEscapeStart(k)));
    v.push(ScriptDataEscapeStartDash);
    v.extend(esc.iter().map(|&k| ScriptDataEscapedDash(k)));
    v.extend(esc.iter().map(|&k| ScriptDataEscapedDashDash(k)));
    v.extend([
        ScriptDataDoubleEscapeEnd,
        BeforeAttributeName,
        AttributeName,
        AfterAttributeName,
        BeforeAttributeValue,
        AttributeValue(Unquoted),
        AttributeValue(SingleQuoted),
        AttributeValue(DoubleQuoted),
        AfterAttributeValueQuoted,
        SelfClosingStartTag,
        BogusComment,
        MarkupDeclarationOpen,
        CommentStart,
        CommentStartDash,
        Comment,
        CommentLessThanSign,
        CommentLessThanSignBang,
        CommentLessThanSignBangDash,
        CommentLessThanSignBangDashDash,
        CommentEndDash,
        CommentEnd,
        CommentEndBang,
        Doctype,
        BeforeDoctypeName,
        DoctypeName,
        AfterDoctypeName,
    ]);
    v.extend(ids.iter().map(|&k| AfterDoctypeKeyword(k)));
    v.extend(ids.iter().map(|&k| BeforeDoctypeIdentifier(k)));
    v.extend(ids.iter().map(|&k| DoctypeIdentifierDoubleQuoted(k)));
    v.extend(ids.iter().map(|&k| DoctypeIdentifierSingleQuoted(k)));
    v.extend(ids.iter().map(|&k| AfterDoctypeIdentifier(k)));
    v.extend([
        BetweenDoctypePublicAndSystemIdentifiers,
        BogusDoctype,
        CdataSection,
        CdataSectionBracket,
        CdataSectionEnd,
    ]);
    v
}

pub fn parse_state(s: &str) -> Option<State> {
    all_states().into_iter().find(|st| format!("{:?}", st) == s)
}

#[derive(Clone)]
enum Rec {
    Chars(String, u64),
    Other(String),
}

pub struct RecSink {
    rules: Rules,
    out: RefCell<Vec<Rec>>,
}

fn opt_str(o: &Option<StrTendril>) -> String {
    match o {
        None => "~".into(),
        Some(s) => show_str(s),
    }
}

impl RecSink {
    fn push(&self, r: Rec) {
        let mut out = self.out.borrow_mut();
        if let Rec::Chars(ref s, l) = r {
            if let Some(Rec::Chars(prev, pl)) = out.last_mut() {
                prev.push_str(s);
                *pl = l;
                return;
            }
        }
        out.push(r);
    }
    fn decide(&self, t: &Tag) -> Res {
        for (is_end, name, res) in &self.rules.rules {
            if *is_end == (t.kind == TagKind::EndTag) && &*t.name == name.as_str() {
                return res.clone();
            }
        }
        Res::Continue
    }
    pub fn render(&self) -> String {
        let out = self.out.borrow();
        let v: Vec<String> = out
            .iter()
            .map(|r| match r {
                Rec::Chars(s, l) => format!("C:{}@{}", show_str(s), l),
                Rec::Other(s) => s.clone(),
            })
            .collect();
        v.join(";")
    }
}

impl TokenSink for RecSink {
    type Handle = ();

    fn process_token(&self, token: Token, line: u64) -> TokenSinkResult<()> {
        match token {
            Token::CharacterTokens(s) => {
                self.push(Rec::Chars(s.to_string(), line));
                TokenSinkResult::Continue
            },
            Token::NullCharacterToken => {
                self.push(Rec::Other(format!("N@{}", line)));
                TokenSinkResult::Continue
            },
            Token::TagToken(t) => {
                let k = if t.kind == TagKind::StartTag { "s" } else { "e" };
                let attrs: Vec<String> = t
                    .attrs
                    .iter()
                    .map(|a| format!("{}={}", show_str(&a.name.local), show_str(&a.value)))
                    .collect();
                self.push(Rec::Other(format!(
                    "T:{}:{}:{}:{}:[{}]@{}",
                    k,
                    show_str(&t.name),
                    t.self_closing as u8,
                    t.had_duplicate_attributes as u8,
                    attrs.join(","),
                    line
                )));
                match self.decide(&t) {
                    Res::Continue => TokenSinkResult::Continue,
                    Res::Plaintext => TokenSinkResult::Plaintext,
                    Res::Raw(k) => TokenSinkResult::RawData(k),
                    Res::Script => {
                        self.push(Rec::Other(format!("P:s@{}", line)));
                        TokenSinkResult::Script(())
                    },
                    Res::Indicator => {
                        self.push(Rec::Other(format!("P:i@{}", line)));
                        TokenSinkResult::EncodingIndicator(StrTendril::from_slice("x"))
                    },
                }
            },
            Token::CommentToken(s) => {
                self.push(Rec::Other(format!("M:{}@{}", show_str(&s), line)));
                TokenSinkResult::Continue
            },
            Token::DoctypeToken(d) => {
                self.push(Rec::Other(format!(
                    "D:{}:{}:{}:{}@{}",
                    opt_str(&d.name),
                    opt_str(&d.public_id),
                    opt_str(&d.system_id),
                    d.force_quirks as u8,
                    line
                )));
                TokenSinkResult::Continue
            },
            Token::ParseError(e) => {
                self.push(Rec::Other(format!("E:{}@{}", show_str(&e), line)));
                TokenSinkResult::Continue
            },
            Token::EOFToken => {
                self.push(Rec::Other(format!("EOF@{}", line)));
                TokenSinkResult::Continue
            },
        }
    }

    fn adjusted_current_node_present_but_not_in_html_namespace(&self) -> bool {
        self.rules.cdata
    }
}

pub fn get_opt(opts: &str, key: &str, default: bool) -> bool {
    for p in opts.split(',') {
        let kv: Vec<&str> = p.split('=').collect();
        if kv.len() == 2 && kv[0] == key {
            return kv[1] == "1";
        }
    }
    default
}

pub fn parse_inj(s: &str) -> Option<Vec<(usize, String)>> {
    let s = s.trim();
    if s == "-" || s.is_empty() {
        return Some(vec![]);
    }
    s.split(',')
        .map(|p| {
            let kv: Vec<&str> = p.split(':').collect();
            if kv.len() != 2 {
                return None;
            }
            Some((kv[0].parse().ok()?, parse_string(kv[1])?))
        })
        .collect()
}

pub fn run(fields: &[&str]) -> String {
    if fields.len() != 6 {
        return "bad-case".into();
    }
    let state = if fields[1] == "-" {
        Some(None)
    } else {
        parse_state(fields[1]).map(Some)
    };
    let last = if fields[2] == "~" {
        Some(None)
    } else {
        parse_string(fields[2]).map(Some)
    };
    let chunks: Option<Vec<String>> = fields[4].split('|').map(parse_string).collect();
    let (Some(state), Some(last), Some(rules), Some(chunks), Some(inj)) = (
        state,
        last,
        parse_rules(fields[3]),
        chunks,
        parse_inj(fields[5]),
    ) else {
        return "bad-case".into();
    };
    let opts = TokenizerOpts {
        exact_errors: get_opt(fields[0], "exact", false),
        discard_bom: get_opt(fields[0], "bom", true),
        profile: get_opt(fields[0], "profile", false),
        initial_state: state,
        last_start_tag_name: last,
    };
    let sink = RecSink {
        rules,
        out: RefCell::new(vec![]),
    };
    let tok = Tokenizer::new(sink, opts);
    let queue = BufferQueue::default();
    let mut log: Vec<&str> = vec![];
    let mut pauses = 0usize;
    for ch in chunks {
        queue.push_back(StrTendril::from_slice(&ch));
        let mut guard = 0;
        loop {
            guard += 1;
            if guard > 64 {
                return "too-many-pauses".into();
            }
            match tok.feed(&queue) {
                TokenizerResult::Done => {
                    log.push("D");
                    break;
                },
                TokenizerResult::Script(_) => log.push("S"),
                TokenizerResult::EncodingIndicator(_) => log.push("I"),
            }
            if let Some((_, s)) = inj.iter().find(|(k, _)| *k == pauses) {
                queue.push_front(StrTendril::from_slice(s));
            }
            pauses += 1;
        }
        if !queue.is_empty() {
            return format!("QUEUE-NOT-DRAINED {}", tok.sink.render());
        }
    }
    if get_opt(fields[0], "end", true) {
        tok.end();
    }
    format!("{} F={}", tok.sink.render(), log.join(","))
}
