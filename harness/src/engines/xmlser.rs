//! engine `xmlser`: the real `xml5ever::serialize::serialize` on an RcDom tree, then the real
//! re-parse of the produced text.
//!
//! case fields:
//!   `tree <dump> [flag]`  document children in the dump syntax of engine `xmltb` (`-` = no children; the
//!                    optional flag is for the oracle only);
//!                    the tree is built node by node (any QualName, also ones no parser produces)
//!   `src <chunks>`   XML text parsed first by the real parser (no Lean model for this mode)
//! output: `ser=<text>;err=<codes>;tree=<dump>` (err/tree = re-parse of the serialized text);
//!         `src` mode prefixes `in=<dump of the first parse>;`
use super::xmltb::{dump_children, dump_dom, dhex, parse_chunks, undhex, undhex_opt};
use markup5ever::{Attribute, LocalName, Namespace, Prefix, QualName};
use markup5ever_rcdom::{Handle, Node, NodeData, RcDom, SerializableHandle};
use std::cell::RefCell;
use std::rc::Rc;
use tendril::{StrTendril, TendrilSink};
use xml5ever::driver::parse_document;
use xml5ever::serialize::serialize;

struct P<'a> {
    s: &'a [u8],
    i: usize,
}

impl<'a> P<'a> {
    fn eat(&mut self, lit: &str) -> bool {
        if self.s[self.i..].starts_with(lit.as_bytes()) {
            self.i += lit.len();
            true
        } else {
            false
        }
    }
    /// a run of `[0-9a-f.~-]`
    fn word(&mut self) -> &'a str {
        let st = self.i;
        while self.i < self.s.len()
            && matches!(self.s[self.i], b'0'..=b'9' | b'a'..=b'f' | b'.' | b'-' | b'~')
        {
            self.i += 1;
        }
        std::str::from_utf8(&self.s[st..self.i]).unwrap_or("")
    }
    fn string(&mut self) -> Option<String> {
        undhex(self.word())
    }
    fn tendril(&mut self) -> Option<StrTendril> {
        Some(StrTendril::from_slice(&self.string()?))
    }
    fn name(&mut self) -> Option<QualName> {
        let p = undhex_opt(self.word())?;
        if !self.eat(":") {
            return None;
        }
        let ns = self.string()?;
        if !self.eat(":") {
            return None;
        }
        let l = self.string()?;
        Some(QualName::new(
            p.map(|p| Prefix::from(&*p)),
            Namespace::from(&*ns),
            LocalName::from(&*l),
        ))
    }
    fn nodes(&mut self, parent: &Handle) -> Option<()> {
        loop {
            if self.i >= self.s.len() || self.s[self.i] == b')' {
                return Some(());
            }
            let node = self.node()?;
            node.parent.set(Some(Rc::downgrade(parent)));
            parent.children.borrow_mut().push(node);
        }
    }
    fn node(&mut self) -> Option<Handle> {
        if self.eat("t[") {
            let t = self.tendril()?;
            if !self.eat("]") {
                return None;
            }
            Some(Node::new(NodeData::Text {
                contents: RefCell::new(t),
            }))
        } else if self.eat("c[") {
            let t = self.tendril()?;
            if !self.eat("]") {
                return None;
            }
            Some(Node::new(NodeData::Comment { contents: t }))
        } else if self.eat("p[") {
            let t = self.tendril()?;
            if !self.eat(":") {
                return None;
            }
            let d = self.tendril()?;
            if !self.eat("]") {
                return None;
            }
            Some(Node::new(NodeData::ProcessingInstruction {
                target: t,
                contents: d,
            }))
        } else if self.eat("d[") {
            let n = self.tendril()?;
            if !self.eat(":") {
                return None;
            }
            let p = self.tendril()?;
            if !self.eat(":") {
                return None;
            }
            let s = self.tendril()?;
            if !self.eat("]") {
                return None;
            }
            Some(Node::new(NodeData::Doctype {
                name: n,
                public_id: p,
                system_id: s,
            }))
        } else if self.eat("e[") {
            let name = self.name()?;
            let mut attrs = vec![];
            while self.eat(" ") {
                let an = self.name()?;
                if !self.eat("=") {
                    return None;
                }
                let v = self.tendril()?;
                attrs.push(Attribute { name: an, value: v });
            }
            if !self.eat("](") {
                return None;
            }
            let el = Node::new(NodeData::Element {
                name,
                attrs: RefCell::new(attrs),
                template_contents: RefCell::new(None),
                mathml_annotation_xml_integration_point: false,
            });
            self.nodes(&el)?;
            if !self.eat(")") {
                return None;
            }
            Some(el)
        } else {
            None
        }
    }
}

fn build(dump: &str) -> Option<Handle> {
    let doc = Node::new(NodeData::Document);
    if dump == "-" {
        return Some(doc);
    }
    let mut p = P {
        s: dump.as_bytes(),
        i: 0,
    };
    p.nodes(&doc)?;
    if p.i != p.s.len() {
        return None;
    }
    Some(doc)
}

/// a writer that, like a pipe or a socket, takes at most `max` bytes per `write` call
pub struct ShortWriter {
    pub data: Vec<u8>,
    pub max: usize,
}

impl std::io::Write for ShortWriter {
    fn write(&mut self, buf: &[u8]) -> std::io::Result<usize> {
        let n = buf.len().min(self.max);
        self.data.extend_from_slice(&buf[..n]);
        Ok(n)
    }
    fn flush(&mut self) -> std::io::Result<()> {
        Ok(())
    }
}

fn ser_and_reparse(doc: Handle) -> String {
    let mut buf: Vec<u8> = vec![];
    let h: SerializableHandle = doc.into();
    if serialize(&mut buf, &h, Default::default()).is_err() {
        return "io-error".into();
    }
    // the bytes written must not depend on how much the writer takes per call (`Write::write` may be partial)
    for max in [1usize, 3, 7] {
        let mut w = ShortWriter { data: vec![], max };
        if serialize(&mut w, &h, Default::default()).is_err() || w.data != buf {
            return format!(
                "io-short-write max={} wrote={} expected={}",
                max,
                dhex(&String::from_utf8_lossy(&w.data)),
                dhex(&String::from_utf8_lossy(&buf))
            );
        }
    }
    let text = String::from_utf8_lossy(&buf).into_owned();
    let mut parser = parse_document(RcDom::default(), Default::default());
    parser.process(StrTendril::from_slice(&text));
    let re = parser.finish();
    format!("ser={};{}", dhex(&text), dump_dom(&re))
}

pub fn run(fields: &[&str]) -> String {
    match fields {
        ["tree", dump] | ["tree", dump, _] => match build(dump) {
            Some(doc) => ser_and_reparse(doc),
            None => "bad-case".into(),
        },
        ["src", chunks] => match parse_chunks(chunks) {
            Some(dom) => {
                let mut t = String::new();
                dump_children(&dom.document, &mut t);
                format!(
                    "in={};{}",
                    if t.is_empty() { "-" } else { &t },
                    ser_and_reparse(dom.document.clone())
                )
            },
            None => "bad-case".into(),
        },
        _ => "bad-case".into(),
    }
}
