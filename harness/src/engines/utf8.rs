//! engine `utf8` (C10): byte-stream front ends.
//!
//! `utf8<TAB>dec<TAB><chunks>`      chunks = bytes in hex, `|`-separated (`-` = empty chunk)
//!     runs `Utf8LossyDecoder` over a recording sink; output = the sink calls in order,
//!     `t:<hex bytes>` for `process`, `e` for `error`, `;`-separated (`-` if none).
//! `utf8<TAB>std<TAB><bytes>`       `core::str::from_utf8`: `ok` | `err <valid_up_to> <error_len|->`
//! `utf8<TAB>enc<TAB><label><TAB><chunks>`
//!     `LossyDecoder::new_encoding_rs` fed chunk by chunk vs a reference one-shot decode of the
//!     concatenation with the same encoding_rs decoder driven to completion (last = true):
//!     `S=<hex code points> <#errors> ## W=<hex code points> <#errors>`; plus ` D=<hex>` = `Encoding::decode`.
//! `utf8<TAB>parse<TAB>html|xml<TAB><chunks>`
//!     `parse_document(RcDom).from_utf8()` fed chunk by chunk vs `.one(String::from_utf8_lossy(all))`:
//!     `T=<tree dump> ## T=<tree dump>`.
use super::meta::dump_dom;
use crate::proto::*;
use markup5ever_rcdom::RcDom;
use std::borrow::Cow;
use tendril::stream::{LossyDecoder, TendrilSink, Utf8LossyDecoder};
use tendril::{fmt, ByteTendril, StrTendril, Tendril};

#[derive(Default)]
struct Rec {
    events: Vec<String>,
    text: String,
    errors: usize,
}

impl TendrilSink<fmt::UTF8> for Rec {
    fn process(&mut self, t: Tendril<fmt::UTF8>) {
        self.events.push(format!("t:{}", show_bytes(t.as_bytes())));
        self.text.push_str(&t);
    }
    fn error(&mut self, _desc: Cow<'static, str>) {
        self.events.push("e".into());
        self.errors += 1;
    }
    type Output = Rec;
    fn finish(self) -> Rec {
        self
    }
}

fn parse_chunks(s: &str) -> Option<Vec<Vec<u8>>> {
    s.split('|').map(parse_bytes).collect()
}

fn run_dec(chunks: &[Vec<u8>]) -> String {
    let mut d = Utf8LossyDecoder::new(Rec::default());
    for c in chunks {
        d.process(ByteTendril::from_slice(c));
    }
    let r = d.finish();
    // the text handed over must be valid UTF-8 by construction of StrTendril; double-check the bytes
    if r.events.is_empty() {
        "-".into()
    } else {
        r.events.join(";")
    }
}

fn run_std(b: &[u8]) -> String {
    match std::str::from_utf8(b) {
        Ok(_) => "ok".into(),
        Err(e) => format!(
            "err {} {}",
            e.valid_up_to(),
            e.error_len().map(|n| n.to_string()).unwrap_or("-".into())
        ),
    }
}

/// reference: drive one encoding_rs decoder over the whole input until InputEmpty with last=true
fn reference_decode(enc: &'static encoding_rs::Encoding, all: &[u8]) -> (String, usize) {
    // LossyDecoder::new_encoding_rs routes UTF-8 to Utf8LossyDecoder (no BOM handling, like
    // String::from_utf8_lossy); every other encoding gets `new_decoder()` (BOM sniffing).
    let mut dec = if enc == encoding_rs::UTF_8 {
        enc.new_decoder_without_bom_handling()
    } else {
        enc.new_decoder()
    };
    let mut out = String::new();
    let mut errors = 0;
    let mut pos = 0;
    let mut guard = 0;
    loop {
        guard += 1;
        assert!(guard < 100_000, "reference decode loop");
        let mut buf = [0u8; 64];
        let (res, read, written) = dec.decode_to_utf8_without_replacement(&all[pos..], &mut buf, true);
        out.push_str(std::str::from_utf8(&buf[..written]).expect("decoder wrote invalid utf-8"));
        pos += read;
        match res {
            encoding_rs::DecoderResult::InputEmpty => break,
            encoding_rs::DecoderResult::OutputFull => {},
            encoding_rs::DecoderResult::Malformed(_, _) => {
                errors += 1;
                out.push('\u{fffd}');
            },
        }
    }
    (out, errors)
}

fn run_enc(label: &str, chunks: &[Vec<u8>]) -> String {
    let Some(enc) = encoding_rs::Encoding::for_label(label.as_bytes()) else {
        return "bad-label".into();
    };
    let mut d: LossyDecoder<Rec> = LossyDecoder::new_encoding_rs(enc, Rec::default());
    for c in chunks {
        d.process(ByteTendril::from_slice(c));
    }
    let r = d.finish();
    let all: Vec<u8> = chunks.concat();
    let (wtext, werrs) = reference_decode(enc, &all);
    let dtext = if enc == encoding_rs::UTF_8 {
        enc.decode_without_bom_handling(&all).0
    } else {
        enc.decode(&all).0
    };
    format!(
        "S={} {} ## W={} {} D={}",
        show_str(&r.text),
        r.errors,
        show_str(&wtext),
        werrs,
        show_str(&dtext)
    )
}

/// `LossyDecoder::new_from_encoding_rs_decoder` with a decoder the caller configured (`how`: `bom` = `new_decoder`
/// (BOM sniffing, may switch encoding), `rm` = `new_decoder_with_bom_removal`, `nobom` = `new_decoder_without_bom_handling`)
/// fed chunk by chunk, against the one-shot decode with the same configuration: `S=<text> ## D=<text>`
fn run_encd(label: &str, how: &str, chunks: &[Vec<u8>]) -> String {
    let Some(enc) = encoding_rs::Encoding::for_label(label.as_bytes()) else {
        return "bad-label".into();
    };
    let dec = match how {
        "bom" => enc.new_decoder(),
        "rm" => enc.new_decoder_with_bom_removal(),
        "nobom" => enc.new_decoder_without_bom_handling(),
        _ => return "bad-case".into(),
    };
    let mut d: LossyDecoder<Rec> = LossyDecoder::new_from_encoding_rs_decoder(dec, Rec::default());
    for c in chunks {
        d.process(ByteTendril::from_slice(c));
    }
    let r = d.finish();
    let all: Vec<u8> = chunks.concat();
    let dtext = match how {
        "bom" => enc.decode(&all).0,
        "rm" => enc.decode_with_bom_removal(&all).0,
        _ => enc.decode_without_bom_handling(&all).0,
    };
    format!("S={} ## D={}", show_str(&r.text), show_str(&dtext))
}

fn run_parse(kind: &str, chunks: &[Vec<u8>]) -> String {
    let all: Vec<u8> = chunks.concat();
    let lossy = String::from_utf8_lossy(&all).into_owned();
    match kind {
        "html" => {
            let mut p = html5ever::parse_document(RcDom::default(), Default::default()).from_utf8();
            for c in chunks {
                p.process(ByteTendril::from_slice(c));
            }
            let a: RcDom = p.finish();
            let b: RcDom = html5ever::parse_document(RcDom::default(), Default::default())
                .one(StrTendril::from_slice(&lossy));
            format!("T={} ## T={}", dump_dom(&a), dump_dom(&b))
        },
        "xml" => {
            let mut p = xml5ever::driver::parse_document(RcDom::default(), Default::default()).from_utf8();
            for c in chunks {
                p.process(ByteTendril::from_slice(c));
            }
            let a: RcDom = p.finish();
            let b: RcDom = xml5ever::driver::parse_document(RcDom::default(), Default::default())
                .one(StrTendril::from_slice(&lossy));
            format!("T={} ## T={}", dump_dom(&a), dump_dom(&b))
        },
        _ => "bad-case".into(),
    }
}

/// a reader that hands out the chunks one `read` at a time (short reads), interleaved with
/// `Interrupted` errors, then EOF
struct ChunkReader {
    chunks: Vec<Vec<u8>>,
    idx: usize,
    off: usize,
    tick: usize,
}

impl std::io::Read for ChunkReader {
    fn read(&mut self, buf: &mut [u8]) -> std::io::Result<usize> {
        self.tick += 1;
        if self.tick % 3 == 1 {
            return Err(std::io::Error::new(std::io::ErrorKind::Interrupted, "again"));
        }
        while self.idx < self.chunks.len() && self.off >= self.chunks[self.idx].len() {
            self.idx += 1;
            self.off = 0;
        }
        if self.idx >= self.chunks.len() {
            return Ok(0);
        }
        let c = &self.chunks[self.idx];
        let n = std::cmp::min(buf.len(), c.len() - self.off);
        buf[..n].copy_from_slice(&c[self.off..self.off + n]);
        self.off += n;
        Ok(n)
    }
}

/// the other front ends of `TendrilSink` / `LossyDecoder` against `String::from_utf8_lossy` of the
/// whole input: `S=<text> <#errors> ## W=<text>`
fn run_front(kind: &str, chunks: &[Vec<u8>]) -> String {
    let all: Vec<u8> = chunks.concat();
    let lossy = String::from_utf8_lossy(&all).into_owned();
    let r: Rec = match kind {
        "one" => Utf8LossyDecoder::new(Rec::default()).one(ByteTendril::from_slice(&all)),
        "iter" => Utf8LossyDecoder::new(Rec::default())
            .from_iter(chunks.iter().map(|c| ByteTendril::from_slice(c))),
        "read" => {
            let mut rd = ChunkReader {
                chunks: chunks.to_vec(),
                idx: 0,
                off: 0,
                tick: 0,
            };
            match Utf8LossyDecoder::new(Rec::default()).read_from(&mut rd) {
                Ok(r) => r,
                Err(e) => return format!("io-error {e}"),
            }
        },
        "lossy" => {
            let mut d: LossyDecoder<Rec> = LossyDecoder::utf8(Rec::default());
            for c in chunks {
                d.process(ByteTendril::from_slice(c));
            }
            d.finish()
        },
        "rsdec" => {
            let mut d: LossyDecoder<Rec> = LossyDecoder::new_from_encoding_rs_decoder(
                encoding_rs::UTF_8.new_decoder_without_bom_handling(),
                Rec::default(),
            );
            for c in chunks {
                d.process(ByteTendril::from_slice(c));
            }
            d.finish()
        },
        _ => return "bad-case".into(),
    };
    format!("S={} {} ## W={}", show_str(&r.text), r.errors, show_str(&lossy))
}

pub fn run(fields: &[&str]) -> String {
    match fields {
        ["front", kind, chunks] => match parse_chunks(chunks) {
            Some(c) => run_front(kind, &c),
            None => "bad-case".into(),
        },
        ["dec", chunks] => match parse_chunks(chunks) {
            Some(c) => run_dec(&c),
            None => "bad-case".into(),
        },
        ["std", bytes] => match parse_bytes(bytes) {
            Some(b) => run_std(&b),
            None => "bad-case".into(),
        },
        ["encd", label, how, chunks] => match parse_chunks(chunks) {
            Some(c) => run_encd(label, how, &c),
            None => "bad-case".into(),
        },
        ["enc", spec, chunks] => match parse_chunks(chunks) {
            Some(c) => run_enc(spec, &c),
            None => "bad-case".into(),
        },
        ["parse", kind, chunks] => match parse_chunks(chunks) {
            Some(c) => run_parse(kind, &c),
            None => "bad-case".into(),
        },
        _ => "bad-case".into(),
    }
}
