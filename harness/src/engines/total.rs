//! engine `total` (C04): drive the real parsers on large / pathological inputs described compactly.
//!   total<TAB>html|xml|frag:<ns>:<local><TAB>opts<TAB>chunk_size<TAB>segments
//!   opts: comma list of s1 (scripting on), exact, iframe, dropdoctype, quirks
//!   segments: `|`-separated `count*hex` (the hex string repeated count times), concatenated
//! output: `ok nodes=<n> depth=<d> feeds=<k> drained=<0|1>` — tree size/depth are computed iteratively.
use crate::proto::*;
use html5ever::driver::{self, ParseOpts};
use html5ever::tendril::StrTendril;
use html5ever::tree_builder::QuirksMode;
#[allow(unused_imports)]
use markup5ever::{namespace_url, ns, LocalName, QualName};
use markup5ever_rcdom::{Handle, NodeData, RcDom};

fn build_input(spec: &str) -> Option<String> {
    let mut s = String::new();
    for seg in spec.split('|') {
        if seg.is_empty() || seg == "-" {
            continue;
        }
        let (n, h) = seg.split_once('*')?;
        let n: usize = n.parse().ok()?;
        let unit = parse_string(h)?;
        for _ in 0..n {
            s.push_str(&unit);
        }
    }
    Some(s)
}

fn measure(root: &Handle) -> (usize, usize) {
    // iterative DFS: (nodes, max depth)
    let mut stack: Vec<(Handle, usize)> = vec![(root.clone(), 0)];
    let mut nodes = 0usize;
    let mut maxd = 0usize;
    while let Some((h, d)) = stack.pop() {
        nodes += 1;
        maxd = maxd.max(d);
        if let NodeData::Element {
            template_contents, ..
        } = &h.data
        {
            if let Some(tc) = template_contents.borrow().as_ref() {
                stack.push((tc.clone(), d + 1));
            }
        }
        for c in h.children.borrow().iter() {
            stack.push((c.clone(), d + 1));
        }
    }
    (nodes, maxd)
}

fn chunks_of(s: &str, size: usize) -> Vec<&str> {
    if size == 0 {
        return vec![s];
    }
    let mut out = vec![];
    let mut start = 0;
    let mut count = 0;
    for (i, _) in s.char_indices() {
        if count == size {
            out.push(&s[start..i]);
            start = i;
            count = 0;
        }
        count += 1;
    }
    out.push(&s[start..]);
    out
}

pub fn run(fields: &[&str]) -> String {
    if fields.len() != 4 {
        return "bad-case".into();
    }
    let Some(input) = build_input(fields[3]) else {
        return "bad-case".into();
    };
    let Ok(size) = fields[2].parse::<usize>() else {
        return "bad-case".into();
    };
    let has = |k: &str| fields[1].split(',').any(|x| x == k);
    let mut feeds = 0usize;
    let mut drained = true;
    let dom: RcDom = if fields[0] == "xml" {
        let mut opts = xml5ever::driver::XmlParseOpts::default();
        opts.tokenizer.exact_errors = has("exact");
        let parser = xml5ever::driver::parse_document(RcDom::default(), opts);
        let tok = &parser.tokenizer;
        let q = &parser.input_buffer;
        for c in chunks_of(&input, size) {
            q.push_back(StrTendril::from_slice(c));
            let mut guard = 0usize;
            loop {
                guard += 1;
                if guard > 10_000_000 {
                    return "HANG run loop".into();
                }
                match tok.run(q) {
                    markup5ever::TokenizerResult::Done => break,
                    _ => {},
                }
            }
            feeds += 1;
            if !q.is_empty() {
                drained = false;
            }
        }
        tok.end();
        parser.tokenizer.sink.sink
    } else {
        let mut opts = ParseOpts::default();
        opts.tokenizer.exact_errors = has("exact");
        opts.tree_builder.scripting_enabled = has("s1");
        opts.tree_builder.iframe_srcdoc = has("iframe");
        opts.tree_builder.drop_doctype = has("dropdoctype");
        opts.tree_builder.exact_errors = has("exact");
        if has("quirks") {
            opts.tree_builder.quirks_mode = QuirksMode::Quirks;
        }
        let parser = if fields[0] == "html" {
            driver::parse_document(RcDom::default(), opts)
        } else {
            let Some(rest) = fields[0].strip_prefix("frag:") else {
                return "bad-case".into();
            };
            let Some((n, l)) = rest.split_once(':') else {
                return "bad-case".into();
            };
            let nsu = match n {
                "html" => ns!(html),
                "svg" => ns!(svg),
                "math" => ns!(mathml),
                _ => return "bad-case".into(),
            };
            driver::parse_fragment(
                RcDom::default(),
                opts,
                QualName::new(None, nsu, LocalName::from(l)),
                vec![],
                has("s1"),
            )
        };
        let tok = &parser.tokenizer;
        let q = &parser.input_buffer;
        for c in chunks_of(&input, size) {
            q.push_back(StrTendril::from_slice(c));
            let mut guard = 0usize;
            loop {
                guard += 1;
                if guard > 10_000_000 {
                    return "HANG feed loop".into();
                }
                match tok.feed(q) {
                    markup5ever::TokenizerResult::Done => break,
                    _ => {},
                }
            }
            feeds += 1;
            if !q.is_empty() {
                drained = false;
            }
        }
        tok.end();
        parser.tokenizer.sink.sink
    };
    let (nodes, depth) = measure(&dom.document);
    format!(
        "ok nodes={} depth={} feeds={} drained={}",
        nodes, depth, feeds, drained as u8
    )
}
