//! engine `bq`: BufferQueue op sequences (see lean/H5V/Model/BufferQueueDriver.lean)
use crate::proto::*;
use markup5ever::buffer_queue::{BufferQueue, SetResult};
use markup5ever::SmallCharSet;
use std::panic::{catch_unwind, AssertUnwindSafe};
use tendril::StrTendril;

fn show_queue(q: &BufferQueue) -> String {
    let c = q.clone();
    let mut parts = vec![];
    while let Some(b) = c.pop_front() {
        parts.push(show_str(&b));
    }
    format!("Q={}", parts.join("|"))
}

fn opt_char(c: Option<char>) -> String {
    match c {
        None => "-".into(),
        Some(c) => format!("{:x}", c as u32),
    }
}

fn run_op(q: &BufferQueue, aux: &std::cell::RefCell<BufferQueue>, op: &str) -> String {
    let parts: Vec<&str> = op.trim().split(' ').collect();
    match parts.as_slice() {
        ["pb", rest @ ..] => match parse_string(&rest.join(" ")) {
            Some(s) => {
                q.push_back(StrTendril::from_slice(&s));
                "ok".into()
            },
            None => "bad-op".into(),
        },
        ["pf", rest @ ..] => match parse_string(&rest.join(" ")) {
            Some(s) => {
                q.push_front(StrTendril::from_slice(&s));
                "ok".into()
            },
            None => "bad-op".into(),
        },
        ["n"] => format!("n={}", opt_char(q.next())),
        ["k"] => format!("k={}", opt_char(q.peek())),
        ["x", bits] => match bits.parse::<u64>() {
            Ok(bits) => match q.pop_except_from(SmallCharSet { bits }) {
                None => "x=-".into(),
                Some(SetResult::FromSet(c)) => format!("x=S:{:x}", c as u32),
                Some(SetResult::NotFromSet(t)) => format!("x=N:{}", show_str(&t)),
            },
            Err(_) => "bad-op".into(),
        },
        ["e", ci, rest @ ..] => match parse_string(&rest.join(" ")) {
            Some(pat) => {
                // the comparator is user code: it may look at the queue (read-only operations) while `eat` runs
                let r = if *ci == "1" {
                    q.eat(&pat, |a, b| {
                        let _ = (q.peek(), q.is_empty());
                        a.eq_ignore_ascii_case(b)
                    })
                } else {
                    q.eat(&pat, |a, b| {
                        let _ = (q.peek(), q.is_empty());
                        a == b
                    })
                };
                match r {
                    None => "e=N".into(),
                    Some(true) => "e=T".into(),
                    Some(false) => "e=F".into(),
                }
            },
            None => "bad-op".into(),
        },
        // --- the second queue (`document.write`-style hand-over): push to it, swap, replace
        ["apb", rest @ ..] => match parse_string(&rest.join(" ")) {
            Some(s) => {
                aux.borrow().push_back(StrTendril::from_slice(&s));
                "ok".into()
            },
            None => "bad-op".into(),
        },
        ["sw"] => {
            q.swap_with(&aux.borrow());
            "ok".into()
        },
        ["rw"] => {
            let other = aux.replace(BufferQueue::default());
            q.replace_with(other);
            "ok".into()
        },
        ["pp"] => match q.pop_front() {
            None => "pp=-".into(),
            Some(t) => format!("pp={}", show_str(&t)),
        },
        ["ie"] => format!("ie={}", q.is_empty() as u8),
        ["fc"] => match q.peek_front_chunk_mut() {
            None => "fc=-".into(),
            Some(t) => format!("fc={}", show_str(&t)),
        },
        _ => "bad-op".into(),
    }
}

pub fn run(fields: &[&str]) -> String {
    if fields.len() != 1 {
        return "bad-case".into();
    }
    let q = BufferQueue::default();
    let aux = std::cell::RefCell::new(BufferQueue::default());
    let mut outs = vec![];
    let mut used_aux = false;
    for op in fields[0].split(';') {
        used_aux |= op.starts_with("apb") || op == "sw" || op == "rw";
        let r = catch_unwind(AssertUnwindSafe(|| run_op(&q, &aux, op)));
        outs.push(r.unwrap_or_else(|_| "panic".into()));
    }
    outs.push(show_queue(&q));
    if used_aux {
        outs.push(show_queue(&aux.borrow()).replacen("Q=", "A=", 1));
    }
    outs.join(";")
}
