//! engine `meta` (C19): encoding indicators observed through the public API.
//!
//! `meta<TAB>extract<TAB><content bytes hex>`
//!     parses `<meta http-equiv=content-type content="…">` (content given as an attribute value, the
//!     tokenizer is fed the document text built around it) with Tokenizer+TreeBuilder+RcDom and prints
//!     the label of the first `TokenizerResult::EncodingIndicator`:  `some <hex bytes>` | `none`.
//!     The content string must be valid UTF-8 without NUL (the tokenizer would alter it before it
//!     reaches encoding.rs) — otherwise `bad-case`; `"`, `&`, CR are sent as character references.
//! `meta<TAB>doc<TAB><ctx><TAB><chunks>`
//!     ctx = `-` (document) or a fragment context `html:select`, `svg:svg`, …, optionally followed by `!`
//!     (scripting disabled, so that `<noscript>` content is parsed as markup); chunks = UTF-8 bytes in
//!     hex, `|`-separated.  Feeds chunk by chunk, re-feeding after every suspension.  Output:
//!     `I:<label hex>:<n>;…;T=<tree dump>;E=<#parse errors>` where n = number of HTML `meta` elements in
//!     the tree at that moment whose charset attribute equals the label or whose content attribute
//!     contains it.  Then ` ## ` and the same chunks through `Parser::process`/`finish` (the driver,
//!     which ignores indicators): `T=<tree dump>;E=<n>`.
use crate::proto::*;
use html5ever::buffer_queue::BufferQueue;
use html5ever::tendril::{StrTendril, TendrilSink};
use markup5ever::TokenizerResult;
use html5ever::{driver, ns, Attribute, LocalName, Namespace, QualName};
use markup5ever_rcdom::{Handle, NodeData, RcDom};

pub fn esc(s: &str) -> String {
    let mut o = String::new();
    for c in s.chars() {
        if c.is_ascii_alphanumeric() || matches!(c, '_' | ':' | '.' | '-') {
            o.push(c);
        } else {
            o.push_str(&format!("%{:x};", c as u32));
        }
    }
    o
}

fn ns_short(ns: &Namespace) -> String {
    match &**ns {
        "http://www.w3.org/1999/xhtml" => "html".into(),
        "http://www.w3.org/2000/svg" => "svg".into(),
        "http://www.w3.org/1998/Math/MathML" => "math".into(),
        "http://www.w3.org/1999/xlink" => "xlink".into(),
        "http://www.w3.org/XML/1998/namespace" => "xml".into(),
        "http://www.w3.org/2000/xmlns/" => "xmlns".into(),
        "" => "".into(),
        other => esc(other),
    }
}

/// canonical one-line dump of an RcDom subtree: space separated tokens
/// `<ns|name a=v …>` … `</>`, `"text"`, `<!--c-->`, `<!doctype,pub,sys>`, `<?target,data>`, `{` template contents `}`
pub fn dump(h: &Handle, out: &mut Vec<String>) {
    match &h.data {
        NodeData::Document => {
            out.push("#doc".into());
            for c in h.children.borrow().iter() {
                dump(c, out);
            }
        },
        NodeData::Doctype {
            name,
            public_id,
            system_id,
        } => out.push(format!("<!{},{},{}>", esc(name), esc(public_id), esc(system_id))),
        NodeData::Text { contents } => out.push(format!("\"{}\"", esc(&contents.borrow()))),
        NodeData::Comment { contents } => out.push(format!("<!--{}-->", esc(contents))),
        NodeData::ProcessingInstruction { target, contents } => {
            out.push(format!("<?{},{}>", esc(target), esc(contents)))
        },
        NodeData::Element {
            name,
            attrs,
            template_contents,
            ..
        } => {
            let mut s = format!("<{}|{}", ns_short(&name.ns), esc(&name.local));
            for a in attrs.borrow().iter() {
                let an = if a.name.ns == ns!() {
                    esc(&a.name.local)
                } else {
                    format!("{{{}}}{}", ns_short(&a.name.ns), esc(&a.name.local))
                };
                s.push_str(&format!(" {}={}", an, esc(&a.value)));
            }
            s.push('>');
            out.push(s);
            if let Some(tc) = template_contents.borrow().as_ref() {
                out.push("{".into());
                for c in tc.children.borrow().iter() {
                    dump(c, out);
                }
                out.push("}".into());
            }
            for c in h.children.borrow().iter() {
                dump(c, out);
            }
            out.push("</>".into());
        },
    }
}

pub fn dump_dom(dom: &RcDom) -> String {
    let mut v = vec![];
    dump(&dom.document, &mut v);
    v.join(" ")
}

fn count_meta(h: &Handle, label: &str) -> usize {
    let mut n = 0;
    if let NodeData::Element {
        name,
        attrs,
        template_contents,
        ..
    } = &h.data
    {
        if name.ns == ns!(html) && &*name.local == "meta" {
            let hit = attrs.borrow().iter().any(|a| {
                a.name.ns == ns!()
                    && ((&*a.name.local == "charset" && &*a.value == label)
                        || (&*a.name.local == "content" && a.value.contains(label)))
            });
            if hit {
                n += 1;
            }
        }
        if let Some(tc) = template_contents.borrow().as_ref() {
            n += count_meta(tc, label);
        }
    }
    for c in h.children.borrow().iter() {
        n += count_meta(c, label);
    }
    n
}

/// `-` = document, `ns:name` = fragment context; a trailing `!` switches scripting off
/// (`<noscript>` is then parsed as markup: "in head noscript" insertion mode)
fn parse_ctx(ctx: &str) -> Option<(Option<QualName>, bool)> {
    let (ctx, scripting) = match ctx.strip_suffix('!') {
        Some(c) => (c, false),
        None => (ctx, true),
    };
    Some((parse_ctx_name(ctx)?, scripting))
}

fn parse_ctx_name(ctx: &str) -> Option<Option<QualName>> {
    if ctx == "-" {
        return Some(None);
    }
    let (n, l) = ctx.split_once(':')?;
    let ns = match n {
        "html" => ns!(html),
        "svg" => ns!(svg),
        "math" => ns!(mathml),
        _ => return None,
    };
    Some(Some(QualName::new(None, ns, LocalName::from(l))))
}

fn new_parser(ctx: &(Option<QualName>, bool)) -> driver::Parser<RcDom> {
    let mut opts = driver::ParseOpts::default();
    opts.tree_builder.scripting_enabled = ctx.1;
    match &ctx.0 {
        None => driver::parse_document(RcDom::default(), opts),
        Some(q) => driver::parse_fragment(
            RcDom::default(),
            opts,
            q.clone(),
            Vec::<Attribute>::new(),
            ctx.1,
        ),
    }
}

/// feed chunks by hand, resuming after each suspension; returns (events, dom)
fn run_manual(ctx: &(Option<QualName>, bool), chunks: &[String]) -> (Vec<String>, RcDom) {
    let parser = new_parser(ctx);
    let tok = &parser.tokenizer;
    let input: &BufferQueue = &parser.input_buffer;
    let mut events = vec![];
    let mut guard = 0usize;
    for c in chunks {
        input.push_back(StrTendril::from_slice(c));
        loop {
            guard += 1;
            if guard > 100_000 {
                panic!("feed does not make progress");
            }
            match tok.feed(input) {
                TokenizerResult::Done => break,
                TokenizerResult::Script(_) => {},
                TokenizerResult::EncodingIndicator(label) => {
                    let n = count_meta(&tok.sink.sink.document, &label);
                    events.push(format!("I:{}:{}", show_bytes(label.as_bytes()), n));
                },
            }
        }
    }
    assert!(input.is_empty(), "input left after Done");
    tok.end();
    let dom = parser.tokenizer.sink.sink;
    (events, dom)
}

fn run_doc(fields: &[&str]) -> String {
    let Some(ctx) = parse_ctx(fields[0]) else {
        return "bad-case".into();
    };
    let mut chunks = vec![];
    for c in fields[1].split('|') {
        let Some(b) = parse_bytes(c) else {
            return "bad-case".into();
        };
        let Ok(s) = String::from_utf8(b) else {
            return "bad-case".into();
        };
        chunks.push(s);
    }
    let (events, dom) = run_manual(&ctx, &chunks);
    // the same chunks through the driver (`Parser::process` loops on `feed` until Done, ignoring indicators)
    let mut p2 = new_parser(&ctx);
    for c in &chunks {
        p2.process(StrTendril::from_slice(c));
    }
    let dom2 = p2.finish();
    let mut parts = events;
    parts.push(format!("T={}", dump_dom(&dom)));
    parts.push(format!("E={}", dom.errors.borrow().len()));
    format!(
        "{} ## T={};E={}",
        parts.join(";"),
        dump_dom(&dom2),
        dom2.errors.borrow().len()
    )
}

fn run_extract(content: &[u8]) -> String {
    let Ok(s) = std::str::from_utf8(content) else {
        return "bad-case".into();
    };
    if s.contains('\0') {
        return "bad-case".into();
    }
    // `"`, `&` and CR travel as character references (decoded by the tokenizer in attribute values)
    let s = s
        .replace('&', "&amp;")
        .replace('"', "&quot;")
        .replace('\r', "&#13;");
    let doc = format!("<meta http-equiv=content-type content=\"{}\">", s);
    let (events, _dom) = run_manual(&(None, true), &[doc]);
    match events.first() {
        None => "none".into(),
        Some(e) => {
            // "I:<hex>:<n>"
            let mut it = e.splitn(3, ':');
            it.next();
            format!("some {}", it.next().unwrap_or("?"))
        },
    }
}

pub fn run(fields: &[&str]) -> String {
    match fields {
        ["extract", hex] => match parse_bytes(hex) {
            Some(b) => run_extract(&b),
            None => "bad-case".into(),
        },
        ["doc", ctx, chunks] => run_doc(&[ctx, chunks]),
        _ => "bad-case".into(),
    }
}
