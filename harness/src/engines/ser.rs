//! engine `ser`: the real `html5ever::serialize::HtmlSerializer` driven (a) by rcdom's
//! `SerializableHandle` over an RcDom built node by node, (b) by a plain tree type of this file
//! (cross-check `alt=`), (c) by a raw sequence of `Serializer` calls (`ops` mode).
//! Model side: lean/H5V/Model/HtmlSerDriver.lean (same grammar, same output).
//!
//! case fields
//!   tree  <scope> <scripting 0|1> <create_missing_parent 0|1> <tree>
//!   ops   <scope> <scripting 0|1> <create_missing_parent 0|1> <ops>
//!   parse <scripting 0|1> <document, hex code points>          (generator helper + oracle, no model)
//! scope  = I | C | N:<ns>:<local>
//! ns     = h | m | s | x | n | l | 0 | u <hex>
//! tree   = tokens joined by ';' :  E:<ns>:<local>  A:<ns>:<prefix|~>:<local>:<value>*  children  /
//!          T:<hex>  C:<hex>  D:<hex>  P:<target>:<data>  R children /          (R = Document)
//! ops    = tokens joined by ';' :  S:<ns>:<local> A:…*   X:<ns>:<local>   T: C: D: P: as above
//! output = r=ok|panic-…;out=<bytes hex>;io=ok|<paths>   + harness only: ;alt=…;rt=…
use crate::proto::*;
use html5ever::serialize::{
    serialize, AttrRef, HtmlSerializer, Serialize, SerializeOpts, Serializer, TraversalScope,
};
use html5ever::tendril::{StrTendril, TendrilSink};
use html5ever::tree_builder::TreeBuilderOpts;
use html5ever::{parse_document, parse_fragment, Attribute, ParseOpts};
use markup5ever::{LocalName, Namespace, Prefix, QualName};
use markup5ever_rcdom::{Handle, Node, NodeData, RcDom, SerializableHandle};
use std::cell::RefCell;
use std::io;
use std::panic::{catch_unwind, AssertUnwindSafe};
use std::rc::Rc;

// ------------------------------------------------------------------ plain tree

#[derive(Clone, Debug, PartialEq)]
enum T {
    El(QualName, Vec<(QualName, String)>, Vec<T>),
    Text(String),
    Comment(String),
    Doctype(String),
    Pi(String, String),
    Doc(Vec<T>),
}

impl T {
    fn children(&self) -> &[T] {
        match self {
            T::El(_, _, c) | T::Doc(c) => c,
            _ => &[],
        }
    }
    fn emit<S: Serializer>(&self, s: &mut S) -> io::Result<()> {
        match self {
            T::El(name, attrs, ch) => {
                s.start_elem(name.clone(), attrs.iter().map(|(n, v)| (n, &v[..])))?;
                for c in ch {
                    c.emit(s)?;
                }
                s.end_elem(name.clone())
            },
            T::Text(t) => s.write_text(t),
            T::Comment(t) => s.write_comment(t),
            T::Doctype(t) => s.write_doctype(t),
            T::Pi(t, d) => s.write_processing_instruction(t, d),
            T::Doc(_) => panic!("Can't serialize Document node itself"),
        }
    }
}

impl Serialize for T {
    fn serialize<S: Serializer>(&self, s: &mut S, scope: TraversalScope) -> io::Result<()> {
        match scope {
            TraversalScope::IncludeNode => self.emit(s),
            TraversalScope::ChildrenOnly(_) => {
                for c in self.children() {
                    c.emit(s)?;
                }
                Ok(())
            },
        }
    }
}

// ------------------------------------------------------------------ parsing the case

fn ns_of(s: &str) -> Option<Namespace> {
    Some(match s {
        "h" => markup5ever::ns!(html),
        "m" => markup5ever::ns!(mathml),
        "s" => markup5ever::ns!(svg),
        "x" => markup5ever::ns!(xml),
        "n" => markup5ever::ns!(xmlns),
        "l" => markup5ever::ns!(xlink),
        "0" => markup5ever::ns!(),
        _ => {
            let rest = s.strip_prefix('u')?;
            Namespace::from(parse_string(rest)?)
        },
    })
}

fn ns_show(ns: &Namespace) -> String {
    if *ns == markup5ever::ns!(html) {
        "h".into()
    } else if *ns == markup5ever::ns!(mathml) {
        "m".into()
    } else if *ns == markup5ever::ns!(svg) {
        "s".into()
    } else if *ns == markup5ever::ns!(xml) {
        "x".into()
    } else if *ns == markup5ever::ns!(xmlns) {
        "n".into()
    } else if *ns == markup5ever::ns!(xlink) {
        "l".into()
    } else if *ns == markup5ever::ns!() {
        "0".into()
    } else {
        format!("u {}", show_str(ns))
    }
}

fn qual(ns: &str, local: &str) -> Option<QualName> {
    Some(QualName::new(None, ns_of(ns)?, LocalName::from(parse_string(local)?)))
}

fn parse_attr(f: &[&str]) -> Option<(QualName, String)> {
    // A:<ns>:<prefix|~>:<local>:<value>
    if f.len() != 5 {
        return None;
    }
    let prefix = if f[2] == "~" { None } else { Some(Prefix::from(parse_string(f[2])?)) };
    let name = QualName::new(prefix, ns_of(f[1])?, LocalName::from(parse_string(f[3])?));
    Some((name, parse_string(f[4])?))
}

fn parse_scope(s: &str) -> Option<TraversalScope> {
    let f: Vec<&str> = s.split(':').collect();
    match f.as_slice() {
        ["I"] => Some(TraversalScope::IncludeNode),
        ["C"] => Some(TraversalScope::ChildrenOnly(None)),
        ["N", ns, local] => Some(TraversalScope::ChildrenOnly(Some(qual(ns, local)?))),
        _ => None,
    }
}

fn parse_flag(s: &str) -> Option<bool> {
    match s {
        "0" => Some(false),
        "1" => Some(true),
        _ => None,
    }
}

/// parses one node starting at toks[*i]; None on malformed input
fn parse_node(toks: &[&str], i: &mut usize) -> Option<T> {
    let tok = *toks.get(*i)?;
    *i += 1;
    let f: Vec<&str> = tok.split(':').collect();
    match f[0] {
        "E" if f.len() == 3 => {
            let name = qual(f[1], f[2])?;
            let mut attrs = vec![];
            while let Some(t) = toks.get(*i) {
                if !t.starts_with("A:") {
                    break;
                }
                attrs.push(parse_attr(&t.split(':').collect::<Vec<_>>())?);
                *i += 1;
            }
            let ch = parse_children(toks, i)?;
            Some(T::El(name, attrs, ch))
        },
        "R" if f.len() == 1 => Some(T::Doc(parse_children(toks, i)?)),
        "T" if f.len() == 2 => Some(T::Text(parse_string(f[1])?)),
        "C" if f.len() == 2 => Some(T::Comment(parse_string(f[1])?)),
        "D" if f.len() == 2 => Some(T::Doctype(parse_string(f[1])?)),
        "P" if f.len() == 3 => Some(T::Pi(parse_string(f[1])?, parse_string(f[2])?)),
        _ => None,
    }
}

fn parse_children(toks: &[&str], i: &mut usize) -> Option<Vec<T>> {
    let mut ch = vec![];
    loop {
        let t = *toks.get(*i)?;
        if t == "/" {
            *i += 1;
            return Some(ch);
        }
        ch.push(parse_node(toks, i)?);
    }
}

fn parse_tree(s: &str) -> Option<T> {
    let toks: Vec<&str> = s.split(';').collect();
    let mut i = 0;
    let t = parse_node(&toks, &mut i)?;
    if i == toks.len() {
        Some(t)
    } else {
        None
    }
}

fn show_tree(t: &T, out: &mut Vec<String>) {
    match t {
        T::El(name, attrs, ch) => {
            out.push(format!("E:{}:{}", ns_show(&name.ns), show_str(&name.local)));
            for (n, v) in attrs {
                out.push(format!(
                    "A:{}:{}:{}:{}",
                    ns_show(&n.ns),
                    match &n.prefix {
                        None => "~".to_string(),
                        Some(p) => show_str(p),
                    },
                    show_str(&n.local),
                    show_str(v)
                ));
            }
            for c in ch {
                show_tree(c, out);
            }
            out.push("/".into());
        },
        T::Doc(ch) => {
            out.push("R".into());
            for c in ch {
                show_tree(c, out);
            }
            out.push("/".into());
        },
        T::Text(s) => out.push(format!("T:{}", show_str(s))),
        T::Comment(s) => out.push(format!("C:{}", show_str(s))),
        T::Doctype(s) => out.push(format!("D:{}", show_str(s))),
        T::Pi(a, b) => out.push(format!("P:{}:{}", show_str(a), show_str(b))),
    }
}

// ------------------------------------------------------------------ rcdom bridge

fn to_rcdom(t: &T) -> Handle {
    let data = match t {
        T::El(name, attrs, _) => NodeData::Element {
            name: name.clone(),
            attrs: RefCell::new(
                attrs
                    .iter()
                    .map(|(n, v)| Attribute { name: n.clone(), value: StrTendril::from_slice(v) })
                    .collect(),
            ),
            template_contents: RefCell::new(None),
            mathml_annotation_xml_integration_point: false,
        },
        T::Text(s) => NodeData::Text { contents: RefCell::new(StrTendril::from_slice(s)) },
        T::Comment(s) => NodeData::Comment { contents: StrTendril::from_slice(s) },
        T::Doctype(s) => NodeData::Doctype {
            name: StrTendril::from_slice(s),
            public_id: StrTendril::new(),
            system_id: StrTendril::new(),
        },
        T::Pi(a, b) => NodeData::ProcessingInstruction {
            target: StrTendril::from_slice(a),
            contents: StrTendril::from_slice(b),
        },
        T::Doc(_) => NodeData::Document,
    };
    let node = Node::new(data);
    for c in t.children() {
        let ch = to_rcdom(c);
        ch.parent.set(Some(Rc::downgrade(&node)));
        node.children.borrow_mut().push(ch);
    }
    node
}

/// `children` only, exactly what `SerializableHandle` walks (template contents are not visited)
fn from_rcdom(h: &Handle) -> T {
    let ch: Vec<T> = h.children.borrow().iter().map(from_rcdom).collect();
    match &h.data {
        NodeData::Document => T::Doc(ch),
        NodeData::Element { name, attrs, .. } => T::El(
            name.clone(),
            attrs.borrow().iter().map(|a| (a.name.clone(), a.value.to_string())).collect(),
            ch,
        ),
        NodeData::Text { contents } => T::Text(contents.borrow().to_string()),
        NodeData::Comment { contents } => T::Comment(contents.to_string()),
        NodeData::Doctype { name, .. } => T::Doctype(name.to_string()),
        NodeData::ProcessingInstruction { target, contents } => {
            T::Pi(target.to_string(), contents.to_string())
        },
    }
}

// ------------------------------------------------------------------ running the real serializer

fn panic_site(e: Box<dyn std::any::Any + Send>) -> String {
    let msg = if let Some(s) = e.downcast_ref::<&str>() {
        s.to_string()
    } else if let Some(s) = e.downcast_ref::<String>() {
        s.clone()
    } else {
        "?".to_string()
    };
    match msg.as_str() {
        "no parent ElemInfo" => "panic-no-parent".into(),
        "no ElemInfo" => "panic-no-eleminfo".into(),
        "Can't serialize Document node itself" => "panic-document".into(),
        m => format!("panic-other({})", m.replace([';', '\t', '\n'], " ")),
    }
}

fn opts(scope: &TraversalScope, scripting: bool, cmp: bool) -> SerializeOpts {
    SerializeOpts {
        scripting_enabled: scripting,
        traversal_scope: scope.clone(),
        create_missing_parent: cmp,
    }
}

/// (status, bytes written — also those written before a panic)
fn run_ser<N: Serialize>(node: &N, scope: &TraversalScope, scripting: bool, cmp: bool) -> (String, Vec<u8>) {
    let mut buf: Vec<u8> = vec![];
    let r = catch_unwind(AssertUnwindSafe(|| {
        serialize(&mut buf, node, opts(scope, scripting, cmp)).expect("io")
    }));
    match r {
        Ok(()) => ("ok".into(), buf),
        Err(e) => (panic_site(e), buf),
    }
}

/// start tag and end tag of an element as the real serializer writes them on a fresh stack
fn tags(name: &QualName, attrs: &[(QualName, String)], scripting: bool, cmp: bool) -> (Vec<u8>, Vec<u8>) {
    let mut buf: Vec<u8> = vec![];
    let n1;
    {
        let mut ser = HtmlSerializer::new(&mut buf, opts(&TraversalScope::IncludeNode, scripting, cmp));
        ser.start_elem(name.clone(), attrs.iter().map(|(n, v)| (n, &v[..]))).expect("io");
        n1 = ser.writer.len();
        ser.end_elem(name.clone()).expect("io");
    }
    let end = buf.split_off(n1);
    (buf, end)
}

/// inner/outer on the real code for every element below (and including) `t`
fn inner_outer(t: &T, h: &Handle, path: &str, scripting: bool, cmp: bool, bad: &mut Vec<String>) {
    if let T::El(name, attrs, _) = t {
        let sh = SerializableHandle::from(h.clone());
        let (ro, outer) = run_ser(&sh, &TraversalScope::IncludeNode, scripting, cmp);
        let (ri, inner) =
            run_ser(&sh, &TraversalScope::ChildrenOnly(Some(name.clone())), scripting, cmp);
        let (start, end) = tags(name, attrs, scripting, cmp);
        let mut want = start;
        want.extend_from_slice(&inner);
        want.extend_from_slice(&end);
        if ro != ri || (ro == "ok" && outer != want) {
            bad.push(path.to_string());
        }
    }
    let kids = h.children.borrow();
    for (k, c) in t.children().iter().enumerate() {
        let p = if path == "r" { format!("{}", k) } else { format!("{}.{}", path, k) };
        inner_outer(c, &kids[k], &p, scripting, cmp, bad);
    }
}

fn show_io(bad: &[String]) -> String {
    if bad.is_empty() {
        "ok".into()
    } else {
        bad.iter().take(8).cloned().collect::<Vec<_>>().join(",")
    }
}

fn parse_opts(scripting: bool) -> ParseOpts {
    ParseOpts {
        tree_builder: TreeBuilderOpts { scripting_enabled: scripting, ..Default::default() },
        ..Default::default()
    }
}

/// real round trip: serialize the children of a `div` root, parse as a fragment with context `div`
fn round_trip(t: &T, h: &Handle, scripting: bool) -> String {
    let (name, ch) = match t {
        T::El(name, _, ch)
            if name.ns == markup5ever::ns!(html) && &*name.local == "div" => (name, ch),
        _ => return "na".into(),
    };
    let sh = SerializableHandle::from(h.clone());
    let (r, bytes) = run_ser(&sh, &TraversalScope::ChildrenOnly(Some(name.clone())), scripting, false);
    if r != "ok" {
        return "na".into();
    }
    let text = match String::from_utf8(bytes) {
        Ok(s) => s,
        Err(_) => return "utf8".into(),
    };
    // `discard_bom` off: the input is a string, not a decoded byte stream (with the default `true`
    // the tokenizer drops a U+FEFF that starts the first text node)
    let mut po = parse_opts(scripting);
    po.tokenizer.discard_bom = false;
    let dom = parse_fragment(RcDom::default(), po, name.clone(), vec![], scripting)
        .one(StrTendril::from_slice(&text));
    // document -> html -> fragment children
    let doc = from_rcdom(&dom.document);
    let got: Vec<T> = match doc.children() {
        [T::El(_, _, c)] => c.clone(),
        _ => return "shape".into(),
    };
    // attribute prefixes are not part of the comparison (the parser never sets one in HTML content)
    fn strip(t: &T) -> T {
        match t {
            T::El(n, a, c) => T::El(
                QualName::new(None, n.ns.clone(), n.local.clone()),
                a.iter()
                    .map(|(n, v)| (QualName::new(None, n.ns.clone(), n.local.clone()), v.clone()))
                    .collect(),
                c.iter().map(strip).collect(),
            ),
            other => other.clone(),
        }
    }
    let want: Vec<T> = ch.iter().map(strip).collect();
    let got: Vec<T> = got.iter().map(strip).collect();
    if want != got {
        return "diff".into();
    }
    // the same text under the default options (discard_bom = true), in one piece: the only difference allowed to show is
    // the documented one - a U+FEFF that starts the stream is dropped (known finding C07-leading-bom)
    {
        let dom3 = parse_fragment(RcDom::default(), parse_opts(scripting), name.clone(), vec![], scripting)
            .one(StrTendril::from_slice(&text));
        let doc3 = from_rcdom(&dom3.document);
        let got3: Vec<T> = match doc3.children() {
            [T::El(_, _, c)] => c.iter().map(strip).collect(),
            _ => return "shape".into(),
        };
        if want != got3 {
            return if text.starts_with('\u{feff}') { "diff-default-bom".into() } else { "diff-default".into() };
        }
    }
    // the same text re-parsed the way a consumer would feed it: default options, in pieces cut in front
    // of every U+FEFF (a leading BOM is only ever dropped at the very start of the stream)
    if text.contains('\u{feff}') && !text.starts_with('\u{feff}') {
        let mut p = parse_fragment(RcDom::default(), parse_opts(scripting), name.clone(), vec![], scripting);
        let mut start = 0;
        for (i, c) in text.char_indices() {
            if c == '\u{feff}' && i > start {
                p.process(StrTendril::from_slice(&text[start..i]));
                start = i;
            }
        }
        p.process(StrTendril::from_slice(&text[start..]));
        let dom2 = p.finish();
        let doc2 = from_rcdom(&dom2.document);
        let got2: Vec<T> = match doc2.children() {
            [T::El(_, _, c)] => c.iter().map(strip).collect(),
            _ => return "shape".into(),
        };
        if want != got2 {
            return "diff-chunked".into();
        }
    }
    "ok".into()
}

fn run_tree(fields: &[&str]) -> String {
    let (scope, scripting, cmp, tree) = match (
        parse_scope(fields[1]),
        parse_flag(fields[2]),
        parse_flag(fields[3]),
        parse_tree(fields[4]),
    ) {
        (Some(a), Some(b), Some(c), Some(d)) => (a, b, c, d),
        _ => return "bad-case".into(),
    };
    let h = to_rcdom(&tree);
    let (r, out) = run_ser(&SerializableHandle::from(h.clone()), &scope, scripting, cmp);
    let (r2, out2) = run_ser(&tree, &scope, scripting, cmp);
    let mut alt = if r == r2 && out == out2 { "ok" } else { "bad" };
    // `SerializeOpts::default()` is documented as scripting on, children only, no synthetic parent
    if alt == "ok" && r == "ok" && scripting && !cmp && matches!(scope, TraversalScope::ChildrenOnly(None)) {
        let mut dbuf: Vec<u8> = vec![];
        let ok = catch_unwind(AssertUnwindSafe(|| {
            serialize(&mut dbuf, &SerializableHandle::from(h.clone()), Default::default()).is_ok()
        }))
        .unwrap_or(false);
        if !ok || dbuf != out {
            alt = "bad";
        }
    }
    // the bytes written must not depend on how much the writer takes per call (`Write::write` may be partial)
    if alt == "ok" && r == "ok" {
        for max in [1usize, 3, 7] {
            let mut w = super::xmlser::ShortWriter { data: vec![], max };
            let ok = catch_unwind(AssertUnwindSafe(|| {
                serialize(&mut w, &SerializableHandle::from(h.clone()), opts(&scope, scripting, cmp)).is_ok()
            }))
            .unwrap_or(false);
            if !ok || w.data != out {
                alt = "bad-short-write";
            }
        }
    }
    let mut bad = vec![];
    inner_outer(&tree, &h, "r", scripting, cmp, &mut bad);
    let rt = round_trip(&tree, &h, scripting);
    format!("r={};out={};io={};alt={};rt={}", r, show_bytes(&out), show_io(&bad), alt, rt)
}

fn run_ops(fields: &[&str]) -> String {
    let (scope, scripting, cmp) =
        match (parse_scope(fields[1]), parse_flag(fields[2]), parse_flag(fields[3])) {
            (Some(a), Some(b), Some(c)) => (a, b, c),
            _ => return "bad-case".into(),
        };
    enum Op {
        Start(QualName, Vec<(QualName, String)>),
        End(QualName),
        Text(String),
        Comment(String),
        Doctype(String),
        Pi(String, String),
    }
    let toks: Vec<&str> = if fields[4] == "-" { vec![] } else { fields[4].split(';').collect() };
    let mut ops = vec![];
    let mut i = 0;
    while i < toks.len() {
        let f: Vec<&str> = toks[i].split(':').collect();
        i += 1;
        let op = match f[0] {
            "S" if f.len() == 3 => {
                let mut attrs = vec![];
                while i < toks.len() && toks[i].starts_with("A:") {
                    match parse_attr(&toks[i].split(':').collect::<Vec<_>>()) {
                        Some(a) => attrs.push(a),
                        None => return "bad-case".into(),
                    }
                    i += 1;
                }
                qual(f[1], f[2]).map(|n| Op::Start(n, attrs))
            },
            "X" if f.len() == 3 => qual(f[1], f[2]).map(Op::End),
            "T" if f.len() == 2 => parse_string(f[1]).map(Op::Text),
            "C" if f.len() == 2 => parse_string(f[1]).map(Op::Comment),
            "D" if f.len() == 2 => parse_string(f[1]).map(Op::Doctype),
            "P" if f.len() == 3 => match (parse_string(f[1]), parse_string(f[2])) {
                (Some(a), Some(b)) => Some(Op::Pi(a, b)),
                _ => None,
            },
            _ => None,
        };
        match op {
            Some(op) => ops.push(op),
            None => return "bad-case".into(),
        }
    }
    let mut buf: Vec<u8> = vec![];
    let r = catch_unwind(AssertUnwindSafe(|| {
        let mut ser = HtmlSerializer::new(&mut buf, opts(&scope, scripting, cmp));
        for op in &ops {
            match op {
                Op::Start(n, a) => ser.start_elem(n.clone(), a.iter().map(|(n, v)| -> AttrRef { (n, &v[..]) })),
                Op::End(n) => ser.end_elem(n.clone()),
                Op::Text(t) => ser.write_text(t),
                Op::Comment(t) => ser.write_comment(t),
                Op::Doctype(t) => ser.write_doctype(t),
                Op::Pi(a, b) => ser.write_processing_instruction(a, b),
            }
            .expect("io");
        }
    }));
    let r = match r {
        Ok(()) => "ok".to_string(),
        Err(e) => panic_site(e),
    };
    format!("r={};out={}", r, show_bytes(&buf))
}

/// parse a document with the real parser; print the tree (children only, as rcdom serialises it)
/// and the inner/outer verdict over every element for both serializer scripting settings
fn run_parse(fields: &[&str]) -> String {
    let (scripting, text) = match (parse_flag(fields[1]), parse_string(fields[2])) {
        (Some(a), Some(b)) => (a, b),
        _ => return "bad-case".into(),
    };
    let dom = parse_document(RcDom::default(), parse_opts(scripting)).one(StrTendril::from_slice(&text));
    let t = from_rcdom(&dom.document);
    let mut toks = vec![];
    show_tree(&t, &mut toks);
    let mut res = vec![];
    for s in [false, true] {
        let mut bad = vec![];
        inner_outer(&t, &dom.document, "r", s, false, &mut bad);
        res.push(format!("io{}={}", s as u8, show_io(&bad)));
    }
    format!("{};tree={}", res.join(";"), toks.join(";"))
}

pub fn run(fields: &[&str]) -> String {
    match fields.first().copied() {
        Some("tree") if fields.len() == 5 => run_tree(fields),
        Some("ops") if fields.len() == 5 => run_ops(fields),
        Some("parse") if fields.len() == 3 => run_parse(fields),
        _ => "bad-case".into(),
    }
}
