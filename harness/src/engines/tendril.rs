//! engine `tendril`: op sequences over a pool of 4 tendrils (see
//! lean/H5V/Model/TendrilDriver.lean for the protocol), every format × both atomicities, with
//!  * a `Vec<u8>` pool maintained alongside (`ORACLE-MISMATCH` in the output on divergence),
//!  * the allocation ledger of `crate::alloc_ledger` (events per op, balance and anomalies at
//!    the end of the case),
//!  * a multi-thread family (atomicity field `T`): clones / subtendrils / SendTendrils of one
//!    buffer spread over 4 threads that run action scripts concurrently.
use crate::alloc_ledger::{self as ledger, Ev};
use crate::proto::*;
use std::panic::{catch_unwind, AssertUnwindSafe};
use tendril::fmt::{self, Format};
use tendril::{Atomic, Atomicity, NonAtomic, SendTendril, SubtendrilError, Tendril};

const SLOTS: usize = 4;

/// per-format capabilities that are not expressible generically (they need `SliceFormat` /
/// `CharFormat` bounds); `None` = the format does not offer the operation
trait Fm: Format + Sized + 'static {
    const NAME: &'static str;
    fn from_slice<A: Atomicity>(_b: &[u8]) -> Option<Tendril<Self, A>> {
        None
    }
    fn push_slice<A: Atomicity>(_t: &mut Tendril<Self, A>, _b: &[u8]) -> Option<()> {
        None
    }
    fn has_slice() -> bool {
        false
    }
    fn has_chars() -> bool {
        false
    }
    fn try_push_char<A: Atomicity>(_t: &mut Tendril<Self, A>, _c: char) -> Result<(), ()> {
        Err(())
    }
    fn pop_front_char<A: Atomicity>(_t: &mut Tendril<Self, A>) -> Option<char> {
        None
    }
    fn pop_front_char_run<A: Atomicity>(
        _t: &mut Tendril<Self, A>,
        _k: u32,
    ) -> Option<(Tendril<Self, A>, u32)> {
        None
    }
    fn set_byte<A: Atomicity>(_t: &mut Tendril<Self, A>, _k: usize, _v: u8) -> bool {
        false
    }
    /// `push_uninitialized(n)` followed by writing `v` into the new bytes
    fn push_uninit_filled<A: Atomicity>(_t: &mut Tendril<Self, A>, _n: u32, _v: u8) -> bool {
        false
    }
    /// independent validity check for the `Vec<u8>` oracle
    fn oracle_valid(b: &[u8]) -> bool;
}

fn classifier(k: u32, c: char) -> u32 {
    let c = c as u32;
    match k {
        0 => (c == 0x20 || c == 0x0A || c == 0x09) as u32,
        1 => (c < 0x80) as u32,
        _ => c % 2,
    }
}

macro_rules! char_impls {
    () => {
        fn has_chars() -> bool {
            true
        }
        fn try_push_char<A: Atomicity>(t: &mut Tendril<Self, A>, c: char) -> Result<(), ()> {
            t.try_push_char(c)
        }
        fn pop_front_char<A: Atomicity>(t: &mut Tendril<Self, A>) -> Option<char> {
            t.pop_front_char()
        }
        fn pop_front_char_run<A: Atomicity>(
            t: &mut Tendril<Self, A>,
            k: u32,
        ) -> Option<(Tendril<Self, A>, u32)> {
            t.pop_front_char_run(|c| classifier(k, c))
        }
    };
}

impl Fm for fmt::Bytes {
    const NAME: &'static str = "bytes";
    fn has_slice() -> bool {
        true
    }
    fn from_slice<A: Atomicity>(b: &[u8]) -> Option<Tendril<Self, A>> {
        Some(Tendril::from_slice(b))
    }
    fn push_slice<A: Atomicity>(t: &mut Tendril<Self, A>, b: &[u8]) -> Option<()> {
        t.push_slice(b);
        Some(())
    }
    fn set_byte<A: Atomicity>(t: &mut Tendril<Self, A>, k: usize, v: u8) -> bool {
        t[k] = v;
        true
    }
    fn push_uninit_filled<A: Atomicity>(t: &mut Tendril<Self, A>, n: u32, v: u8) -> bool {
        let old = t.len();
        unsafe { t.push_uninitialized(n) };
        for b in &mut t[old..] {
            *b = v;
        }
        true
    }
    fn oracle_valid(_: &[u8]) -> bool {
        true
    }
}
impl Fm for fmt::UTF8 {
    const NAME: &'static str = "utf8";
    fn has_slice() -> bool {
        true
    }
    fn from_slice<A: Atomicity>(b: &[u8]) -> Option<Tendril<Self, A>> {
        std::str::from_utf8(b).ok().map(Tendril::from_slice)
    }
    fn push_slice<A: Atomicity>(t: &mut Tendril<Self, A>, b: &[u8]) -> Option<()> {
        std::str::from_utf8(b).ok().map(|s| t.push_slice(s))
    }
    char_impls!();
    fn oracle_valid(b: &[u8]) -> bool {
        std::str::from_utf8(b).is_ok()
    }
}
impl Fm for fmt::ASCII {
    const NAME: &'static str = "ascii";
    char_impls!();
    fn oracle_valid(b: &[u8]) -> bool {
        b.iter().all(|&x| x < 0x80)
    }
}
impl Fm for fmt::Latin1 {
    const NAME: &'static str = "latin1";
    char_impls!();
    fn oracle_valid(_: &[u8]) -> bool {
        true
    }
}
impl Fm for fmt::WTF8 {
    const NAME: &'static str = "wtf8";
    fn oracle_valid(b: &[u8]) -> bool {
        wtf8_units(b).is_some()
    }
}

/// generalized UTF-8 decoder for the oracle: code points incl. surrogates, `None` if ill-formed or
/// if a lead surrogate is directly followed by a trail surrogate (not WTF-8)
fn wtf8_units(b: &[u8]) -> Option<Vec<(usize, u32)>> {
    let mut out = vec![];
    let mut i = 0;
    let mut prev_lead = false;
    while i < b.len() {
        let a = b[i];
        let (n, min, init) = match a {
            0x00..=0x7F => (1, 0, a as u32),
            0xC0..=0xDF => (2, 0x80, (a & 0x1F) as u32),
            0xE0..=0xEF => (3, 0x800, (a & 0x0F) as u32),
            0xF0..=0xF7 => (4, 0x10000, (a & 0x07) as u32),
            _ => return None,
        };
        if i + n > b.len() {
            return None;
        }
        let mut c = init;
        for k in 1..n {
            if b[i + k] & 0xC0 != 0x80 {
                return None;
            }
            c = (c << 6) | (b[i + k] & 0x3F) as u32;
        }
        if (n > 1 && c < min) || c > 0x10FFFF {
            return None;
        }
        let trail = (0xDC00..=0xDFFF).contains(&c);
        if trail && prev_lead {
            return None;
        }
        prev_lead = (0xD800..=0xDBFF).contains(&c);
        out.push((i, c));
        i += n;
    }
    Some(out)
}

fn show_events(evs: &[Ev]) -> String {
    if evs.is_empty() {
        return "-".into();
    }
    evs.iter()
        .map(|e| match e {
            // payload capacity = allocation size - size_of::<Header>()
            Ev::Alloc(s) => format!("A{}", s.wrapping_sub(16)),
            Ev::Free(s) => format!("F{}", s.wrapping_sub(16)),
        })
        .collect::<Vec<_>>()
        .join(" ")
}

fn kind_of<F: Fm, A: Atomicity>(t: &Tendril<F, A>) -> char {
    let d = format!("{:?}", t.as_bytes());
    if d.contains("(inline:") {
        'i'
    } else if d.contains("(owned:") {
        'o'
    } else {
        's'
    }
}

fn show_pool<F: Fm, A: Atomicity>(pool: &[Option<Tendril<F, A>>]) -> String {
    let mut parts = vec![];
    for (k, s) in pool.iter().enumerate() {
        match s {
            None => parts.push("-".to_string()),
            Some(t) => {
                let bytes = show_bytes(t.as_bytes());
                match kind_of(t) {
                    's' => {
                        let g = (0..pool.len())
                            .find(|&j| {
                                pool[j]
                                    .as_ref()
                                    .map(|u| u.is_shared() && u.is_shared_with(t))
                                    .unwrap_or(false)
                            })
                            .unwrap_or(k);
                        parts.push(format!("s{}:{}", g, bytes))
                    },
                    c => parts.push(format!("{}:{}", c, bytes)),
                }
            },
        }
    }
    parts.join("|")
}

fn sub_err(e: SubtendrilError) -> &'static str {
    match e {
        SubtendrilError::OutOfBounds => "oob",
        SubtendrilError::ValidationFailed => "inv",
    }
}

/// the `Vec<u8>` reference pool: what an independent owned-string model does
struct Oracle {
    pool: Vec<Option<Vec<u8>>>,
}

fn join_wtf8(a: &mut Vec<u8>, b: &[u8]) {
    // WTF-8 concatenation: a trailing lead surrogate + a leading trail surrogate become one
    // supplementary code point
    if a.len() >= 3 && b.len() >= 3 {
        let la = &a[a.len() - 3..];
        if la[0] == 0xED && (0xA0..=0xAF).contains(&la[1]) && b[0] == 0xED && (0xB0..=0xBF).contains(&b[1])
        {
            let hi = (((la[1] & 0x0F) as u32) << 6) | (la[2] & 0x3F) as u32;
            let lo = (((b[1] & 0x0F) as u32) << 6) | (b[2] & 0x3F) as u32;
            let c = 0x10000 + (hi << 10) + lo;
            let n = a.len() - 3;
            a.truncate(n);
            let ch = char::from_u32(c).unwrap();
            let mut tmp = [0u8; 4];
            a.extend_from_slice(ch.encode_utf8(&mut tmp).as_bytes());
            a.extend_from_slice(&b[3..]);
            return;
        }
    }
    a.extend_from_slice(b);
}

fn run_ops<F: Fm, A: Atomicity>(ops: &str) -> String {
    let mut pool: Vec<Option<Tendril<F, A>>> = (0..SLOTS).map(|_| None).collect();
    let mut orc = Oracle {
        pool: vec![None; SLOTS],
    };
    let wtf8 = F::NAME == "wtf8";
    let mut outs: Vec<String> = vec![];
    for op in ops.split(';') {
        let parts: Vec<&str> = op.trim().split(' ').collect();
        let idx = |s: &str| s.parse::<usize>().ok();
        let num = |s: &str| s.parse::<u32>().ok();
        let live = |pool: &Vec<Option<Tendril<F, A>>>, i: usize| i < SLOTS && pool[i].is_some();
        // every arm: Some((result string, expected result string per oracle)) or None = bad-op
        let mut expect: Option<String> = None;
        let res: Option<String> = (|| -> Option<String> {
            match parts.as_slice() {
                ["new", i] => {
                    let i = idx(i).filter(|&i| i < SLOTS)?;
                    let t = ledger::record(|| Tendril::<F, A>::new());
                    ledger::record(|| pool[i] = Some(t));
                    orc.pool[i] = Some(vec![]);
                    expect = Some("ok".into());
                    Some("ok".into())
                },
                ["from", i, rest @ ..] | ["slice", i, rest @ ..] => {
                    let i = idx(i).filter(|&i| i < SLOTS)?;
                    let b = parse_bytes(&rest.join(" "))?;
                    let is_slice = parts[0] == "slice";
                    if is_slice && !F::has_slice() {
                        return None;
                    }
                    let errs = if is_slice { "inv" } else { "err" };
                    let ok = F::oracle_valid(&b);
                    expect = Some(if ok { "ok".into() } else { errs.into() });
                    if ok {
                        orc.pool[i] = Some(b.clone());
                    }
                    let r = ledger::record(|| {
                        if is_slice {
                            F::from_slice::<A>(&b)
                        } else {
                            Tendril::<F, A>::try_from_byte_slice(&b).ok()
                        }
                    });
                    match r {
                        Some(t) => {
                            ledger::record(|| pool[i] = Some(t));
                            Some("ok".into())
                        },
                        None => Some(errs.into()),
                    }
                },
                ["push", i, rest @ ..] | ["pushs", i, rest @ ..] => {
                    let i = idx(i).filter(|&i| live(&pool, i))?;
                    let b = parse_bytes(&rest.join(" "))?;
                    let is_slice = parts[0] == "pushs";
                    if is_slice && !F::has_slice() {
                        return None;
                    }
                    let errs = if is_slice { "inv" } else { "err" };
                    let ok = F::oracle_valid(&b);
                    expect = Some(if ok { "ok".into() } else { errs.into() });
                    if ok {
                        let v = orc.pool[i].as_mut().unwrap();
                        if wtf8 {
                            join_wtf8(v, &b)
                        } else {
                            v.extend_from_slice(&b)
                        }
                    }
                    let t = pool[i].as_mut().unwrap();
                    let r = ledger::record(|| {
                        if is_slice {
                            F::push_slice(t, &b).is_some()
                        } else {
                            t.try_push_bytes(&b).is_ok()
                        }
                    });
                    Some(if r { "ok".into() } else { errs.into() })
                },
                ["pushc", i, c] => {
                    let i = idx(i).filter(|&i| live(&pool, i))?;
                    let c = u32::from_str_radix(c, 16).ok()?;
                    if !F::has_chars() {
                        return None;
                    }
                    let limit = match F::NAME {
                        "ascii" => 0x7F,
                        "latin1" => 0xFF,
                        _ => 0x10FFFF,
                    };
                    let ch = char::from_u32(c);
                    let ok = ch.is_some() && c <= limit;
                    expect = Some(if ok { "ok".into() } else { "err".into() });
                    if ok {
                        let v = orc.pool[i].as_mut().unwrap();
                        if F::NAME == "utf8" {
                            let mut tmp = [0u8; 4];
                            v.extend_from_slice(ch.unwrap().encode_utf8(&mut tmp).as_bytes());
                        } else {
                            v.push(c as u8);
                        }
                    }
                    match ch {
                        // not a `char`: the type system rejects the call; same answer as Err
                        None => Some("err".into()),
                        Some(ch) => {
                            let t = pool[i].as_mut().unwrap();
                            let r = ledger::record(|| F::try_push_char(t, ch));
                            Some(if r.is_ok() { "ok".into() } else { "err".into() })
                        },
                    }
                },
                ["pusht", i, j] => {
                    let i = idx(i).filter(|&i| live(&pool, i))?;
                    let j = idx(j).filter(|&j| live(&pool, j))?;
                    if i == j {
                        return None;
                    }
                    let o = orc.pool[j].clone().unwrap();
                    let v = orc.pool[i].as_mut().unwrap();
                    if wtf8 {
                        join_wtf8(v, &o)
                    } else {
                        v.extend_from_slice(&o)
                    }
                    expect = Some("ok".into());
                    // split the pool to borrow slot i mutably and slot j immutably
                    let (a, b) = pool.split_at_mut(i.max(j));
                    let (t, other) = if i < j {
                        (a[i].as_mut().unwrap(), b[0].as_ref().unwrap())
                    } else {
                        (b[0].as_mut().unwrap(), a[j].as_ref().unwrap())
                    };
                    ledger::record(|| t.push_tendril(other));
                    Some("ok".into())
                },
                [p @ ("popf" | "popb" | "tpopf" | "tpopb"), i, n] => {
                    let i = idx(i).filter(|&i| live(&pool, i))?;
                    let n = num(n)?;
                    let front = p.ends_with('f');
                    let checked = p.starts_with('t');
                    // oracle
                    {
                        let v = orc.pool[i].as_mut().unwrap();
                        let e = if n == 0 {
                            "ok"
                        } else if n as usize > v.len() {
                            "oob"
                        } else {
                            let rest: &[u8] = if front {
                                &v[n as usize..]
                            } else {
                                &v[..v.len() - n as usize]
                            };
                            if F::oracle_valid(rest) {
                                "ok"
                            } else {
                                "inv"
                            }
                        };
                        if e == "ok" {
                            if front {
                                v.drain(..n as usize);
                            } else {
                                let l = v.len() - n as usize;
                                v.truncate(l);
                            }
                        }
                        expect = Some(if checked || e == "ok" { e.into() } else { "panic".into() });
                    }
                    let t = pool[i].as_mut().unwrap();
                    if checked {
                        let r = ledger::record(|| {
                            if front {
                                t.try_pop_front(n)
                            } else {
                                t.try_pop_back(n)
                            }
                        });
                        Some(match r {
                            Ok(()) => "ok".into(),
                            Err(e) => sub_err(e).into(),
                        })
                    } else {
                        let r = catch_unwind(AssertUnwindSafe(|| {
                            ledger::record(|| if front { t.pop_front(n) } else { t.pop_back(n) })
                        }));
                        Some(if r.is_ok() { "ok".into() } else { "panic".into() })
                    }
                },
                [p @ ("sub" | "tsub"), i, j, off, len] => {
                    let i = idx(i).filter(|&i| live(&pool, i))?;
                    let j = idx(j).filter(|&j| j < SLOTS)?;
                    let off = num(off)?;
                    let len = num(len)?;
                    let checked = *p == "tsub";
                    {
                        let v = orc.pool[i].as_ref().unwrap();
                        let e = if off as usize > v.len() || len as usize > v.len() - off as usize {
                            "oob"
                        } else if F::oracle_valid(&v[off as usize..(off + len) as usize]) {
                            "ok"
                        } else {
                            "inv"
                        };
                        if e == "ok" {
                            let s = v[off as usize..(off + len) as usize].to_vec();
                            orc.pool[j] = Some(s);
                        }
                        expect = Some(if checked || e == "ok" { e.into() } else { "panic".into() });
                    }
                    let r = catch_unwind(AssertUnwindSafe(|| {
                        let t = pool[i].as_ref().unwrap();
                        ledger::record(|| {
                            if checked {
                                t.try_subtendril(off, len)
                            } else {
                                Ok(t.subtendril(off, len))
                            }
                        })
                    }));
                    Some(match r {
                        Err(_) => "panic".into(),
                        Ok(Err(e)) => sub_err(e).into(),
                        Ok(Ok(s)) => {
                            ledger::record(|| pool[j] = Some(s));
                            "ok".into()
                        },
                    })
                },
                ["clone", i, j] => {
                    let i = idx(i).filter(|&i| live(&pool, i))?;
                    let j = idx(j).filter(|&j| j < SLOTS)?;
                    orc.pool[j] = orc.pool[i].clone();
                    expect = Some("ok".into());
                    let c = ledger::record(|| pool[i].as_ref().unwrap().clone());
                    ledger::record(|| pool[j] = Some(c));
                    Some("ok".into())
                },
                ["clear", i] => {
                    let i = idx(i).filter(|&i| live(&pool, i))?;
                    orc.pool[i].as_mut().unwrap().clear();
                    expect = Some("ok".into());
                    let t = pool[i].as_mut().unwrap();
                    ledger::record(|| t.clear());
                    Some("ok".into())
                },
                ["drop", i] => {
                    let i = idx(i).filter(|&i| live(&pool, i))?;
                    orc.pool[i] = None;
                    expect = Some("ok".into());
                    ledger::record(|| pool[i] = None);
                    Some("ok".into())
                },
                ["popc", i] => {
                    let i = idx(i).filter(|&i| live(&pool, i))?;
                    if !F::has_chars() {
                        return None;
                    }
                    {
                        let v = orc.pool[i].as_mut().unwrap();
                        let e = if v.is_empty() {
                            "c=-".to_string()
                        } else if F::NAME == "utf8" {
                            let s = std::str::from_utf8(v).ok()?;
                            let c = s.chars().next().unwrap();
                            let n = c.len_utf8();
                            v.drain(..n);
                            format!("c={:x}", c as u32)
                        } else {
                            let c = v.remove(0);
                            format!("c={:x}", c)
                        };
                        expect = Some(e);
                    }
                    let t = pool[i].as_mut().unwrap();
                    let r = ledger::record(|| F::pop_front_char(t));
                    Some(match r {
                        None => "c=-".into(),
                        Some(c) => format!("c={:x}", c as u32),
                    })
                },
                ["popr", i, j, k] => {
                    let i = idx(i).filter(|&i| live(&pool, i))?;
                    let j = idx(j).filter(|&j| j < SLOTS && j != i)?;
                    let k = num(k).filter(|&k| k < 3)?;
                    if !F::has_chars() {
                        return None;
                    }
                    {
                        let v = orc.pool[i].as_mut().unwrap();
                        let chars: Vec<(usize, u32)> = if F::NAME == "utf8" {
                            std::str::from_utf8(v)
                                .ok()?
                                .char_indices()
                                .map(|(i, c)| (i, c as u32))
                                .collect()
                        } else {
                            v.iter().enumerate().map(|(i, &b)| (i, b as u32)).collect()
                        };
                        let e = if chars.is_empty() {
                            "r=-".to_string()
                        } else {
                            let cl = |c: u32| classifier(k, char::from_u32(c).unwrap());
                            let cls = cl(chars[0].1);
                            let cut = chars
                                .iter()
                                .find(|&&(_, c)| cl(c) != cls)
                                .map(|&(i, _)| i)
                                .unwrap_or(v.len());
                            let run: Vec<u8> = v.drain(..cut).collect();
                            orc.pool[j] = Some(run);
                            format!("r={}", cls)
                        };
                        expect = Some(e);
                    }
                    let t = pool[i].as_mut().unwrap();
                    let r = ledger::record(|| F::pop_front_char_run(t, k));
                    Some(match r {
                        None => "r=-".into(),
                        Some((run, cls)) => {
                            ledger::record(|| pool[j] = Some(run));
                            format!("r={}", cls)
                        },
                    })
                },
                ["send", i] => {
                    let i = idx(i).filter(|&i| live(&pool, i))?;
                    expect = Some("ok".into());
                    let t = pool[i].take().unwrap();
                    let back = ledger::record(|| {
                        let s: SendTendril<F> = t.into_send();
                        Tendril::<F, A>::from(s)
                    });
                    pool[i] = Some(back);
                    Some("ok".into())
                },
                ["reserve", i, n] => {
                    let i = idx(i).filter(|&i| live(&pool, i))?;
                    let n = num(n)?;
                    // a request that cannot be met panics ("tendril: overflow in buffer arithmetic")
                    // before anything is touched: the tendril must stay intact and owned once
                    let t = pool[i].as_mut().unwrap();
                    let r = catch_unwind(AssertUnwindSafe(|| ledger::record(|| t.reserve(n))));
                    expect = Some(if r.is_ok() { "ok".into() } else { "panic".into() });
                    Some(if r.is_ok() { "ok".into() } else { "panic".into() })
                },
                ["pushu", i, n] => {
                    // push_uninitialized (unsafe, public): bytes format only, the new bytes are then written
                    let i = idx(i).filter(|&i| live(&pool, i))?;
                    let n = num(n)?;
                    if F::NAME != "bytes" || n > 70000 {
                        return None;
                    }
                    let o = orc.pool[i].as_mut().unwrap();
                    let old = o.len();
                    o.extend(std::iter::repeat(0x61u8).take(n as usize));
                    expect = Some("ok".into());
                    let _ = old;
                    let t = pool[i].as_mut().unwrap();
                    if !ledger::record(|| F::push_uninit_filled(t, n, 0x61)) {
                        return Some("err".into());
                    }
                    Some("ok".into())
                },
                ["withcap", i, n] => {
                    let i = idx(i).filter(|&i| i < SLOTS)?;
                    let n = num(n)?;
                    // a capacity that cannot be met panics and creates nothing (the slot keeps its tendril)
                    match catch_unwind(AssertUnwindSafe(|| ledger::record(|| Tendril::<F, A>::with_capacity(n)))) {
                        Ok(t) => {
                            expect = Some("ok".into());
                            orc.pool[i] = Some(vec![]);
                            ledger::record(|| pool[i] = Some(t));
                            Some("ok".into())
                        },
                        Err(_) => {
                            expect = Some("panic".into());
                            Some("panic".into())
                        },
                    }
                },
                ["setb", i, k, v] => {
                    let i = idx(i).filter(|&i| live(&pool, i))?;
                    let k = idx(k)?;
                    let v = u8::from_str_radix(v, 16).ok()?;
                    if F::NAME != "bytes" {
                        return None;
                    }
                    {
                        let o = orc.pool[i].as_mut().unwrap();
                        if k < o.len() {
                            o[k] = v;
                            expect = Some("ok".into());
                        } else {
                            expect = Some("panic".into());
                        }
                    }
                    let t = pool[i].as_mut().unwrap();
                    let r = catch_unwind(AssertUnwindSafe(|| ledger::record(|| F::set_byte(t, k, v))));
                    Some(if r.is_ok() { "ok".into() } else { "panic".into() })
                },
                _ => None,
            }
        })();
        let evs = ledger::take_events();
        let mut r = match res {
            Some(r) => r,
            None => "bad-op".to_string(),
        };
        // harness-internal oracle: result code and bytes of every slot
        if let Some(e) = &expect {
            if res_differs(&r, e) {
                r.push_str(&format!(" ORACLE-MISMATCH(result want {})", e));
            }
        }
        for k in 0..SLOTS {
            let got = pool[k].as_ref().map(|t| t.as_bytes().to_vec());
            if r != "bad-op" && got != orc.pool[k] {
                r.push_str(&format!(" ORACLE-MISMATCH(slot {})", k));
                // resynchronise so that one divergence is reported once
                orc.pool[k] = got;
            }
        }
        outs.push(format!("{}|{}|{}", r, show_events(&evs), show_pool(&pool)));
    }
    ledger::record(|| {
        for s in pool.iter_mut() {
            *s = None;
        }
    });
    let evs = ledger::take_events();
    let live = ledger::live();
    let anomalies = ledger::end_case();
    let mut fin = format!("end|{}|live={}", show_events(&evs), live);
    for a in anomalies {
        fin.push_str(" !");
        fin.push_str(&a);
    }
    outs.push(fin);
    outs.join(";")
}

fn res_differs(got: &str, want: &str) -> bool {
    got != want
}

// ------------------------------------------------------------------ multi-thread family

fn checksum(acc: u64, b: &[u8]) -> u64 {
    let mut h = acc ^ 0xcbf29ce484222325;
    for &x in b {
        h = (h ^ x as u64).wrapping_mul(0x100000001b3);
    }
    h.wrapping_mul(31).wrapping_add(b.len() as u64)
}

/// one thread's script over its own vector of tendrils; returns a checksum of every tendril's
/// bytes after every action (no allocation besides tendril's own)
fn run_script<F: Fm, A: Atomicity>(ts: &mut Vec<Tendril<F, A>>, script: &str) -> u64 {
    let mut cs: u64 = 0;
    for a in script.chars() {
        match a {
            'c' => {
                if let Some(t) = ts.last() {
                    if ts.len() < ts.capacity() {
                        let c = t.clone();
                        ts.push(c);
                    }
                }
            },
            'd' => {
                if !ts.is_empty() {
                    ts.remove(0);
                }
            },
            'D' => {
                ts.pop();
            },
            'p' => {
                if let Some(t) = ts.first_mut() {
                    let _ = t.try_push_bytes(b"x");
                }
            },
            's' => {
                if let Some(t) = ts.first() {
                    let l = t.len32();
                    if l >= 2 && ts.len() < ts.capacity() {
                        if let Ok(s) = t.try_subtendril(1, l - 2) {
                            ts.push(s);
                        }
                    }
                }
            },
            'f' => {
                if let Some(t) = ts.first_mut() {
                    let _ = t.try_pop_front(1);
                }
            },
            'b' => {
                if let Some(t) = ts.last_mut() {
                    let _ = t.try_pop_back(1);
                }
            },
            'y' => std::thread::yield_now(),
            _ => {},
        }
        for t in ts.iter() {
            cs = checksum(cs, t.as_bytes());
        }
    }
    cs
}

/// case: `L=<len>,K=<clones per thread>,M=<a|s|n>,D=<b|a>` `;` 4 scripts
/// M = a: Atomic clones of one buffer; s: Atomic subtendrils (offset k, len L-2k) of one buffer;
///     n: NonAtomic tendrils moved as SendTendril (each thread gets private copies)
/// D = main drops its base tendril before (b) or after (a) joining
/// case `R=<rounds>`: the last two references to one Atomic buffer are dropped by two threads at (as nearly as a spin
/// rendezvous allows) the same moment, `rounds` times with a sweep of small delays; afterwards no recorded block may
/// be live and the ledger must have seen no double free: "freed exactly once" under concurrent drops
fn run_race<F: Fm>(rounds: usize) -> String {
    use std::sync::atomic::{AtomicUsize, Ordering::SeqCst};
    use std::sync::{Arc, Mutex};
    if rounds == 0 || rounds > 2_000_000 {
        return "bad-case".into();
    }
    let data: Vec<u8> = (0..33usize).map(|i| b'a' + (i % 26) as u8).collect();
    let go = Arc::new(AtomicUsize::new(0));
    let done = Arc::new(AtomicUsize::new(0));
    let slots: Vec<Arc<Mutex<Option<Tendril<F, Atomic>>>>> = (0..2).map(|_| Arc::new(Mutex::new(None))).collect();
    let mut handles = vec![];
    let mut live = 0usize;
    let mut anomalies: Vec<String> = vec![];
    for w in 0..2usize {
        let (go, done, slot) = (go.clone(), done.clone(), slots[w].clone());
        handles.push(std::thread::spawn(move || {
            for r in 1..=rounds {
                while go.load(SeqCst) < r {
                    std::hint::spin_loop();
                }
                let t = slot.lock().unwrap().take();
                // delay sweep: worker 0 waits 0..15 spins, worker 1 the complement
                let d = if w == 0 { r % 16 } else { 15 - r % 16 };
                for _ in 0..d {
                    std::hint::spin_loop();
                }
                ledger::record_quiet(|| drop(t));
                done.fetch_add(1, SeqCst);
            }
        }));
    }
    for r in 1..=rounds {
        let (a, b) = ledger::record_quiet(|| {
            let a = Tendril::<F, Atomic>::try_from_byte_slice(&data).unwrap();
            let b = a.clone();
            (a, b)
        });
        *slots[0].lock().unwrap() = Some(a);
        *slots[1].lock().unwrap() = Some(b);
        go.store(r, SeqCst);
        while done.load(SeqCst) < 2 * r {
            std::hint::spin_loop();
        }
        // the ledger keeps freed blocks in quarantine: settle the books every 1000 rounds (both drops of every round
        // so far have completed)
        if r % 1000 == 0 || r == rounds {
            let _ = ledger::take_events();
            live += ledger::live();
            for a in ledger::end_case() {
                if anomalies.len() < 4 {
                    anomalies.push(a);
                }
            }
        }
    }
    for h in handles {
        let _ = h.join();
    }
    let mut out = format!("race|rounds={}|live={}", rounds, live);
    for a in anomalies {
        out.push_str(" !");
        out.push_str(&a);
    }
    out
}

fn run_threads<F: Fm>(spec: &str) -> String {
    if let Some(n) = spec.strip_prefix("R=") {
        return match n.parse::<usize>() {
            Ok(n) => run_race::<F>(n),
            Err(_) => "bad-case".into(),
        };
    }
    let mut it = spec.split(';');
    let head = it.next().unwrap_or("");
    let scripts: Vec<String> = it.map(|s| s.trim().to_string()).collect();
    if scripts.len() != 4 {
        return "bad-case".into();
    }
    let (mut l, mut k, mut m, mut d) = (33usize, 2usize, 'a', 'a');
    for kv in head.split(',') {
        let kv = kv.trim();
        if let Some(v) = kv.strip_prefix("L=") {
            l = match v.parse() {
                Ok(x) => x,
                Err(_) => return "bad-case".into(),
            };
        } else if let Some(v) = kv.strip_prefix("K=") {
            k = match v.parse() {
                Ok(x) => x,
                Err(_) => return "bad-case".into(),
            };
        } else if let Some(v) = kv.strip_prefix("M=") {
            m = v.chars().next().unwrap_or('?');
        } else if let Some(v) = kv.strip_prefix("D=") {
            d = v.chars().next().unwrap_or('?');
        } else {
            return "bad-case".into();
        }
    }
    if !matches!(m, 'a' | 's' | 'n') || !matches!(d, 'a' | 'b') || l > 4096 || k > 16 {
        return "bad-case".into();
    }
    let data: Vec<u8> = (0..l).map(|i| b'a' + (i % 26) as u8).collect();
    let cap = k + scripts.iter().map(|s| s.len()).max().unwrap_or(0) + 1;
    let mut handles = vec![];
    let mut sums = vec![0u64; 4];
    if m == 'n' {
        let mut sends: Vec<Vec<SendTendril<F>>> = vec![];
        for _ in 0..4 {
            let mut v = Vec::with_capacity(cap);
            for j in 0..k {
                let t = ledger::record_quiet(|| {
                    let base = Tendril::<F, NonAtomic>::try_from_byte_slice(&data).unwrap();
                    // shared / owned / inline variety before into_send
                    let u = if j % 2 == 0 { base.clone() } else { base.subtendril(0, (l as u32).min(5)) };
                    drop(base);
                    u.into_send()
                });
                v.push(t);
            }
            sends.push(v);
        }
        for (ti, v) in sends.into_iter().enumerate() {
            let script = scripts[ti].clone();
            handles.push(std::thread::spawn(move || {
                let mut ts: Vec<Tendril<F, NonAtomic>> = Vec::with_capacity(cap);
                let mut v = v;
                ledger::record_quiet(|| {
                    for s in v.drain(..) {
                        ts.push(Tendril::from(s));
                    }
                    let cs = run_script(&mut ts, &script);
                    ts.clear();
                    cs
                })
            }));
        }
        for (ti, h) in handles.into_iter().enumerate() {
            sums[ti] = h.join().unwrap_or(0xdead);
        }
    } else {
        let base = ledger::record_quiet(|| Tendril::<F, Atomic>::try_from_byte_slice(&data).unwrap());
        let mut per: Vec<Vec<Tendril<F, Atomic>>> = vec![];
        for _ in 0..4 {
            let mut v = Vec::with_capacity(cap);
            for j in 0..k {
                let t = ledger::record_quiet(|| {
                    if m == 'a' || l < 2 * (j + 1) {
                        base.clone()
                    } else {
                        base.subtendril(j as u32, (l - 2 * j) as u32)
                    }
                });
                v.push(t);
            }
            per.push(v);
        }
        for (ti, v) in per.into_iter().enumerate() {
            let script = scripts[ti].clone();
            handles.push(std::thread::spawn(move || {
                let mut ts = v;
                ledger::record_quiet(|| {
                    let cs = run_script(&mut ts, &script);
                    ts.clear();
                    cs
                })
            }));
        }
        if d == 'b' {
            ledger::record_quiet(|| drop(base));
            for (ti, h) in handles.into_iter().enumerate() {
                sums[ti] = h.join().unwrap_or(0xdead);
            }
        } else {
            for (ti, h) in handles.into_iter().enumerate() {
                sums[ti] = h.join().unwrap_or(0xdead);
            }
            ledger::record_quiet(|| drop(base));
        }
    }
    let _ = ledger::take_events();
    let live = ledger::live();
    let anomalies = ledger::end_case();
    let mut out = format!(
        "thr|{:x}|{:x}|{:x}|{:x}|live={}",
        sums[0], sums[1], sums[2], sums[3], live
    );
    for a in anomalies {
        out.push_str(" !");
        out.push_str(&a);
    }
    out
}

pub fn run(fields: &[&str]) -> String {
    if fields.len() != 3 {
        return "bad-case".into();
    }
    macro_rules! go {
        ($f:ty) => {
            match fields[1] {
                "N" => run_ops::<$f, NonAtomic>(fields[2]),
                "A" => run_ops::<$f, Atomic>(fields[2]),
                "T" => run_threads::<$f>(fields[2]),
                _ => "bad-case".into(),
            }
        };
    }
    match fields[0] {
        "bytes" => go!(fmt::Bytes),
        "utf8" => go!(fmt::UTF8),
        "ascii" => go!(fmt::ASCII),
        "latin1" => go!(fmt::Latin1),
        "wtf8" => go!(fmt::WTF8),
        _ => "bad-case".into(),
    }
}
