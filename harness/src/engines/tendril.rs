//! engine `tendril` (stub)
pub fn run(_fields: &[&str]) -> String {
    "unimplemented".to_string()
}
