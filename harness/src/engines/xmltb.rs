//! engine `xmltb`: the real xml5ever tree builder (and, in `src` mode, the real tokenizer) into RcDom.
//!
//! case fields:
//!   `tok <tokens>`            tokens fed straight into `XmlTreeBuilder::process_token`, then `end()`
//!   `src <chunks> <rawtoks>`  XML text chunks (space-hex, `|`-separated) through `parse_document`;
//!                             the third field (the raw token list the text was rendered from) is for
//!                             the Lean model only and is ignored here
//! token syntax (`;`-separated, parts `,`-separated, strings = `.`-joined hex code points, `-` empty,
//! `~` = None):  `S|M|E|H,prefix,local(,aprefix,alocal,avalue)*`  `T,text`  `C,text`  `P,target,data`
//!               `D,name,public,system`  `N` (NullCharacter)  `Z` (EndOfFile)
//! output: `err=<codes>;tree=<dump>` — see `dump_children`; lean/H5V/Model/XmlTBDriver.lean prints the same.
use crate::proto::parse_string;
use markup5ever::{Attribute, LocalName, Namespace, Prefix, QualName};
use markup5ever_rcdom::{Handle, NodeData, RcDom};
use tendril::{StrTendril, TendrilSink};
use xml5ever::driver::parse_document;
use xml5ever::tokenizer::{Doctype, Pi, Tag, TagKind, Token, TokenSink};
use xml5ever::tree_builder::{XmlTreeBuilder, XmlTreeBuilderOpts};

pub fn dhex(s: &str) -> String {
    if s.is_empty() {
        return "-".into();
    }
    let v: Vec<String> = s.chars().map(|c| format!("{:x}", c as u32)).collect();
    v.join(".")
}

pub fn undhex(s: &str) -> Option<String> {
    if s == "-" {
        return Some(String::new());
    }
    if s.is_empty() {
        return None;
    }
    s.split('.')
        .map(|x| {
            if x.is_empty() {
                return None;
            }
            u32::from_str_radix(x, 16).ok().and_then(char::from_u32)
        })
        .collect()
}

fn opt_dhex(s: Option<&str>) -> String {
    match s {
        None => "~".into(),
        Some(s) => dhex(s),
    }
}

pub fn undhex_opt(s: &str) -> Option<Option<String>> {
    if s == "~" {
        Some(None)
    } else {
        undhex(s).map(Some)
    }
}

fn dump_name(n: &QualName) -> String {
    format!(
        "{}:{}:{}",
        opt_dhex(n.prefix.as_ref().map(|p| &**p)),
        dhex(&n.ns),
        dhex(&n.local)
    )
}

pub fn dump_node(h: &Handle, out: &mut String) {
    match &h.data {
        NodeData::Document => out.push_str("DOC"),
        NodeData::Doctype {
            name,
            public_id,
            system_id,
        } => out.push_str(&format!(
            "d[{}:{}:{}]",
            dhex(name),
            dhex(public_id),
            dhex(system_id)
        )),
        NodeData::Text { contents } => out.push_str(&format!("t[{}]", dhex(&contents.borrow()))),
        NodeData::Comment { contents } => out.push_str(&format!("c[{}]", dhex(contents))),
        NodeData::ProcessingInstruction { target, contents } => {
            out.push_str(&format!("p[{}:{}]", dhex(target), dhex(contents)))
        },
        NodeData::Element { name, attrs, .. } => {
            out.push_str("e[");
            out.push_str(&dump_name(name));
            for a in attrs.borrow().iter() {
                out.push(' ');
                out.push_str(&dump_name(&a.name));
                out.push('=');
                out.push_str(&dhex(&a.value));
            }
            out.push_str("](");
            dump_children(h, out);
            out.push(')');
        },
    }
}

pub fn dump_children(h: &Handle, out: &mut String) {
    for c in h.children.borrow().iter() {
        dump_node(c, out);
    }
}

pub fn err_code(msg: &str) -> Option<&'static str> {
    Some(match msg {
        "Can't declare XMLNS URI" => "xu",
        "XML namespace can't be redeclared" => "xr",
        "XMLNS namespaces can't be changed" => "xc",
        "Namespace already defined" => "ad",
        "Invalid namespace declaration." => "iv",
        "No appropriate namespace found" => "nf",
        "Unexpected EOF in start phase" => "es",
        "Unexpected element in start phase" => "us",
        "Unexpected element in main phase" => "um",
        "Unexpected element in end phase" => "ue",
        "Current node doesn't match tag" => "cm",
        "Unexpected second DOCTYPE in start phase" => "sd",
        _ => return None,
    })
}

pub fn dump_dom(dom: &RcDom) -> String {
    let codes: Vec<&str> = dom
        .errors
        .borrow()
        .iter()
        .filter_map(|e| err_code(e))
        .collect();
    let mut tree = String::new();
    dump_children(&dom.document, &mut tree);
    format!(
        "err={};tree={}",
        if codes.is_empty() {
            "-".to_string()
        } else {
            codes.join(",")
        },
        if tree.is_empty() { "-" } else { &tree }
    )
}

fn mk_name(prefix: &str, local: &str) -> Option<QualName> {
    let p = undhex_opt(prefix)?;
    let l = undhex(local)?;
    Some(QualName::new(
        p.map(|p| Prefix::from(&*p)),
        Namespace::from(""),
        LocalName::from(&*l),
    ))
}

fn parse_token(s: &str) -> Option<Token> {
    let parts: Vec<&str> = s.split(',').collect();
    let opt_t = |x: &str| -> Option<Option<StrTendril>> {
        undhex_opt(x).map(|o| o.map(|s| StrTendril::from_slice(&s)))
    };
    match parts.as_slice() {
        [k @ ("S" | "M" | "E" | "H"), prefix, local, rest @ ..] => {
            if rest.len() % 3 != 0 {
                return None;
            }
            let mut attrs = vec![];
            for a in rest.chunks(3) {
                attrs.push(Attribute {
                    name: mk_name(a[0], a[1])?,
                    value: StrTendril::from_slice(&undhex(a[2])?),
                });
            }
            Some(Token::Tag(Tag {
                kind: match *k {
                    "S" => TagKind::StartTag,
                    "M" => TagKind::EmptyTag,
                    "E" => TagKind::EndTag,
                    _ => TagKind::ShortTag,
                },
                name: mk_name(prefix, local)?,
                attrs,
            }))
        },
        ["T", t] => Some(Token::Characters(StrTendril::from_slice(&undhex(t)?))),
        ["C", t] => Some(Token::Comment(StrTendril::from_slice(&undhex(t)?))),
        ["P", t, d] => Some(Token::ProcessingInstruction(Pi {
            target: StrTendril::from_slice(&undhex(t)?),
            data: StrTendril::from_slice(&undhex(d)?),
        })),
        ["D", n, p, s] => Some(Token::Doctype(Doctype {
            name: opt_t(n)?,
            public_id: opt_t(p)?,
            system_id: opt_t(s)?,
        })),
        ["N"] => Some(Token::NullCharacter),
        ["Z"] => Some(Token::EndOfFile),
        _ => None,
    }
}

pub fn parse_tokens(s: &str) -> Option<Vec<Token>> {
    if s == "-" {
        return Some(vec![]);
    }
    s.split(';').map(parse_token).collect()
}

/// parse XML text given as `|`-separated space-hex chunks with the real tokenizer + tree builder
pub fn parse_chunks(field: &str) -> Option<RcDom> {
    let mut chunks = vec![];
    for c in field.split('|') {
        chunks.push(parse_string(c)?);
    }
    let mut parser = parse_document(RcDom::default(), Default::default());
    for c in chunks {
        parser.process(StrTendril::from_slice(&c));
    }
    Some(parser.finish())
}

pub fn run(fields: &[&str]) -> String {
    match fields {
        ["tok", toks] => {
            let Some(toks) = parse_tokens(toks) else {
                return "bad-case".into();
            };
            let tb = XmlTreeBuilder::new(RcDom::default(), XmlTreeBuilderOpts::default());
            for t in toks {
                let _ = tb.process_token(t);
            }
            tb.end();
            dump_dom(&tb.sink)
        },
        // the sink-call trace of the real XmlTreeBuilder fed these tokens (TracingSink<RcDom>: every TreeSink call with
        // numbered handles, contract violations), and after every token the handles `trace_handles` reports
        ["trace", toks] => {
            use crate::sinkops::{IdTracer, TracingSink};
            let Some(toks) = parse_tokens(toks) else {
                return "bad-case".into();
            };
            let sink: TracingSink<RcDom> = TracingSink::new(RcDom::default(), true);
            let tb = XmlTreeBuilder::new(sink, XmlTreeBuilderOpts::default());
            let mut held: Vec<String> = vec![];
            for t in toks {
                let _ = tb.process_token(t);
                let tr: IdTracer<Handle> = IdTracer::default();
                tb.trace_handles(&tr);
                let ids: Vec<String> = tr.ids.borrow().iter().map(|i| i.to_string()).collect();
                held.push(if ids.is_empty() { "-".to_string() } else { ids.join(",") });
            }
            tb.end();
            let trace = tb.sink.trace.borrow();
            let viol = tb.sink.violations.borrow();
            let v = if viol.is_empty() {
                "-".to_string()
            } else {
                viol.iter()
                    .map(|(i, w)| format!("{}:CONTRACT-VIOLATION {}", i, w))
                    .collect::<Vec<_>>()
                    .join("|")
            };
            format!(
                "{}@V={}@H={}",
                if trace.is_empty() { "-".to_string() } else { trace.join(";") },
                v,
                if held.is_empty() { "-".to_string() } else { held.join("/") }
            )
        },
        ["src", chunks, _raw] => match parse_chunks(chunks) {
            Some(dom) => dump_dom(&dom),
            None => "bad-case".into(),
        },
        _ => "bad-case".into(),
    }
}
