//! engine `tendril2`: the part of tendril's public API that the op-history engine `tendril` does
//! not reach (conversions between formats, comparison / hashing, the std trait impls, io / fmt
//! writers, `read_to_tendril`, the `Extend` / `FromIterator` family, `TendrilSink` helpers).
//!
//! One case = one pure function of its inputs, judged by a Python oracle only (no Lean model):
//!
//!   tendril2 <TAB> op <TAB> fmt <TAB> N|A <TAB> operand…
//!
//! A byte operand is `<shape>:<bytes>`, bytes = space-separated hex, `-` = empty, or
//! `*<n>*<pattern>` = the pattern repeated up to n bytes.  Shapes: `r` raw bytes (no tendril);
//! tendrils `i` as built by try_from_byte_slice (inline ≤ 8 bytes, else owned), `o` owned (reserve),
//! `s` shared (a clone is kept alive), `x` shared with offset (subtendril of a longer buffer that is
//! kept alive; inline when ≤ 8 bytes), `p` sole owner with offset (pop_front / pop_back of a longer
//! buffer).  Other operands are words (decimal numbers, comma lists, format names).
//! An operand tendril that is not valid for the format answers `invalid-input`.
//!
//! Output: `<op specific fields> keep=ok@ledger=ok`.  `keep` = every tendril kept alive beside the
//! operands still holds its bytes after the op; `@ledger` = balance of `crate::alloc_ledger` over the
//! whole case (everything allocated inside the window is released once, no anomaly).  Byte strings
//! longer than 600 bytes are printed as `#<len>:<fnv1a-64>`.
use crate::alloc_ledger as ledger;
use crate::proto::parse_bytes;
use std::borrow::Borrow;
use std::cell::{Cell, RefCell};
use std::collections::hash_map::DefaultHasher;
use std::collections::HashMap;
use std::fmt::Write as FmtWrite;
use std::hash::{Hash, Hasher};
use std::io::{self, Read, Write as IoWrite};
use std::panic::{catch_unwind, AssertUnwindSafe};
use tendril::fmt::{self, Format};
use tendril::{Atomic, Atomicity, NonAtomic, ReadExt, SendTendril, SliceExt, Tendril, TendrilSink};

enum Arg {
    /// shape, bytes
    B(char, Vec<u8>),
    W(String),
}

struct Case<'a> {
    op: &'a str,
    fmt: &'a str,
    args: Vec<Arg>,
}

fn parse_spec(s: &str) -> Option<Vec<u8>> {
    if let Some(rest) = s.strip_prefix('*') {
        let (n, pat) = rest.split_once('*')?;
        let n: usize = n.parse().ok()?;
        let p = parse_bytes(pat)?;
        if p.is_empty() || n > (1 << 20) {
            return None;
        }
        Some((0..n).map(|i| p[i % p.len()]).collect())
    } else {
        parse_bytes(s)
    }
}

fn parse_arg(s: &str) -> Option<Arg> {
    let b = s.as_bytes();
    if b.len() >= 2 && b[1] == b':' && b"iosxpr".contains(&b[0]) {
        Some(Arg::B(b[0] as char, parse_spec(&s[2..])?))
    } else {
        Some(Arg::W(s.to_string()))
    }
}

// ------------------------------------------------------------------ printing (allocation-light)

fn fnv(b: &[u8]) -> u64 {
    let mut h: u64 = 0xcbf29ce484222325;
    for &x in b {
        h = (h ^ x as u64).wrapping_mul(0x100000001b3);
    }
    h
}

fn hexs(b: &[u8]) -> String {
    if b.is_empty() {
        return "-".into();
    }
    if b.len() > 600 {
        return format!("#{}:{:x}", b.len(), fnv(b));
    }
    let mut s = String::with_capacity(3 * b.len());
    for (i, x) in b.iter().enumerate() {
        if i > 0 {
            s.push(' ');
        }
        let _ = write!(s, "{:x}", x);
    }
    s
}

fn bit(b: bool) -> char {
    if b {
        '1'
    } else {
        '0'
    }
}

/// representation as reported by the Debug impl (of the bytes view: every format has that one)
fn kind<F: Format, A: Atomicity>(t: &Tendril<F, A>) -> char {
    let d = format!("{:?}", t.as_bytes());
    if d.contains("(inline:") {
        'i'
    } else if d.contains("(owned:") {
        'o'
    } else if d.contains("(shared:") {
        's'
    } else {
        '?'
    }
}

fn kb<F: Format, A: Atomicity>(t: &Tendril<F, A>) -> String {
    format!("{}:{}", kind(t), hexs(t.as_bytes()))
}

// ------------------------------------------------------------------ operands

const PAD: &[u8] = b"<<<";

type Keep<F, A> = Vec<(Tendril<F, A>, Vec<u8>)>;

/// why a case cannot run: `invalid-input` (operand not valid for the format), `bad-op`, `bad-case`
type R<T> = Result<T, &'static str>;

fn build<F: Format, A: Atomicity>(shape: char, b: &[u8], keep: &mut Keep<F, A>) -> R<Tendril<F, A>> {
    let base = Tendril::<F, A>::try_from_byte_slice(b).map_err(|_| "invalid-input")?;
    match shape {
        'i' => Ok(base),
        'o' => {
            let mut t = base;
            t.reserve(16);
            Ok(t)
        },
        's' => {
            let mut t = base;
            if b.len() <= 8 {
                t.reserve(16);
            }
            keep.push((t.clone(), b.to_vec()));
            Ok(t)
        },
        'x' | 'p' => {
            drop(base);
            let mut whole = Vec::with_capacity(b.len() + 6);
            whole.extend_from_slice(PAD);
            whole.extend_from_slice(b);
            whole.extend_from_slice(PAD);
            let mut w = Tendril::<F, A>::try_from_byte_slice(&whole).map_err(|_| "invalid-input")?;
            if shape == 'x' {
                let t = w.try_subtendril(3, b.len() as u32).map_err(|_| "invalid-input")?;
                keep.push((w, whole));
                Ok(t)
            } else {
                w.try_pop_front(3).map_err(|_| "invalid-input")?;
                w.try_pop_back(3).map_err(|_| "invalid-input")?;
                Ok(w)
            }
        },
        _ => Err("bad-case"),
    }
}

impl<'a> Case<'a> {
    fn bytes(&self, k: usize) -> R<(char, &[u8])> {
        match self.args.get(k) {
            Some(Arg::B(s, b)) => Ok((*s, b)),
            _ => Err("bad-case"),
        }
    }
    fn raw(&self, k: usize) -> R<&[u8]> {
        match self.args.get(k) {
            Some(Arg::B('r', b)) => Ok(b),
            _ => Err("bad-case"),
        }
    }
    fn word(&self, k: usize) -> R<&str> {
        match self.args.get(k) {
            Some(Arg::W(w)) => Ok(w),
            _ => Err("bad-case"),
        }
    }
    fn num(&self, k: usize) -> R<i64> {
        self.word(k)?.parse::<i64>().map_err(|_| "bad-case")
    }
    fn arity(&self, n: usize) -> R<()> {
        if self.args.len() == n {
            Ok(())
        } else {
            Err("bad-case")
        }
    }
    fn tendril<F: Format, A: Atomicity>(&self, k: usize, keep: &mut Keep<F, A>) -> R<Tendril<F, A>> {
        let (s, b) = self.bytes(k)?;
        if s == 'r' {
            return Err("bad-case");
        }
        build(s, b, keep)
    }
    fn str(&self, k: usize) -> R<&str> {
        std::str::from_utf8(self.raw(k)?).map_err(|_| "invalid-input")
    }
}

fn keep_ok<F: Format, A: Atomicity>(keep: &Keep<F, A>) -> bool {
    keep.iter().all(|(t, b)| &t.as_bytes()[..] == &b[..])
}

/// independent of the code under test: is it sound to look at these bytes as `name` without validation?
fn sound_as(name: &str, b: &[u8]) -> bool {
    match name {
        "bytes" | "latin1" => true,
        "ascii" => b.iter().all(|&x| x < 0x80),
        _ => std::str::from_utf8(b).is_ok(),
    }
}

fn hash_of<T: Hash + ?Sized>(x: &T) -> u64 {
    let mut h = DefaultHasher::new();
    x.hash(&mut h);
    h.finish()
}

// ------------------------------------------------------------------ readers and sinks

struct Chunked<'a> {
    data: &'a [u8],
    pos: usize,
    chunks: &'a [usize],
    k: usize,
    call: usize,
    intr: usize,
    errat: Option<usize>,
}

impl<'a> Read for Chunked<'a> {
    fn read(&mut self, buf: &mut [u8]) -> io::Result<usize> {
        self.call += 1;
        if self.intr != 0 && self.call % self.intr == 0 {
            return Err(io::Error::from(io::ErrorKind::Interrupted));
        }
        if let Some(e) = self.errat {
            if self.pos >= e {
                return Err(io::Error::from(io::ErrorKind::Other));
            }
        }
        let c = self.chunks[self.k % self.chunks.len()];
        self.k += 1;
        let mut n = c.min(buf.len()).min(self.data.len() - self.pos);
        if let Some(e) = self.errat {
            n = n.min(e - self.pos);
        }
        buf[..n].copy_from_slice(&self.data[self.pos..self.pos + n]);
        self.pos += n;
        Ok(n)
    }
}

fn reader_args<'a>(c: &'a Case, k: usize) -> R<(&'a [u8], Vec<usize>, usize, Option<usize>)> {
    let data = c.raw(k)?;
    let mut chunks = Vec::new();
    for w in c.word(k + 1)?.split(',') {
        let n: usize = w.parse().map_err(|_| "bad-case")?;
        if n == 0 {
            return Err("bad-case");
        }
        chunks.push(n);
    }
    let intr = c.num(k + 2)?;
    if intr == 1 || intr < 0 {
        return Err("bad-case");
    }
    let errat = c.num(k + 3)?;
    Ok((data, chunks, intr as usize, if errat < 0 { None } else { Some(errat as usize) }))
}

struct Collect<'a, A: Atomicity> {
    out: &'a RefCell<Vec<Tendril<fmt::Bytes, A>>>,
    fin: &'a Cell<u32>,
}

impl<'a, A: Atomicity> TendrilSink<fmt::Bytes, A> for Collect<'a, A> {
    fn process(&mut self, t: Tendril<fmt::Bytes, A>) {
        self.out.borrow_mut().push(t);
    }
    fn error(&mut self, _desc: std::borrow::Cow<'static, str>) {}
    type Output = u32;
    fn finish(self) -> u32 {
        self.fin.set(self.fin.get() + 1);
        self.out.borrow().len() as u32
    }
}

fn show_pieces<A: Atomicity>(v: &[Tendril<fmt::Bytes, A>]) -> String {
    let mut lens = String::new();
    let mut all = Vec::new();
    for (i, t) in v.iter().enumerate() {
        if i > 0 {
            lens.push(',');
        }
        let _ = write!(lens, "{}", t.len());
        all.extend_from_slice(t);
    }
    if v.is_empty() {
        lens.push('-');
    }
    format!("{};{}", lens, hexs(&all))
}

// ------------------------------------------------------------------ ops for every format

fn op_any<F: Format, A: Atomicity>(c: &Case) -> R<String> {
    let mut keep: Keep<F, A> = Vec::new();
    let out = match c.op {
        "bytes" => {
            c.arity(1)?;
            let t: Tendril<F, A> = c.tendril(0, &mut keep)?;
            let view = hexs(t.as_bytes());
            let k0 = kind(&t);
            let b: Tendril<fmt::Bytes, A> = t.into_bytes();
            format!("as={} into={} k={}{}", view, hexs(&b), k0, kind(&b))
        },
        "reint" => {
            c.arity(2)?;
            match c.word(1)? {
                "bytes" => reint::<F, fmt::Bytes, A>(c, &mut keep)?,
                "ascii" => reint::<F, fmt::ASCII, A>(c, &mut keep)?,
                "latin1" => reint::<F, fmt::Latin1, A>(c, &mut keep)?,
                "utf8" => reint::<F, fmt::UTF8, A>(c, &mut keep)?,
                "wtf8" => reint::<F, fmt::WTF8, A>(c, &mut keep)?,
                _ => return Err("bad-case"),
            }
        },
        "eq" => {
            c.arity(2)?;
            let a: Tendril<F, A> = c.tendril(0, &mut keep)?;
            let b: Tendril<F, A> = c.tendril(1, &mut keep)?;
            let slice: &[u8] = a.as_bytes();
            format!(
                "eq={} ne={} hasheq={} hslice={}",
                bit(a == b),
                bit(a != b),
                bit(hash_of(&a) == hash_of(&b)),
                bit(hash_of(&a) == hash_of(slice))
            )
        },
        "views" => {
            // every pair of views (subtendril / clone + pop_front + pop_back) of ONE buffer: `==`, `!=` and the hash must
            // be those of the bytes held, whatever the two views share
            c.arity(1)?;
            let b = c.raw(0)?;
            let whole = Tendril::<F, A>::try_from_byte_slice(b).map_err(|_| "invalid-input")?;
            let n = b.len() as u32;
            let mut views: Vec<(Tendril<F, A>, &[u8])> = Vec::new();
            for off in 0..=n {
                for len in [0u32, 1, 7, 8, 9, 12, 16, 20, n] {
                    if off.checked_add(len).map_or(true, |e| e > n) {
                        continue;
                    }
                    let m = &b[off as usize..(off + len) as usize];
                    if let Ok(t) = whole.try_subtendril(off, len) {
                        views.push((t, m));
                    }
                    let mut t = whole.clone();
                    if t.try_pop_front(off).is_ok() && t.try_pop_back(n - off - len).is_ok() {
                        views.push((t, m));
                    }
                }
            }
            let mut bad = String::new();
            let mut pairs = 0u64;
            for (t1, m1) in &views {
                for (t2, m2) in &views {
                    pairs += 1;
                    let want = m1 == m2;
                    let ok = (t1 == t2) == want && (t1 != t2) != want && (!want || hash_of(t1) == hash_of(t2));
                    if !ok && bad.is_empty() {
                        bad = format!("{}/{}:eq={},want={}", kb(t1), kb(t2), bit(t1 == t2), bit(want));
                    }
                }
            }
            keep.push((whole, b.to_vec()));
            format!("views={} pairs={} bad={}", views.len(), pairs, if bad.is_empty() { "-" } else { &bad })
        },
        "extt" => {
            if c.args.is_empty() {
                return Err("bad-case");
            }
            let mut t: Tendril<F, A> = c.tendril(0, &mut keep)?;
            let t0: Tendril<F, A> = c.tendril(0, &mut keep)?;
            let mut others: Vec<Tendril<F, A>> = Vec::new();
            for k in 1..c.args.len() {
                others.push(c.tendril(k, &mut keep)?);
            }
            t.extend(others.iter());
            let f: Tendril<F, A> = std::iter::once(&t0).chain(others.iter()).collect();
            let mut same = true;
            for k in 1..c.args.len() {
                same &= &others[k - 1].as_bytes()[..] == c.bytes(k)?.1;
            }
            same &= &t0.as_bytes()[..] == c.bytes(0)?.1;
            format!("ext={} from={} args={}", hexs(t.as_bytes()), hexs(f.as_bytes()), if same { "ok" } else { "CHANGED" })
        },
        "send" => {
            c.arity(1)?;
            let t: Tendril<F, A> = c.tendril(0, &mut keep)?;
            let u: Tendril<F, A> = c.tendril(0, &mut keep)?;
            let s1: SendTendril<F> = SendTendril::from(t);
            let s2: SendTendril<F> = u.into_send();
            let a: Tendril<F, Atomic> = Tendril::from(s1);
            let n: Tendril<F, NonAtomic> = Tendril::from(s2);
            let (ka, kn) = (kb(&a), kb(&n));
            // the round-tripped tendrils are ordinary tendrils again: share and mutate them
            let a2 = a.clone();
            let mut n2 = n.clone();
            let _ = n2.try_push_bytes(b"!");
            format!("from={} into={} c={} m={} n={}", ka, kn, kb(&a2), kb(&n2), kb(&n))
        },
        _ => return Err("bad-op"),
    };
    Ok(format!("{} keep={}", out, if keep_ok(&keep) { "ok" } else { "CHANGED" }))
}

fn reint<F: Format, G: Format, A: Atomicity>(c: &Case, keep: &mut Keep<F, A>) -> R<String> {
    let target = c.word(1)?;
    let bytes = c.bytes(0)?.1;
    let t: Tendril<F, A> = c.tendril(0, keep)?;
    let view = match t.try_reinterpret_view::<G>() {
        Ok(v) => format!("ok:{}", hexs(v.as_bytes())),
        Err(()) => "err".to_string(),
    };
    let sound = sound_as(target, bytes);
    let raw = if sound {
        let v: &Tendril<G, A> = unsafe { t.reinterpret_view_without_validating::<G>() };
        kb(v)
    } else {
        "n/a".to_string()
    };
    let k0 = kind(&t);
    let into = match t.try_reinterpret::<G>() {
        Ok(g) => format!("ok:{}", kb(&g)),
        Err(orig) => format!("err:{}", kb(&orig)),
    };
    let rawinto = if sound {
        let u: Tendril<F, A> = c.tendril(0, keep)?;
        let g: Tendril<G, A> = unsafe { u.reinterpret_without_validating::<G>() };
        kb(&g)
    } else {
        "n/a".to_string()
    };
    Ok(format!("view={} into={} raw={} rawinto={} k={}", view, into, raw, rawinto, k0))
}

// ------------------------------------------------------------------ subset / superset pairs

fn op_super<F: fmt::SubsetOf<G>, G: Format, A: Atomicity>(c: &Case) -> R<String> {
    c.arity(2)?;
    let mut keep: Keep<F, A> = Vec::new();
    let t: Tendril<F, A> = c.tendril(0, &mut keep)?;
    let view = {
        let v: &Tendril<G, A> = t.as_superset::<G>();
        kb(v)
    };
    let g: Tendril<G, A> = t.into_superset::<G>();
    Ok(format!("view={} into={} keep={}", view, kb(&g), if keep_ok(&keep) { "ok" } else { "CHANGED" }))
}

fn op_sub<F: Format, G: fmt::SubsetOf<F>, A: Atomicity>(c: &Case) -> R<String> {
    c.arity(2)?;
    let mut keep: Keep<F, A> = Vec::new();
    let t: Tendril<F, A> = c.tendril(0, &mut keep)?;
    let view = match t.try_as_subset::<G>() {
        Ok(v) => format!("ok:{}", kb(v)),
        Err(()) => "err".to_string(),
    };
    let into = match t.try_into_subset::<G>() {
        Ok(g) => format!("ok:{}", kb(&g)),
        Err(orig) => format!("err:{}", kb(&orig)),
    };
    Ok(format!("view={} into={} keep={}", view, into, if keep_ok(&keep) { "ok" } else { "CHANGED" }))
}

// ------------------------------------------------------------------ ops of the two slice formats

macro_rules! slice_ops {
    ($fname:ident, $F:ty, $S:ty, $conv:expr) => {
        fn $fname<A: Atomicity>(c: &Case) -> R<String> {
            let conv: fn(&[u8]) -> R<&$S> = $conv;
            let mut keep: Keep<$F, A> = Vec::new();
            let out = match c.op {
                "cmp" => {
                    c.arity(2)?;
                    let a: Tendril<$F, A> = c.tendril(0, &mut keep)?;
                    let b: Tendril<$F, A> = c.tendril(1, &mut keep)?;
                    let name = |o: std::cmp::Ordering| match o {
                        std::cmp::Ordering::Less => "lt",
                        std::cmp::Ordering::Equal => "eq",
                        std::cmp::Ordering::Greater => "gt",
                    };
                    format!(
                        "cmp={} pcmp={} lt={} le={} gt={} ge={} rev={}",
                        name(a.cmp(&b)),
                        a.partial_cmp(&b).map(name).unwrap_or("none"),
                        bit(a < b),
                        bit(a <= b),
                        bit(a > b),
                        bit(a >= b),
                        name(b.cmp(&a))
                    )
                },
                "borrow" => {
                    c.arity(2)?;
                    let t: Tendril<$F, A> = c.tendril(0, &mut keep)?;
                    let key = c.raw(1)?;
                    let b: &[u8] = Borrow::<[u8]>::borrow(&t);
                    let r: &$S = t.as_ref();
                    let d: &$S = &*t;
                    let mut m: HashMap<Tendril<$F, A>, u32> = HashMap::new();
                    m.insert(t.clone(), 7);
                    m.insert(Tendril::new(), 1);
                    let got = m.get(key).copied();
                    format!(
                        "borrow={} asref={} deref={} map={}",
                        hexs(b),
                        hexs(fmt::Slice::as_bytes(r)),
                        hexs(fmt::Slice::as_bytes(d)),
                        got.map(|n| n.to_string()).unwrap_or("-".into())
                    )
                },
                "debug" => {
                    c.arity(1)?;
                    let t: Tendril<$F, A> = c.tendril(0, &mut keep)?;
                    let s = format!("{:?}", t);
                    format!("dbg={}", hexs(s.as_bytes()))
                },
                "from" => {
                    c.arity(1)?;
                    let s: &$S = conv(c.raw(0)?)?;
                    let a: Tendril<$F, A> = Tendril::from(s);
                    let b: Tendril<$F, A> = Tendril::from_slice(s);
                    let d: Tendril<$F, NonAtomic> = s.to_tendril();
                    let e: Tendril<$F, A> = Default::default();
                    format!("from={} slice={} tot={} default={}", kb(&a), kb(&b), kb(&d), kb(&e))
                },
                "exts" => {
                    if c.args.is_empty() {
                        return Err("bad-case");
                    }
                    let mut t: Tendril<$F, A> = c.tendril(0, &mut keep)?;
                    let mut pieces: Vec<&$S> = Vec::new();
                    for k in 1..c.args.len() {
                        pieces.push(conv(c.raw(k)?)?);
                    }
                    t.extend(pieces.iter().copied());
                    let f: Tendril<$F, A> = pieces.iter().copied().collect();
                    format!("ext={} from={}", hexs(t.as_bytes()), hexs(f.as_bytes()))
                },
                _ => return Err("bad-op"),
            };
            Ok(format!("{} keep={}", out, if keep_ok(&keep) { "ok" } else { "CHANGED" }))
        }
    };
}

slice_ops!(slice_bytes, fmt::Bytes, [u8], |b| Ok(b));
slice_ops!(slice_utf8, fmt::UTF8, str, |b| std::str::from_utf8(b).map_err(|_| "invalid-input"));

// ------------------------------------------------------------------ ASCII / UTF-8: comparison with str

macro_rules! eqstr_op {
    ($fname:ident, $F:ty) => {
        fn $fname<A: Atomicity>(c: &Case) -> R<String> {
            c.arity(2)?;
            let mut keep: Keep<$F, A> = Vec::new();
            let t: Tendril<$F, A> = c.tendril(0, &mut keep)?;
            let s: &str = c.str(1)?;
            Ok(format!(
                "eq={} ne={} keep={}",
                bit(PartialEq::<str>::eq(&t, s)),
                bit(PartialEq::<str>::ne(&t, s)),
                if keep_ok(&keep) { "ok" } else { "CHANGED" }
            ))
        }
    };
}
eqstr_op!(eqstr_ascii, fmt::ASCII);
eqstr_op!(eqstr_utf8, fmt::UTF8);

// ------------------------------------------------------------------ UTF-8 only

fn op_utf8<A: Atomicity>(c: &Case) -> R<String> {
    type T<A> = Tendril<fmt::UTF8, A>;
    let mut keep: Keep<fmt::UTF8, A> = Vec::new();
    let out = match c.op {
        "display" => {
            c.arity(1)?;
            let t: T<A> = c.tendril(0, &mut keep)?;
            let s = format!("{}|{:>12}|{:<5}|{:.3}|", t, t, t, t);
            format!("disp={}", hexs(s.as_bytes()))
        },
        "tostring" => {
            c.arity(1)?;
            let t: T<A> = c.tendril(0, &mut keep)?;
            let a = String::from(&t);
            let b = t.to_string();
            let k0 = kind(&t);
            let o = String::from(t);
            format!("ref={} tos={} own={} k={}", hexs(a.as_bytes()), hexs(b.as_bytes()), hexs(o.as_bytes()), k0)
        },
        "fromstr" => {
            c.arity(1)?;
            let s = c.str(0)?;
            let a: T<A> = Tendril::from(String::from(s));
            let b: T<A> = s.parse::<T<A>>().map_err(|_| "bad-case")?;
            format!("string={} parse={}", kb(&a), kb(&b))
        },
        "wstr" => {
            c.arity(3)?;
            let mut t: T<A> = c.tendril(0, &mut keep)?;
            let s = c.str(1)?;
            let n = c.num(2)?;
            let r1 = FmtWrite::write_str(&mut t, s).is_ok();
            let mid = hexs(t.as_bytes());
            let r2 = write!(t, "{}-{:03}", s, n).is_ok();
            let r3 = FmtWrite::write_char(&mut t, '!').is_ok();
            format!("ws={} mid={} wf={} wc={} b={}", bit(r1), mid, bit(r2), bit(r3), hexs(t.as_bytes()))
        },
        "format" => {
            c.arity(2)?;
            let s = c.str(0)?;
            let n = c.num(1)?;
            let a: T<A> = Tendril::<fmt::UTF8, A>::format(format_args!("{}:{}:{:x}", s, n, n));
            let b: tendril::StrTendril = tendril::format_tendril!("[{:>6}]{}", s, n);
            format!("fmt={} mac={}", kb(&a), kb(&b))
        },
        "extc" => {
            c.arity(2)?;
            let mut t: T<A> = c.tendril(0, &mut keep)?;
            let s = c.str(1)?;
            t.extend(s.chars());
            let f: T<A> = s.chars().collect();
            let fc = match s.chars().next() {
                Some(ch) => kb(&Tendril::<fmt::UTF8, A>::from_char(ch)),
                None => "none".to_string(),
            };
            format!("ext={} from={} fc={}", hexs(t.as_bytes()), hexs(f.as_bytes()), fc)
        },
        _ => return Err("bad-op"),
    };
    Ok(format!("{} keep={}", out, if keep_ok(&keep) { "ok" } else { "CHANGED" }))
}

// ------------------------------------------------------------------ Bytes only

fn op_bytes<A: Atomicity>(c: &Case) -> R<String> {
    type T<A> = Tendril<fmt::Bytes, A>;
    let mut keep: Keep<fmt::Bytes, A> = Vec::new();
    let out = match c.op {
        "iowrite" => {
            c.arity(3)?;
            let mut t: T<A> = c.tendril(0, &mut keep)?;
            let a = c.raw(1)?;
            let b = c.raw(2)?;
            let n = IoWrite::write(&mut t, a);
            let mid = hexs(&t);
            let r2 = IoWrite::write_all(&mut t, b).is_ok();
            let r3 = IoWrite::flush(&mut t).is_ok();
            let r4 = write!(t, "{}", a.len()).is_ok();
            format!(
                "n={} mid={} all={} flush={} wf={} b={}",
                n.map(|n| n.to_string()).unwrap_or("err".into()),
                mid,
                bit(r2),
                bit(r3),
                bit(r4),
                hexs(&t)
            )
        },
        "read" => {
            c.arity(5)?;
            let mut t: T<A> = c.tendril(0, &mut keep)?;
            let mut t2: T<A> = c.tendril(0, &mut keep)?;
            let (data, chunks, intr, errat) = reader_args(c, 1)?;
            let mut rd = Chunked { data, pos: 0, chunks: &chunks, k: 0, call: 0, intr, errat };
            let r = rd.read_to_tendril(&mut t);
            let mut sl: &[u8] = data;
            let r2 = sl.read_to_tendril(&mut t2);
            format!(
                "r={} b={} s={} b2={}",
                r.map(|n| format!("ok:{}", n)).unwrap_or("err".into()),
                hexs(&t),
                r2.map(|n| format!("ok:{}", n)).unwrap_or("err".into()),
                hexs(&t2)
            )
        },
        "extb" => {
            c.arity(3)?;
            let mut t: T<A> = c.tendril(0, &mut keep)?;
            let n = c.num(1)?;
            let v = c.num(2)?;
            if !(0..=(1 << 20)).contains(&n) || !(0..256).contains(&v) {
                return Err("bad-case");
            }
            t.extend_with_byte(n as u32, v as u8);
            format!("b={}", hexs(&t))
        },
        "extu8" => {
            c.arity(2)?;
            let mut t: T<A> = c.tendril(0, &mut keep)?;
            let mut u: T<A> = c.tendril(0, &mut keep)?;
            let b = c.raw(1)?;
            t.extend(b.iter().copied());
            u.extend(b.iter());
            let f: T<A> = b.iter().copied().collect();
            let g: T<A> = b.iter().collect();
            format!("ext={} extref={} from={} fromref={}", hexs(&t), hexs(&u), hexs(&f), hexs(&g))
        },
        "sink" => {
            c.arity(5)?;
            let t: T<A> = c.tendril(0, &mut keep)?;
            let (data, chunks, intr, errat) = reader_args(c, 1)?;
            let fin = Cell::new(0u32);
            let out1: RefCell<Vec<T<A>>> = RefCell::new(Vec::new());
            let n1 = Collect { out: &out1, fin: &fin }.one(t);
            let out2: RefCell<Vec<T<A>>> = RefCell::new(Vec::new());
            let n2 = Collect { out: &out2, fin: &fin }.from_iter(data.chunks(5.max(data.len() / 6 + 1)));
            let out3: RefCell<Vec<T<A>>> = RefCell::new(Vec::new());
            let mut rd = Chunked { data, pos: 0, chunks: &chunks, k: 0, call: 0, intr, errat };
            let r3 = Collect { out: &out3, fin: &fin }.read_from(&mut rd);
            let s = format!(
                "one={}/{} iter={}/{} read={}/{} fin={}",
                n1,
                show_pieces(&out1.borrow()),
                n2,
                show_pieces(&out2.borrow()),
                r3.map(|n| n.to_string()).unwrap_or("err".into()),
                show_pieces(&out3.borrow()),
                fin.get()
            );
            s
        },
        _ => return Err("bad-op"),
    };
    Ok(format!("{} keep={}", out, if keep_ok(&keep) { "ok" } else { "CHANGED" }))
}

// ------------------------------------------------------------------ dispatch

fn exec<A: Atomicity>(c: &Case) -> R<String> {
    macro_rules! any {
        () => {
            match c.fmt {
                "bytes" => op_any::<fmt::Bytes, A>(c),
                "ascii" => op_any::<fmt::ASCII, A>(c),
                "latin1" => op_any::<fmt::Latin1, A>(c),
                "utf8" => op_any::<fmt::UTF8, A>(c),
                "wtf8" => op_any::<fmt::WTF8, A>(c),
                _ => Err("bad-case"),
            }
        };
    }
    match c.op {
        "bytes" | "reint" | "eq" | "extt" | "send" | "views" => any!(),
        "super" => match (c.fmt, c.word(1)?) {
            ("ascii", "utf8") => op_super::<fmt::ASCII, fmt::UTF8, A>(c),
            ("ascii", "latin1") => op_super::<fmt::ASCII, fmt::Latin1, A>(c),
            ("utf8", "wtf8") => op_super::<fmt::UTF8, fmt::WTF8, A>(c),
            _ => Err("bad-op"),
        },
        "sub" => match (c.fmt, c.word(1)?) {
            ("utf8", "ascii") => op_sub::<fmt::UTF8, fmt::ASCII, A>(c),
            ("latin1", "ascii") => op_sub::<fmt::Latin1, fmt::ASCII, A>(c),
            ("wtf8", "utf8") => op_sub::<fmt::WTF8, fmt::UTF8, A>(c),
            _ => Err("bad-op"),
        },
        "cmp" | "borrow" | "debug" | "from" | "exts" => match c.fmt {
            "bytes" => slice_bytes::<A>(c),
            "utf8" => slice_utf8::<A>(c),
            _ => Err("bad-op"),
        },
        "eqstr" => match c.fmt {
            "ascii" => eqstr_ascii::<A>(c),
            "utf8" => eqstr_utf8::<A>(c),
            _ => Err("bad-op"),
        },
        "display" | "tostring" | "fromstr" | "wstr" | "format" | "extc" => match c.fmt {
            "utf8" => op_utf8::<A>(c),
            _ => Err("bad-op"),
        },
        "iowrite" | "read" | "extb" | "extu8" | "sink" => match c.fmt {
            "bytes" => op_bytes::<A>(c),
            _ => Err("bad-op"),
        },
        _ => Err("bad-op"),
    }
}

pub fn run(fields: &[&str]) -> String {
    if fields.len() < 4 {
        return "bad-case".into();
    }
    let mut args = Vec::new();
    for f in &fields[3..] {
        match parse_arg(f) {
            Some(a) => args.push(a),
            None => return "bad-case".into(),
        }
    }
    let case = Case { op: fields[0], fmt: fields[1], args };
    let atom = fields[2];
    if atom != "N" && atom != "A" {
        return "bad-case".into();
    }
    // the whole case runs inside one recording window: operands, results and every temporary are
    // created and released in it; only the (copied) result line leaves it
    let r = catch_unwind(AssertUnwindSafe(|| {
        ledger::record_quiet(|| {
            let r = if atom == "N" { exec::<NonAtomic>(&case) } else { exec::<Atomic>(&case) };
            match r {
                Ok(s) => s,
                Err(e) => e.to_string(),
            }
        })
    }));
    let value = match r {
        Ok(s) => {
            let copy = s.as_str().to_owned();
            ledger::record_quiet(|| drop(s));
            copy
        },
        Err(_) => "panic".to_string(),
    };
    let _ = ledger::take_events();
    let live = ledger::live();
    let anomalies = ledger::end_case();
    let mut out = value;
    if live == 0 && anomalies.is_empty() {
        out.push_str("@ledger=ok");
    } else {
        out.push_str(&format!("@ledger=live={}", live));
        for a in anomalies {
            out.push(',');
            out.push_str(&a);
        }
    }
    out
}
